//! F12 demonstration (property C27): a RawMemoryFreeList whose table size is not a multiple of its
//! block size cannot grow to its configured maximum.
//!
//! Registered as a child module of `util::raw_memory_freelist` by appending
//!     #[cfg(test)] #[path = "raw_memory_freelist_f12_demo.rs"] mod f12_demo;
//! to src/util/raw_memory_freelist.rs and copying this file next to it; run with
//!     cargo test --offline --lib f12_demo -- --test-threads=1
//! Before the fix both tests panic with "blocks and new max are inconsistent"; after it they pass.

use super::*;
use crate::util::freelist::{FreeList, FAILURE};

fn base() -> Address {
    // 2 MiB above the page the module's own tests use
    crate::util::test_util::RAW_MEMORY_FREELIST_TEST_REGION.start + (2usize << 20)
}

/// Built exactly as `Map64::create_parent_freelist` does: limit = base + size_in_pages(units, heads).
fn list(units: i32, grain: i32, pages_per_block: i32) -> RawMemoryFreeList {
    let heads = 1;
    let pages = RawMemoryFreeList::size_in_pages(units, heads);
    RawMemoryFreeList::new(
        base(),
        base() + conversions::pages_to_bytes(pages as _),
        pages_per_block,
        units,
        grain,
        heads,
        MmapStrategy::TEST,
    )
}

#[test]
fn grows_to_maximum_when_table_is_not_a_block_multiple() {
    // 1534 units + 1 head + 1 sentinel = 1536 entries of 8 bytes = 3 pages; blocks of 2 pages.
    let units = 1534;
    assert_eq!(RawMemoryFreeList::size_in_pages(units, 1), 3);
    let mut l = list(units, 2, 2);
    assert!(l.grow_freelist(units), "growing to exactly the configured maximum must succeed");
    // every unit of the configured maximum can be allocated, once
    let mut n = 0;
    while l.alloc(2) != FAILURE {
        n += 2;
    }
    assert_eq!(n, units);
}

#[test]
fn default_sized_blocks_partial_tail() {
    // The shape of the default Map64 table (1038092 pages = 64880 * 16 + 12), scaled down:
    // 20 pages with the default 16-page blocks.
    let units = 20 * 512 - 2; // 10238
    assert_eq!(RawMemoryFreeList::size_in_pages(units, 1), 20);
    assert_eq!(RawMemoryFreeList::default_block_size(units, 1), 16);
    let mut l = list(units, 2, 16);
    assert!(l.grow_freelist(8190)); // fills the first block exactly
    assert!(l.grow_freelist(units - 8190), "the partial last block must be usable");
    assert_eq!(l.current_units, units);
}
