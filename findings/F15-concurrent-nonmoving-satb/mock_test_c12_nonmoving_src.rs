//! Probe (not a seed demo): same as the sanity test, but the overwritten field lives in an object
//! allocated with `AllocationSemantics::NonMoving`.
use super::c12_tinyvm::*;
use crate::AllocationSemantics;

#[test]
pub fn c12_nonmoving_src() {
    boot(8 << 20, 1);
    let p = alloc_object_with(2, AllocationSemantics::NonMoving);
    let x = alloc_object(1);
    init_field(p, 0, Some(x));
    set_root(0, Some(p));
    close_gate();
    run_until_initial_mark();
    write_field(p, 0, None);
    finish_marking();
    assert!(survived(p), "p");
    assert!(survived(x), "x (snapshot-at-the-beginning)");
}
