//! A tiny but *real* VM binding used to drive ConcurrentImmix end to end (InitialMark pause,
//! concurrent marking, FinalMark pause) from a test.  It does not use `MockVM` at all: the
//! metadata lives on the side, GC workers are real threads, and the single mutator is the test
//! thread itself.
//!
//! Object layout (`ObjectReference` == allocation start):
//!
//! ```text
//!   word 0: reserved (forwarding pointer)
//!   word 1: number of reference fields (n)
//!   word 2..2+n: reference fields (0 == null)
//! ```
//!
//! Determinism: `Scanning::scan_object` called from a GC worker blocks while the "gate" is
//! closed.  The test closes the gate before triggering InitialMark, so that concurrent marking is
//! frozen right after it has marked the root objects but before it has scanned anything.  The
//! mutator then performs its writes (through the SATB barrier) and opens the gate.

#![allow(dead_code)]

use crate::memory_manager;
use crate::plan::Mutator;
use crate::scheduler::{GCWorker, WorkBucketStage};
use crate::util::copy::{CopySemantics, GCWorkerCopyContext};
use crate::util::opaque_pointer::*;
use crate::util::options::{GCTriggerSelector, PlanSelector};
use crate::util::{Address, ObjectReference};
use crate::vm::*;
use crate::{AllocationSemantics, MMTKBuilder, MMTK};

use std::ops::Range;
use std::sync::atomic::{AtomicBool, AtomicPtr, AtomicUsize, Ordering};
use std::sync::{Condvar, Mutex};

pub const WORD: usize = std::mem::size_of::<usize>();
pub const HEADER_WORDS: usize = 2;
pub const NUM_ROOTS: usize = 64;

const MUTATOR_TLS: usize = 0x1000;
const MUTATOR2_TLS: usize = 0x1008;
const WORKER_TLS: usize = 0x2000;

#[derive(Default)]
pub struct TinyVM;

impl VMBinding for TinyVM {
    type VMObjectModel = TinyVM;
    type VMScanning = TinyVM;
    type VMCollection = TinyVM;
    type VMActivePlan = TinyVM;
    type VMReferenceGlue = TinyVM;
    type VMSlot = Address;
    type VMMemorySlice = Range<Address>;
}

// ---------- global VM state ----------

static MMTK_PTR: AtomicPtr<MMTK<TinyVM>> = AtomicPtr::new(std::ptr::null_mut());
static MUTATOR_PTR: AtomicPtr<Mutator<TinyVM>> = AtomicPtr::new(std::ptr::null_mut());
/// An optional second mutator context.  It is driven by the test thread, too, which lets a test
/// replay a fixed interleaving of two mutators deterministically.
static MUTATOR2_PTR: AtomicPtr<Mutator<TinyVM>> = AtomicPtr::new(std::ptr::null_mut());

type ScanHook = Box<dyn FnOnce(ObjectReference) + Send>;
/// One-shot hook called when a *barrier* (not a GC worker) starts scanning an object, before any
/// of its fields is visited.  It stands for "another mutator runs here".
static BARRIER_SCAN_HOOK: Mutex<Option<ScanHook>> = Mutex::new(None);

pub fn set_barrier_scan_hook(hook: impl FnOnce(ObjectReference) + Send + 'static) {
    *BARRIER_SCAN_HOOK.lock().unwrap() = Some(Box::new(hook));
}

#[allow(clippy::declare_interior_mutable_const)]
const ROOT_INIT: AtomicUsize = AtomicUsize::new(0);
/// The root set of the single mutator.
pub static ROOTS: [AtomicUsize; NUM_ROOTS] = [ROOT_INIT; NUM_ROOTS];

struct StwState {
    mutator_blocked: bool,
    resume_epoch: usize,
}
static STW: Mutex<StwState> = Mutex::new(StwState {
    mutator_blocked: false,
    resume_epoch: 0,
});
static STW_CV: Condvar = Condvar::new();

static GATE_CLOSED: Mutex<bool> = Mutex::new(false);
static GATE_CV: Condvar = Condvar::new();
/// Number of objects scanned by GC workers (not by the barrier).
pub static GC_SCANS: AtomicUsize = AtomicUsize::new(0);
/// Set when a GC worker is waiting at the closed gate.
pub static WORKER_AT_GATE: AtomicBool = AtomicBool::new(false);
/// `Collection::is_collection_enabled`.  Turned off while marking is frozen at the gate, because a
/// frozen in-flight packet makes the Concurrent bucket look drained, which would make the next
/// poll request FinalMark while the (only) GC worker cannot serve it.
pub static COLLECTION_ENABLED: AtomicBool = AtomicBool::new(true);
/// Number of pauses (stop_all_mutators calls) so far.
pub static PAUSES: AtomicUsize = AtomicUsize::new(0);

pub fn close_gate() {
    *GATE_CLOSED.lock().unwrap() = true;
}

pub fn open_gate() {
    *GATE_CLOSED.lock().unwrap() = false;
    GATE_CV.notify_all();
}

fn wait_at_gate() {
    let mut closed = GATE_CLOSED.lock().unwrap();
    while *closed {
        WORKER_AT_GATE.store(true, Ordering::SeqCst);
        closed = GATE_CV.wait(closed).unwrap();
    }
    WORKER_AT_GATE.store(false, Ordering::SeqCst);
}

fn is_mutator_thread(tls: VMThread) -> bool {
    let tls = tls.0.to_address().as_usize();
    tls == MUTATOR_TLS || tls == MUTATOR2_TLS
}

fn mutator2_tls() -> VMMutatorThread {
    VMMutatorThread(VMThread(OpaquePointer::from_address(unsafe {
        Address::from_usize(MUTATOR2_TLS)
    })))
}

/// Bind a second mutator context.
pub fn bind_second_mutator() {
    let mutator = Box::leak(memory_manager::bind_mutator(mmtk(), mutator2_tls()));
    MUTATOR2_PTR.store(mutator as *mut _, Ordering::SeqCst);
}

#[allow(clippy::mut_from_ref)]
pub fn mutator2() -> &'static mut Mutator<TinyVM> {
    let ptr = MUTATOR2_PTR.load(Ordering::SeqCst);
    assert!(!ptr.is_null());
    unsafe { &mut *ptr }
}

/// `write_field` performed by the second mutator.
pub fn write_field_by_mutator2(object: ObjectReference, i: usize, value: Option<ObjectReference>) {
    let slot = field_slot(object, i);
    memory_manager::object_reference_write_pre(mutator2(), object, slot, value);
    init_field(object, i, value);
}

pub fn mutator_tls() -> VMMutatorThread {
    VMMutatorThread(VMThread(OpaquePointer::from_address(unsafe {
        Address::from_usize(MUTATOR_TLS)
    })))
}

fn worker_tls() -> VMWorkerThread {
    VMWorkerThread(VMThread(OpaquePointer::from_address(unsafe {
        Address::from_usize(WORKER_TLS)
    })))
}

pub fn mmtk() -> &'static MMTK<TinyVM> {
    unsafe { &*MMTK_PTR.load(Ordering::SeqCst) }
}

#[allow(clippy::mut_from_ref)]
pub fn mutator() -> &'static mut Mutator<TinyVM> {
    unsafe { &mut *MUTATOR_PTR.load(Ordering::SeqCst) }
}

// ---------- object helpers ----------

pub fn num_fields(object: ObjectReference) -> usize {
    unsafe { (object.to_raw_address() + WORD).load::<usize>() }
}

pub fn field_slot(object: ObjectReference, i: usize) -> Address {
    debug_assert!(i < num_fields(object));
    object.to_raw_address() + (HEADER_WORDS + i) * WORD
}

pub fn object_size(object: ObjectReference) -> usize {
    (HEADER_WORDS + num_fields(object)) * WORD
}

pub fn get_field(object: ObjectReference, i: usize) -> Option<ObjectReference> {
    <Address as crate::vm::slot::Slot>::load(&field_slot(object, i))
}

/// Store without any barrier.  Only for initialising fresh objects / building the initial graph.
pub fn init_field(object: ObjectReference, i: usize, value: Option<ObjectReference>) {
    unsafe {
        field_slot(object, i).store::<usize>(value.map_or(0, |o| o.to_raw_address().as_usize()))
    }
}

/// A reference store as a mutator would do it: SATB pre-write barrier, then the store.
pub fn write_field(object: ObjectReference, i: usize, value: Option<ObjectReference>) {
    let slot = field_slot(object, i);
    memory_manager::object_reference_write_pre(mutator(), object, slot, value);
    init_field(object, i, value);
}

/// Array copy as a mutator would do it: region-copy pre barrier, then the copy.
pub fn copy_fields(
    src: ObjectReference,
    src_start: usize,
    dst: ObjectReference,
    dst_start: usize,
    len: usize,
) {
    let s = field_slot(src, src_start)..(field_slot(src, src_start) + len * WORD);
    let d = field_slot(dst, dst_start)..(field_slot(dst, dst_start) + len * WORD);
    memory_manager::memory_region_copy_pre(mutator(), s.clone(), d.clone());
    <Range<Address> as crate::vm::slot::MemorySlice>::copy(&s, &d);
}

pub fn alloc_object_with(nfields: usize, semantics: AllocationSemantics) -> ObjectReference {
    let size = (HEADER_WORDS + nfields) * WORD;
    let addr = memory_manager::alloc(mutator(), size, WORD, 0, semantics);
    assert!(!addr.is_zero());
    unsafe {
        crate::util::memory::zero(addr, size);
        (addr + WORD).store::<usize>(nfields);
    }
    let object = ObjectReference::from_raw_address(addr).unwrap();
    memory_manager::post_alloc(mutator(), object, size, semantics);
    object
}

pub fn alloc_object(nfields: usize) -> ObjectReference {
    alloc_object_with(nfields, AllocationSemantics::Default)
}

pub fn set_root(i: usize, value: Option<ObjectReference>) {
    ROOTS[i].store(
        value.map_or(0, |o| o.to_raw_address().as_usize()),
        Ordering::SeqCst,
    );
}

// ---------- driving the collector ----------

pub fn marking_in_progress() -> bool {
    mmtk()
        .get_plan()
        .concurrent()
        .unwrap()
        .concurrent_work_in_progress()
}

pub fn concurrent_bucket_drained() -> bool {
    mmtk().scheduler.work_buckets[WorkBucketStage::Concurrent].is_drained()
}

/// Create the MMTk instance (ConcurrentImmix), spawn GC workers, bind the mutator.
pub fn boot(heap_bytes: usize, gc_threads: usize) {
    let mut builder = MMTKBuilder::new();
    builder.options.plan.set(PlanSelector::ConcurrentImmix);
    builder
        .options
        .gc_trigger
        .set(GCTriggerSelector::FixedHeapSize(heap_bytes));
    builder.options.threads.set(gc_threads);
    builder.options.no_reference_types.set(true);
    builder.options.no_finalizer.set(true);
    let mmtk: &'static mut MMTK<TinyVM> = Box::leak(memory_manager::mmtk_init(&builder));
    MMTK_PTR.store(mmtk as *mut _, Ordering::SeqCst);
    let mutator = Box::leak(memory_manager::bind_mutator(self::mmtk(), mutator_tls()));
    MUTATOR_PTR.store(mutator as *mut _, Ordering::SeqCst);
    memory_manager::initialize_collection(self::mmtk(), mutator_tls().0);
}

/// Allocate unreachable filler objects until the InitialMark pause has happened.  The gate should
/// be closed by the caller if it wants marking to be frozen when this returns.
pub fn run_until_initial_mark() {
    assert!(!marking_in_progress());
    let before = PAUSES.load(Ordering::SeqCst);
    let mut n = 0usize;
    while !marking_in_progress() {
        let _ = alloc_object(30);
        n += 1;
        assert!(n < 10_000_000, "InitialMark never happened");
    }
    assert_eq!(
        PAUSES.load(Ordering::SeqCst),
        before + 1,
        "expected exactly one pause (InitialMark)"
    );
}

/// Open the gate, let concurrent marking finish, then poll until the FinalMark pause has happened.
pub fn finish_marking() {
    open_gate();
    COLLECTION_ENABLED.store(true, Ordering::SeqCst);
    let before = PAUSES.load(Ordering::SeqCst);
    let mut spins = 0usize;
    while marking_in_progress() {
        // FinalMark is only triggered at a poll once the Concurrent bucket is drained.
        memory_manager::gc_poll(mmtk(), mutator_tls());
        std::thread::sleep(std::time::Duration::from_millis(1));
        spins += 1;
        assert!(spins < 60_000, "FinalMark never happened");
    }
    assert_eq!(
        PAUSES.load(Ordering::SeqCst),
        before + 1,
        "expected exactly one pause (FinalMark)"
    );
}

/// Does `object` survive, i.e. is it considered live by its space after the last pause?
pub fn survived(object: ObjectReference) -> bool {
    object.is_live()
}

// ---------- VM traits ----------

impl ActivePlan<TinyVM> for TinyVM {
    fn number_of_mutators() -> usize {
        if MUTATOR2_PTR.load(Ordering::SeqCst).is_null() {
            1
        } else {
            2
        }
    }
    fn is_mutator(tls: VMThread) -> bool {
        is_mutator_thread(tls)
    }
    fn mutator(tls: VMMutatorThread) -> &'static mut Mutator<TinyVM> {
        if tls.0 .0.to_address().as_usize() == MUTATOR2_TLS {
            mutator2()
        } else {
            mutator()
        }
    }
    fn mutators<'a>() -> Box<dyn Iterator<Item = &'a mut Mutator<TinyVM>> + 'a> {
        let mut all: Vec<&'a mut Mutator<TinyVM>> = vec![mutator()];
        if !MUTATOR2_PTR.load(Ordering::SeqCst).is_null() {
            all.push(mutator2());
        }
        Box::new(all.into_iter())
    }
}

impl Collection<TinyVM> for TinyVM {
    fn stop_all_mutators<F>(_tls: VMWorkerThread, mut mutator_visitor: F)
    where
        F: FnMut(&'static mut Mutator<TinyVM>),
    {
        // All pauses are requested from the mutator's own polls, so it is about to block.
        let mut stw = STW.lock().unwrap();
        while !stw.mutator_blocked {
            stw = STW_CV.wait(stw).unwrap();
        }
        drop(stw);
        PAUSES.fetch_add(1, Ordering::SeqCst);
        for m in <TinyVM as ActivePlan<TinyVM>>::mutators() {
            mutator_visitor(m);
        }
    }

    fn resume_mutators(_tls: VMWorkerThread) {
        let mut stw = STW.lock().unwrap();
        stw.mutator_blocked = false;
        stw.resume_epoch += 1;
        STW_CV.notify_all();
    }

    fn block_for_gc(_tls: VMMutatorThread) {
        let mut stw = STW.lock().unwrap();
        stw.mutator_blocked = true;
        let epoch = stw.resume_epoch;
        STW_CV.notify_all();
        while stw.resume_epoch == epoch {
            stw = STW_CV.wait(stw).unwrap();
        }
        drop(stw);
        if *GATE_CLOSED.lock().unwrap() {
            COLLECTION_ENABLED.store(false, Ordering::SeqCst);
        }
    }

    fn is_collection_enabled() -> bool {
        COLLECTION_ENABLED.load(Ordering::SeqCst)
    }

    fn spawn_gc_thread(_tls: VMThread, ctx: GCThreadContext<TinyVM>) {
        match ctx {
            GCThreadContext::Worker(worker) => {
                std::thread::spawn(move || {
                    let mmtk = worker.mmtk;
                    worker.run(worker_tls(), mmtk);
                });
            }
        }
    }
}

impl ObjectModel<TinyVM> for TinyVM {
    const GLOBAL_LOG_BIT_SPEC: VMGlobalLogBitSpec = VMGlobalLogBitSpec::side_first();
    const LOCAL_FORWARDING_POINTER_SPEC: VMLocalForwardingPointerSpec =
        VMLocalForwardingPointerSpec::in_header(0);
    const LOCAL_FORWARDING_BITS_SPEC: VMLocalForwardingBitsSpec =
        VMLocalForwardingBitsSpec::side_first();
    const LOCAL_MARK_BIT_SPEC: VMLocalMarkBitSpec =
        VMLocalMarkBitSpec::side_after(Self::LOCAL_FORWARDING_BITS_SPEC.as_spec());
    const LOCAL_LOS_MARK_NURSERY_SPEC: VMLocalLOSMarkNurserySpec =
        VMLocalLOSMarkNurserySpec::side_after(Self::LOCAL_MARK_BIT_SPEC.as_spec());
    #[cfg(feature = "object_pinning")]
    const LOCAL_PINNING_BIT_SPEC: VMLocalPinningBitSpec =
        VMLocalPinningBitSpec::side_after(Self::LOCAL_LOS_MARK_NURSERY_SPEC.as_spec());

    const OBJECT_REF_OFFSET_LOWER_BOUND: isize = 0;

    fn copy(
        from: ObjectReference,
        semantics: CopySemantics,
        copy_context: &mut GCWorkerCopyContext<TinyVM>,
    ) -> ObjectReference {
        let bytes = object_size(from);
        let dst = copy_context.alloc_copy(from, bytes, WORD, 0, semantics);
        unsafe {
            std::ptr::copy_nonoverlapping::<u8>(
                from.to_raw_address().to_ptr(),
                dst.to_mut_ptr(),
                bytes,
            );
        }
        let to = ObjectReference::from_raw_address(dst).unwrap();
        copy_context.post_copy(to, bytes, semantics);
        to
    }

    fn copy_to(_from: ObjectReference, _to: ObjectReference, _region: Address) -> Address {
        unimplemented!()
    }

    fn get_current_size(object: ObjectReference) -> usize {
        object_size(object)
    }

    fn get_size_when_copied(object: ObjectReference) -> usize {
        object_size(object)
    }

    fn get_align_when_copied(_object: ObjectReference) -> usize {
        WORD
    }

    fn get_align_offset_when_copied(_object: ObjectReference) -> usize {
        0
    }

    fn get_reference_when_copied_to(_from: ObjectReference, to: Address) -> ObjectReference {
        ObjectReference::from_raw_address(to).unwrap()
    }

    fn get_type_descriptor(_reference: ObjectReference) -> &'static [i8] {
        unimplemented!()
    }

    fn ref_to_object_start(object: ObjectReference) -> Address {
        object.to_raw_address()
    }

    fn ref_to_header(object: ObjectReference) -> Address {
        object.to_raw_address()
    }

    fn dump_object(object: ObjectReference) {
        println!("object {} with {} fields", object, num_fields(object));
    }
}

impl ReferenceGlue<TinyVM> for TinyVM {
    type FinalizableType = ObjectReference;
    fn clear_referent(_new_reference: ObjectReference) {
        unimplemented!()
    }
    fn set_referent(_reference: ObjectReference, _referent: ObjectReference) {
        unimplemented!()
    }
    fn get_referent(_object: ObjectReference) -> Option<ObjectReference> {
        unimplemented!()
    }
    fn enqueue_references(_references: &[ObjectReference], _tls: VMWorkerThread) {
        unimplemented!()
    }
}

impl Scanning<TinyVM> for TinyVM {
    fn scan_object<SV: SlotVisitor<Address>>(
        tls: VMWorkerThread,
        object: ObjectReference,
        slot_visitor: &mut SV,
    ) {
        // The barrier scans objects with an uninitialised tls; GC workers use `worker_tls()`.
        if tls.0 .0.to_address().as_usize() == WORKER_TLS {
            wait_at_gate();
            GC_SCANS.fetch_add(1, Ordering::SeqCst);
        } else {
            let hook = BARRIER_SCAN_HOOK.lock().unwrap().take();
            if let Some(hook) = hook {
                hook(object);
            }
        }
        for i in 0..num_fields(object) {
            slot_visitor.visit_slot(field_slot(object, i));
        }
    }

    fn scan_roots_in_mutator_thread(
        _tls: VMWorkerThread,
        mutator: &'static mut Mutator<TinyVM>,
        mut factory: impl RootsWorkFactory<Address>,
    ) {
        // All roots belong to the first mutator.
        if std::ptr::eq(mutator as *const _, MUTATOR2_PTR.load(Ordering::SeqCst) as *const _) {
            return;
        }
        let slots = ROOTS
            .iter()
            .map(|r| Address::from_ref(r))
            .collect::<Vec<_>>();
        factory.create_process_roots_work(slots);
    }

    fn scan_vm_specific_roots(_tls: VMWorkerThread, _factory: impl RootsWorkFactory<Address>) {}

    fn notify_initial_thread_scan_complete(_partial_scan: bool, _tls: VMWorkerThread) {}

    fn supports_return_barrier() -> bool {
        false
    }

    fn prepare_for_roots_re_scanning() {}
}

// Keep the unused import checker quiet about `GCWorker` in some configurations.
#[allow(unused)]
fn _unused(_w: &GCWorker<TinyVM>) {}
