//! MiniVM: a tiny but *functional* VM binding (written by the C04 seeding sub-agent, reused unchanged for the F13/F14 demonstrations).
//!
//! Unlike `MockVM` (which keeps every per-object metadata bit at header bit 0 and cannot run a
//! collection), MiniVM has a sane metadata layout (side mark/forwarding/pin/log bits, forwarding
//! pointer in the first header word), one mutator (the test thread), a root table, real GC worker
//! threads, and a trivial object layout so that real stop-the-world collections can be driven
//! end to end through the public API (`handle_user_collection_request`).
//!
//! Object layout (all words are 8 bytes, `ObjectReference` == object start):
//!   word 0: GC header (used by MMTk for the forwarding pointer)
//!   word 1: number of reference fields `n`
//!   word 2: a payload "tag" word (not a reference; used by tests to check contents)
//!   word 3..3+n: reference fields
#![allow(dead_code)]

use crate::memory_manager;
use crate::util::copy::{CopySemantics, GCWorkerCopyContext};
use crate::util::opaque_pointer::*;
use crate::util::{Address, ObjectReference};
use crate::vm::slot::{SimpleSlot, UnimplementedMemorySlice};
use crate::vm::*;
use crate::{AllocationSemantics, MMTKBuilder, Mutator, MMTK};
use std::sync::atomic::{AtomicUsize, Ordering};
use std::sync::{Condvar, Mutex, OnceLock};

#[derive(Default)]
pub struct MiniVM;

impl VMBinding for MiniVM {
    type VMObjectModel = MiniVM;
    type VMScanning = MiniVM;
    type VMCollection = MiniVM;
    type VMActivePlan = MiniVM;
    type VMReferenceGlue = MiniVM;
    type VMSlot = SimpleSlot;
    type VMMemorySlice = UnimplementedMemorySlice;
}

pub const HEADER_WORDS: usize = 3;
pub const WORD: usize = 8;
pub const MAX_ROOTS: usize = 64;
const MUTATOR_TLS_VALUE: usize = 0x1000;

struct Globals {
    mmtk: &'static MMTK<MiniVM>,
    mutator: *mut Mutator<MiniVM>,
    /// The root table. Each entry is either 0 or an object reference. Entries are reported to
    /// MMTk as root slots, so a moving GC updates them in place.
    roots: *mut [usize; MAX_ROOTS],
}
unsafe impl Sync for Globals {}
unsafe impl Send for Globals {}

static GLOBALS: OnceLock<Globals> = OnceLock::new();
static GC_DONE: (Mutex<bool>, Condvar) = (Mutex::new(false), Condvar::new());
pub static GC_COUNT: AtomicUsize = AtomicUsize::new(0);
static NEXT_WORKER_TLS: AtomicUsize = AtomicUsize::new(0x2000);

fn globals() -> &'static Globals {
    GLOBALS.get().expect("MiniVM is not initialised")
}

pub fn mutator_tls() -> VMMutatorThread {
    VMMutatorThread(VMThread(OpaquePointer::from_address(unsafe {
        Address::from_usize(MUTATOR_TLS_VALUE)
    })))
}

/// Create the MMTk instance, spawn GC workers and bind the single mutator.
pub fn init<F: FnOnce(&mut MMTKBuilder)>(configure: F) -> &'static MMTK<MiniVM> {
    let mut builder = MMTKBuilder::new();
    configure(&mut builder);
    let mmtk: &'static MMTK<MiniVM> = Box::leak(memory_manager::mmtk_init::<MiniVM>(&builder));
    let roots = Box::leak(Box::new([0usize; MAX_ROOTS])) as *mut _;
    // The mutator needs GLOBALS.mmtk only lazily, so bind first with a placeholder-free order:
    let mutator = Box::leak(memory_manager::bind_mutator(mmtk, mutator_tls())) as *mut _;
    GLOBALS
        .set(Globals {
            mmtk,
            mutator,
            roots,
        })
        .ok()
        .expect("MiniVM initialised twice");
    memory_manager::initialize_collection(mmtk, VMThread::UNINITIALIZED);
    mmtk
}

pub fn mmtk() -> &'static MMTK<MiniVM> {
    globals().mmtk
}

#[allow(clippy::mut_from_ref)]
pub fn mutator() -> &'static mut Mutator<MiniVM> {
    unsafe { &mut *globals().mutator }
}

pub fn set_root(index: usize, object: Option<ObjectReference>) {
    unsafe {
        (*globals().roots)[index] = object.map_or(0, |o| o.to_raw_address().as_usize());
    }
}

pub fn get_root(index: usize) -> Option<ObjectReference> {
    let v = unsafe { (*globals().roots)[index] };
    ObjectReference::from_raw_address(unsafe { Address::from_usize(v) })
}

pub fn object_size(nfields: usize) -> usize {
    (HEADER_WORDS + nfields) * WORD
}

/// Allocate and initialise an object with `nfields` (null) reference fields and the given tag.
pub fn alloc(nfields: usize, tag: usize, semantics: AllocationSemantics) -> ObjectReference {
    let size = object_size(nfields);
    let addr = memory_manager::alloc(mutator(), size, WORD, 0, semantics);
    assert!(!addr.is_zero());
    unsafe {
        addr.store::<usize>(0);
        (addr + WORD).store::<usize>(nfields);
        (addr + 2 * WORD).store::<usize>(tag);
        for i in 0..nfields {
            (addr + (HEADER_WORDS + i) * WORD).store::<usize>(0);
        }
    }
    let object = ObjectReference::from_raw_address(addr).unwrap();
    memory_manager::post_alloc(mutator(), object, size, semantics);
    object
}

pub fn nfields(object: ObjectReference) -> usize {
    unsafe { (object.to_raw_address() + WORD).load::<usize>() }
}

pub fn tag(object: ObjectReference) -> usize {
    unsafe { (object.to_raw_address() + 2 * WORD).load::<usize>() }
}

pub fn field_slot(object: ObjectReference, i: usize) -> SimpleSlot {
    SimpleSlot::from_address(object.to_raw_address() + (HEADER_WORDS + i) * WORD)
}

pub fn get_field(object: ObjectReference, i: usize) -> Option<ObjectReference> {
    use crate::vm::slot::Slot;
    field_slot(object, i).load()
}

/// Store a reference into a field, going through the plan's write barrier.
pub fn set_field(object: ObjectReference, i: usize, target: ObjectReference) {
    memory_manager::object_reference_write(mutator(), object, field_slot(object, i), target);
}

/// Trigger a collection through the public API and block until it finishes. Returns the number
/// of collections that have completed so far.
pub fn gc() -> usize {
    let before = GC_COUNT.load(Ordering::SeqCst);
    memory_manager::handle_user_collection_request(mmtk(), mutator_tls());
    let after = GC_COUNT.load(Ordering::SeqCst);
    assert!(after > before, "the collection did not run");
    after
}

impl Collection<MiniVM> for MiniVM {
    fn stop_all_mutators<F>(_tls: VMWorkerThread, mut mutator_visitor: F)
    where
        F: FnMut(&'static mut Mutator<MiniVM>),
    {
        // The only mutator is the test thread. It requested this GC and is (about to be) parked
        // in `block_for_gc`; it does not touch the heap until `resume_mutators`.
        mutator_visitor(mutator());
    }

    fn resume_mutators(_tls: VMWorkerThread) {
        GC_COUNT.fetch_add(1, Ordering::SeqCst);
        let (lock, cv) = &GC_DONE;
        *lock.lock().unwrap() = true;
        cv.notify_all();
    }

    fn block_for_gc(_tls: VMMutatorThread) {
        let (lock, cv) = &GC_DONE;
        let mut done = lock.lock().unwrap();
        while !*done {
            done = cv.wait(done).unwrap();
        }
        *done = false;
    }

    fn spawn_gc_thread(_tls: VMThread, ctx: GCThreadContext<MiniVM>) {
        let GCThreadContext::Worker(worker) = ctx;
        let tls_value = NEXT_WORKER_TLS.fetch_add(0x10, Ordering::SeqCst);
        std::thread::spawn(move || {
            let tls = VMWorkerThread(VMThread(OpaquePointer::from_address(unsafe {
                Address::from_usize(tls_value)
            })));
            // `initialize_collection` is called right after GLOBALS is set, so this is safe.
            memory_manager::start_worker(mmtk(), tls, worker);
        });
    }
}

impl ActivePlan<MiniVM> for MiniVM {
    fn is_mutator(tls: VMThread) -> bool {
        tls.0.to_address().as_usize() == MUTATOR_TLS_VALUE
    }

    fn mutator(_tls: VMMutatorThread) -> &'static mut Mutator<MiniVM> {
        mutator()
    }

    fn mutators<'a>() -> Box<dyn Iterator<Item = &'a mut Mutator<MiniVM>> + 'a> {
        Box::new(std::iter::once(mutator()))
    }

    fn number_of_mutators() -> usize {
        1
    }
}

impl Scanning<MiniVM> for MiniVM {
    fn scan_object<SV: SlotVisitor<SimpleSlot>>(
        _tls: VMWorkerThread,
        object: ObjectReference,
        slot_visitor: &mut SV,
    ) {
        for i in 0..nfields(object) {
            slot_visitor.visit_slot(field_slot(object, i));
        }
    }

    fn notify_initial_thread_scan_complete(_partial_scan: bool, _tls: VMWorkerThread) {}

    fn scan_roots_in_mutator_thread(
        _tls: VMWorkerThread,
        _mutator: &'static mut Mutator<MiniVM>,
        mut factory: impl RootsWorkFactory<SimpleSlot>,
    ) {
        let base = Address::from_mut_ptr(globals().roots as *mut usize);
        let slots: Vec<SimpleSlot> = (0..MAX_ROOTS)
            .map(|i| SimpleSlot::from_address(base + i * WORD))
            .collect();
        factory.create_process_roots_work(slots);
    }

    fn scan_vm_specific_roots(_tls: VMWorkerThread, _factory: impl RootsWorkFactory<SimpleSlot>) {}

    fn supports_return_barrier() -> bool {
        false
    }

    fn prepare_for_roots_re_scanning() {}
}

impl ObjectModel<MiniVM> for MiniVM {
    const GLOBAL_LOG_BIT_SPEC: VMGlobalLogBitSpec = VMGlobalLogBitSpec::side_first();
    const LOCAL_FORWARDING_POINTER_SPEC: VMLocalForwardingPointerSpec =
        VMLocalForwardingPointerSpec::in_header(0);
    const LOCAL_FORWARDING_BITS_SPEC: VMLocalForwardingBitsSpec =
        VMLocalForwardingBitsSpec::side_first();
    const LOCAL_MARK_BIT_SPEC: VMLocalMarkBitSpec =
        VMLocalMarkBitSpec::side_after(Self::LOCAL_FORWARDING_BITS_SPEC.as_spec());
    const LOCAL_LOS_MARK_NURSERY_SPEC: VMLocalLOSMarkNurserySpec =
        VMLocalLOSMarkNurserySpec::side_after(Self::LOCAL_MARK_BIT_SPEC.as_spec());
    #[cfg(feature = "object_pinning")]
    const LOCAL_PINNING_BIT_SPEC: VMLocalPinningBitSpec =
        VMLocalPinningBitSpec::side_after(Self::LOCAL_LOS_MARK_NURSERY_SPEC.as_spec());

    const OBJECT_REF_OFFSET_LOWER_BOUND: isize = 0;

    fn copy(
        from: ObjectReference,
        semantics: CopySemantics,
        copy_context: &mut GCWorkerCopyContext<MiniVM>,
    ) -> ObjectReference {
        let bytes = Self::get_current_size(from);
        let dst = copy_context.alloc_copy(from, bytes, WORD, 0, semantics);
        assert!(!dst.is_zero());
        unsafe {
            std::ptr::copy_nonoverlapping::<u8>(
                from.to_raw_address().to_ptr(),
                dst.to_mut_ptr(),
                bytes,
            );
            // Do not carry a stale forwarding word into the new copy.
            dst.store::<usize>(0);
        }
        let to = ObjectReference::from_raw_address(dst).unwrap();
        copy_context.post_copy(to, bytes, semantics);
        to
    }

    fn copy_to(_from: ObjectReference, _to: ObjectReference, _region: Address) -> Address {
        unimplemented!()
    }

    fn get_reference_when_copied_to(_from: ObjectReference, to: Address) -> ObjectReference {
        ObjectReference::from_raw_address(to).unwrap()
    }

    fn get_current_size(object: ObjectReference) -> usize {
        object_size(nfields(object))
    }

    fn get_size_when_copied(object: ObjectReference) -> usize {
        Self::get_current_size(object)
    }

    fn get_align_when_copied(_object: ObjectReference) -> usize {
        WORD
    }

    fn get_align_offset_when_copied(_object: ObjectReference) -> usize {
        0
    }

    fn get_type_descriptor(_reference: ObjectReference) -> &'static [i8] {
        unreachable!()
    }

    fn ref_to_object_start(object: ObjectReference) -> Address {
        object.to_raw_address()
    }

    fn ref_to_header(object: ObjectReference) -> Address {
        object.to_raw_address()
    }

    fn dump_object(object: ObjectReference) {
        println!("MiniVM object {} tag={}", object, tag(object));
    }
}

impl ReferenceGlue<MiniVM> for MiniVM {
    type FinalizableType = ObjectReference;

    fn clear_referent(_new_reference: ObjectReference) {
        unimplemented!()
    }
    fn get_referent(_object: ObjectReference) -> Option<ObjectReference> {
        unimplemented!()
    }
    fn set_referent(_reff: ObjectReference, _referent: ObjectReference) {
        unimplemented!()
    }
    fn enqueue_references(_references: &[ObjectReference], _tls: VMWorkerThread) {
        unimplemented!()
    }
}
