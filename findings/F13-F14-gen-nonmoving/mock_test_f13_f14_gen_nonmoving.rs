//! F13 / F14 demonstrations (properties C01, C04, C05): the non-moving space of the generational plans.
//!
//! Install: copy this file and f13_minivm.rs into src/vm/tests/mock_tests/ and append
//!     mod f13_minivm;
//!     mod mock_test_f13_f14_gen_nonmoving;
//! to src/vm/tests/mock_tests/mod.rs.  Each test needs its own process (one MMTk instance per process):
//!     F13_PLAN=GenImmix cargo test --offline --features mock_test f13_nonmoving_objects_survive_nursery_gc -- --test-threads=1
//!     F13_PLAN=GenImmix cargo test --offline --features mock_test f14_young_referent_of_nonmoving_object_survives -- --test-threads=1
//! (F13_PLAN = GenImmix | GenCopy; add `--features mock_test,marksweep_as_nonmoving` for the mark-sweep non-moving space.)
//!
//! Before the fixes both tests fail for GenImmix and GenCopy; after F13's fix the first passes and the
//! second still fails; after F14's fix both pass.

use super::f13_minivm as vm;
use crate::util::options::{GCTriggerSelector, PlanSelector};
use crate::util::ObjectReference;
use crate::AllocationSemantics;

fn init() -> &'static crate::MMTK<vm::MiniVM> {
    let plan = match std::env::var("F13_PLAN").as_deref() {
        Ok("GenCopy") => PlanSelector::GenCopy,
        _ => PlanSelector::GenImmix,
    };
    vm::init(|b| {
        b.options.plan.set(plan);
        b.options
            .gc_trigger
            .set(GCTriggerSelector::FixedHeapSize(64 * 1024 * 1024));
        b.options.threads.set(1);
    })
}

fn assert_nursery_gc(mmtk: &'static crate::MMTK<vm::MiniVM>) {
    assert!(
        !mmtk
            .get_plan()
            .generational()
            .unwrap()
            .last_collection_full_heap(),
        "expected a nursery collection"
    );
}

/// F13: a reachable NonMoving object allocated since the last full-heap GC must survive a nursery GC.
#[test]
pub fn f13_nonmoving_objects_survive_nursery_gc() {
    const N: usize = 200;
    let mmtk = init();
    let mut objects: Vec<ObjectReference> = vec![];
    for i in 0..N {
        let o = vm::alloc(1, 0x5EED_0000 + i, AllocationSemantics::NonMoving);
        if let Some(prev) = objects.last() {
            vm::set_field(*prev, 0, o);
        }
        objects.push(o);
    }
    vm::set_root(0, Some(objects[0]));
    vm::gc();
    assert_nursery_gc(mmtk);
    let mut fresh: Vec<ObjectReference> = vec![];
    for i in 0..N {
        fresh.push(vm::alloc(1, 0xF4E5_0000 + i, AllocationSemantics::NonMoving));
    }
    let mut cursor = vm::get_root(0);
    for (i, o) in objects.iter().enumerate() {
        assert_eq!(cursor, Some(*o), "non-moving object #{} changed address", i);
        assert!(
            !fresh.contains(o),
            "reachable non-moving object #{} ({}) was reclaimed by the nursery GC and its storage handed out again",
            i,
            o
        );
        assert_eq!(vm::tag(*o), 0x5EED_0000 + i, "reachable non-moving object #{} was overwritten", i);
        cursor = vm::get_field(*o, 0);
    }
}

/// F14: a young object referenced only from a NonMoving object (stored through the write barrier)
/// must survive a nursery GC and the field must be updated to its new address.
#[test]
pub fn f14_young_referent_of_nonmoving_object_survives() {
    let mmtk = init();
    let holder = vm::alloc(1, 0xA0A0, AllocationSemantics::NonMoving);
    vm::set_root(0, Some(holder));
    let young = vm::alloc(0, 0xB0B0, AllocationSemantics::Default);
    vm::set_field(holder, 0, young);
    vm::gc();
    assert_nursery_gc(mmtk);
    // Overwrite whatever the nursery released.
    for i in 0..50_000 {
        vm::alloc(0, 0xDEAD_0000 + (i & 0xFFFF), AllocationSemantics::Default);
    }
    assert_eq!(vm::get_root(0), Some(holder));
    assert_eq!(vm::tag(holder), 0xA0A0, "the non-moving holder was overwritten");
    let referent = vm::get_field(holder, 0).expect("field lost");
    assert_ne!(referent, young, "the nursery object was not evacuated (or the field was not updated)");
    assert_eq!(
        vm::tag(referent),
        0xB0B0,
        "the young object referenced only from a non-moving object did not survive the nursery GC"
    );
}
