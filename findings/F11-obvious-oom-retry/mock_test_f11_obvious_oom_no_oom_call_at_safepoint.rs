// Demonstration for the defect fixed by "fix: an obviously-too-large allocation with allow_oom_call = false must
// not retry forever".  Same as mock_test_allocate_no_gc_oom_on_acquire_no_oom_call but at a safepoint (the default).
// Before the fix this test never returns (run it under `timeout`); after the fix it returns null.
use super::mock_test_prelude::*;

use crate::util::alloc::allocator::AllocationOptions;
use crate::AllocationSemantics;

#[test]
pub fn f11_obvious_oom_no_oom_call_at_safepoint() {
    with_mockvm(
        default_setup,
        || {
            const KB: usize = 1024;
            let mut fixture = MutatorFixture::create_with_heapsize(KB);
            let addr = memory_manager::alloc_with_options(
                &mut fixture.mutator,
                1024 * 10,
                8,
                0,
                AllocationSemantics::Default,
                AllocationOptions {
                    allow_oom_call: false,
                    ..Default::default()
                },
            );
            assert!(addr.is_zero());
            read_mockvm(|mock| {
                assert!(!mock.out_of_memory.is_called());
            });
        },
        no_cleanup,
    )
}
