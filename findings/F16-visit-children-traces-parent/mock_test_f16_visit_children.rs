//! F16 demonstration (properties C12, C01): `scanning_helper::visit_children`, node-enqueuing branch.
//!
//! Install: copy into src/vm/tests/mock_tests/ and append `mod mock_test_f16_visit_children;` to mod.rs.
//! Run:     cargo test --offline --features mock_test mock_test_f16 -- --test-threads=1
//! A focused unit test (no MMTk instance needed): the binding says the object does not support slot
//! enqueuing and reports one child edge to the tracer it is given.  The helper must trace THAT CHILD and
//! hand the tracer's answer back as the new value of the edge.
//! Before the fix the helper traces the parent again (debug builds stop at the helper's own
//! debug_assert_eq!(new_child, child); release builds store the parent into the child's field).

use super::mock_test_prelude::*;
use crate::util::scanning_helper;
use crate::util::{Address, ObjectReference, VMWorkerThread, VMThread};
use crate::vm::ObjectTracer;

#[test]
pub fn visit_children_traces_the_child_in_the_node_enqueuing_branch() {
    let parent = ObjectReference::from_raw_address(unsafe { Address::from_usize(0x10_0000) }).unwrap();
    let child = ObjectReference::from_raw_address(unsafe { Address::from_usize(0x20_0000) }).unwrap();
    with_mockvm(
        move || MockVM {
            support_slot_enqueuing: MockMethod::new_fixed(Box::new(|_| false)),
            scan_object_and_trace_edges: MockMethod::new_fixed(Box::new(
                move |(_tls, object, tracer): (VMWorkerThread, ObjectReference, &'static mut dyn ObjectTracer)| {
                    assert_eq!(object, parent);
                    // the binding visits its one reference field
                    let new_value = tracer.trace_object(child);
                    assert_eq!(new_value, child, "the edge must keep pointing at the (unmoved) child");
                },
            )),
            ..MockVM::default()
        },
        move || {
            let tls = VMWorkerThread(VMThread::UNINITIALIZED);
            let mut traced: Vec<ObjectReference> = vec![];
            scanning_helper::visit_children_non_moving::<MockVM>(tls, parent, &mut |o: ObjectReference| {
                traced.push(o);
                o
            });
            assert_eq!(traced, vec![child], "visit_children must trace the child it was given");
        },
        no_cleanup,
    )
}
