//! mmtk-facts-driver: a rustc_private driver that dumps rule-agnostic facts
//! (MIR bodies with resolved callees, type tables, impl tables, evaluated
//! constants) of selected crates as one JSON file per crate.
//!
//! Used as RUSTC_WORKSPACE_WRAPPER:  driver <rustc> <args...>
//! Env: FACTS_OUT=<dir>  FACTS_CRATES=<comma separated crate names> FACTS_TAG=<string>
//! The driver never executes code of the analysed crate; it records what rustc
//! computed while type-checking it.
#![feature(rustc_private)]
#![allow(clippy::all)]

extern crate rustc_abi;
extern crate rustc_driver;
extern crate rustc_hir;
extern crate rustc_interface;
extern crate rustc_middle;
extern crate rustc_session;
extern crate rustc_span;

use rustc_abi::{FieldIdx, Size, TagEncoding, VariantIdx, Variants};
use rustc_driver::{Callbacks, Compilation};
use rustc_hir::def::DefKind;
use rustc_hir::def_id::{DefId, LocalDefId};
use rustc_hir::definitions::DefPathData;
use rustc_interface::interface::Compiler;
use rustc_middle::mir::{
    self, AggregateKind, BasicBlock, Body, Const, ConstValue, Operand, Place, PlaceElem, Rvalue,
    StatementKind, TerminatorKind, VarDebugInfoContents,
};
use rustc_middle::ty::layout::{LayoutCx, TyAndLayout};
use rustc_middle::ty::print::with_no_trimmed_paths;
use rustc_middle::ty::{self, GenericArgsRef, Instance, Ty, TyCtxt, TypeVisitableExt, TypingEnv};
use rustc_span::Span;
use std::collections::HashMap;
use std::fmt::Write as _;

// ---------------------------------------------------------------- JSON
enum J {
    Null,
    Bool(bool),
    Int(i128),
    Str(String),
    Arr(Vec<J>),
    Obj(Vec<(&'static str, J)>),
    Map(Vec<(String, J)>),
}
fn s<T: Into<String>>(x: T) -> J {
    J::Str(x.into())
}
fn esc(out: &mut String, x: &str) {
    out.push('"');
    for c in x.chars() {
        match c {
            '"' => out.push_str("\\\""),
            '\\' => out.push_str("\\\\"),
            '\n' => out.push_str("\\n"),
            '\r' => out.push_str("\\r"),
            '\t' => out.push_str("\\t"),
            c if (c as u32) < 0x20 => {
                let _ = write!(out, "\\u{:04x}", c as u32);
            }
            c => out.push(c),
        }
    }
    out.push('"');
}
impl J {
    fn write(&self, out: &mut String) {
        match self {
            J::Null => out.push_str("null"),
            J::Bool(b) => out.push_str(if *b { "true" } else { "false" }),
            J::Int(i) => {
                // JSON numbers beyond 2^53 lose precision in some readers; Python is exact.
                let _ = write!(out, "{}", i);
            }
            J::Str(x) => esc(out, x),
            J::Arr(v) => {
                out.push('[');
                for (i, x) in v.iter().enumerate() {
                    if i > 0 {
                        out.push(',');
                    }
                    x.write(out);
                }
                out.push(']');
            }
            J::Obj(v) => {
                out.push('{');
                for (i, (k, x)) in v.iter().enumerate() {
                    if i > 0 {
                        out.push(',');
                    }
                    esc(out, k);
                    out.push(':');
                    x.write(out);
                }
                out.push('}');
            }
            J::Map(v) => {
                out.push('{');
                for (i, (k, x)) in v.iter().enumerate() {
                    if i > 0 {
                        out.push(',');
                    }
                    esc(out, k);
                    out.push(':');
                    x.write(out);
                }
                out.push('}');
            }
        }
    }
}

// ---------------------------------------------------------------- context
struct Cx<'tcx> {
    tcx: TyCtxt<'tcx>,
    qcache: HashMap<DefId, String>,
}

impl<'tcx> Cx<'tcx> {
    fn ty_str(&self, t: Ty<'tcx>) -> String {
        with_no_trimmed_paths!(t.to_string())
    }
    fn path_str(&self, d: DefId) -> String {
        with_no_trimmed_paths!(self.tcx.def_path_str(d))
    }
    fn loc(&self, sp: Span) -> (String, usize, bool) {
        let sm = self.tcx.sess.source_map();
        let exp = sp.from_expansion();
        let sp = sp.source_callsite();
        let lo = sm.lookup_char_pos(sp.lo());
        let name = match &lo.file.name {
            rustc_span::FileName::Real(r) => match r.local_path() {
                Some(p) => p.to_string_lossy().to_string(),
                None => format!("{:?}", r),
            },
            other => format!("{:?}", other),
        };
        (name, lo.line, exp)
    }
    fn loc_j(&self, sp: Span) -> J {
        let (f, l, e) = self.loc(sp);
        J::Arr(vec![s(f), J::Int(l as i128), J::Bool(e)])
    }

    /// Generic-free qualified name. Impl items: `<SelfAdt as Trait>::name` / `SelfAdt::name`.
    fn qname(&mut self, d: DefId) -> String {
        if let Some(x) = self.qcache.get(&d) {
            return x.clone();
        }
        let tcx = self.tcx;
        let key = tcx.def_key(d);
        let r = match key.disambiguated_data.data {
            DefPathData::Closure => {
                let p = tcx.parent(d);
                format!("{}::{{closure#{}}}", self.qname(p), key.disambiguated_data.disambiguator)
            }
            DefPathData::AnonConst => {
                let p = tcx.parent(d);
                format!("{}::{{const#{}}}", self.qname(p), key.disambiguated_data.disambiguator)
            }
            _ => {
                let parent = key.parent.map(|i| DefId { krate: d.krate, index: i });
                match parent {
                    Some(p) if matches!(tcx.def_kind(p), DefKind::Impl { .. }) => {
                        let name = tcx.opt_item_name(d).map(|x| x.to_string()).unwrap_or_else(|| "?".into());
                        format!("{}::{}", self.impl_head(p), name)
                    }
                    Some(p)
                        if matches!(
                            tcx.def_kind(p),
                            DefKind::Fn | DefKind::AssocFn | DefKind::Closure | DefKind::Const { .. } | DefKind::AssocConst { .. } | DefKind::Static { .. }
                        ) =>
                    {
                        // item nested in a function body
                        let name = tcx.opt_item_name(d).map(|x| x.to_string()).unwrap_or_else(|| format!("{:?}", key.disambiguated_data.data));
                        format!("{}::{}", self.qname(p), name)
                    }
                    _ => {
                        if matches!(tcx.def_kind(d), DefKind::Impl { .. }) {
                            self.impl_head(d)
                        } else {
                            self.path_str(d)
                        }
                    }
                }
            }
        };
        self.qcache.insert(d, r.clone());
        r
    }

    fn self_head(&self, t: Ty<'tcx>) -> String {
        match t.kind() {
            ty::Adt(def, _) => self.path_str(def.did()),
            ty::Ref(_, inner, m) => format!("&{}{}", if m.is_mut() { "mut " } else { "" }, self.self_head(*inner)),
            ty::Dynamic(..) | ty::Param(_) | ty::Foreign(_) => self.ty_str(t),
            _ => self.ty_str(t),
        }
    }

    fn impl_head(&mut self, impl_id: DefId) -> String {
        let tcx = self.tcx;
        let self_ty = tcx.type_of(impl_id).instantiate_identity().skip_norm_wip();
        let sh = self.self_head(self_ty);
        if tcx.impl_opt_trait_ref(impl_id).is_some() {
            let tr = tcx.impl_trait_ref(impl_id).instantiate_identity().skip_norm_wip();
            // keep trait generic args other than Self when they are not plain params (e.g. From<u8>)
            let mut targs = vec![];
            for a in tr.args.iter().skip(1) {
                if let Some(t) = a.as_type() {
                    if !t.has_non_region_param() {
                        targs.push(self.self_head(t));
                    }
                }
            }
            let tp = self.path_str(tr.def_id);
            if targs.is_empty() {
                format!("<{} as {}>", sh, tp)
            } else {
                format!("<{} as {}<{}>>", sh, tp, targs.join(","))
            }
        } else {
            sh
        }
    }

    // ------------------------------------------------------------ places/operands
    fn place(&mut self, body: &Body<'tcx>, p: &Place<'tcx>) -> J {
        let tcx = self.tcx;
        let mut v = vec![J::Int(p.local.as_usize() as i128)];
        let mut pty = mir::PlaceTy::from_ty(body.local_decls[p.local].ty);
        for elem in p.projection.iter() {
            let e = match elem {
                PlaceElem::Deref => s("*"),
                PlaceElem::Field(f, _) => {
                    let name = match pty.ty.kind() {
                        ty::Adt(def, _) => {
                            let vi = pty.variant_index.unwrap_or(VariantIdx::from_u32(0));
                            if def.is_enum() && pty.variant_index.is_none() {
                                format!("{}", f.as_usize())
                            } else {
                                def.variant(vi).fields[f].name.to_string()
                            }
                        }
                        _ => format!("{}", f.as_usize()),
                    };
                    s(format!(".{}", name))
                }
                PlaceElem::Downcast(name, vi) => {
                    let n = match pty.ty.kind() {
                        ty::Adt(def, _) => def.variant(vi).name.to_string(),
                        _ => name.map(|x| x.to_string()).unwrap_or_else(|| format!("{}", vi.as_usize())),
                    };
                    s(format!("@{}", n))
                }
                PlaceElem::Index(l) => s(format!("[_{}]", l.as_usize())),
                PlaceElem::ConstantIndex { offset, from_end, .. } => s(format!("[{}{}]", if from_end { "-" } else { "" }, offset)),
                PlaceElem::Subslice { from, to, from_end } => s(format!("[{}..{}{}]", from, if from_end { "-" } else { "" }, to)),
                PlaceElem::OpaqueCast(_) => s("opaque"),
                PlaceElem::UnwrapUnsafeBinder(_) => s("unwrap_binder"),
            };
            v.push(e);
            pty = pty.projection_ty(tcx, elem);
        }
        J::Arr(v)
    }

    fn generic_args(&self, args: GenericArgsRef<'tcx>) -> J {
        J::Arr(
            args.iter()
                .filter_map(|a| {
                    if let Some(t) = a.as_type() {
                        Some(s(self.ty_str(t)))
                    } else if let Some(c) = a.as_const() {
                        Some(s(with_no_trimmed_paths!(c.to_string())))
                    } else {
                        None
                    }
                })
                .collect(),
        )
    }

    fn fn_ref(&mut self, owner: LocalDefId, d: DefId, args: GenericArgsRef<'tcx>) -> J {
        let tcx = self.tcx;
        let mut o: Vec<(&'static str, J)> = vec![("q", s(self.qname(d))), ("ga", self.generic_args(args))];
        if !d.is_local() {
            o.push(("ext", J::Bool(true)));
        }
        if let Some(tr) = tcx.trait_of_assoc(d) {
            o.push(("trait", s(self.path_str(tr))));
            if args.len() > 0 {
                if let Some(t) = args[0].as_type() {
                    o.push(("recv", s(self.ty_str(t))));
                    o.push(("recv_head", s(self.self_head(t))));
                }
            }
            let env = TypingEnv::post_analysis(tcx, owner.to_def_id());
            if let Ok(Some(inst)) = Instance::try_resolve(tcx, env, d, args) {
                let rd = inst.def_id();
                if rd != d {
                    o.push(("res", s(self.qname(rd))));
                }
            }
        } else if let Some(imp) = tcx.impl_of_assoc(d) {
            let _ = imp;
        }
        J::Obj(o)
    }

    fn scalar_int(&self, si: ty::ScalarInt, t: Ty<'tcx>) -> J {
        let bits = si.to_bits_unchecked();
        match t.kind() {
            ty::Bool => J::Bool(bits != 0),
            ty::Int(_) => {
                let size = si.size();
                J::Int(size.sign_extend(bits) as i128)
            }
            _ => {
                if bits > i128::MAX as u128 {
                    s(format!("{}", bits))
                } else {
                    J::Int(bits as i128)
                }
            }
        }
    }

    fn constant(&mut self, owner: LocalDefId, c: &Const<'tcx>) -> J {
        let tcx = self.tcx;
        let t = c.ty();
        let tys = self.ty_str(t);
        if let ty::FnDef(d, args) = t.kind() {
            return J::Obj(vec![("fn", self.fn_ref(owner, *d, args))]);
        }
        // `&fn_item` (a promoted reference to a zero-sized fn item, e.g. `prepare_func: &f`)
        if let ty::FnDef(d, args) = t.peel_refs().kind() {
            return J::Obj(vec![("fn", self.fn_ref(owner, *d, args)), ("byref", J::Bool(true))]);
        }
        let mut o: Vec<(&'static str, J)> = vec![("ty", s(tys))];
        match c {
            Const::Unevaluated(u, _) => {
                o.push(("item", s(self.qname(u.def))));
                if u.promoted.is_some() {
                    o.push(("promoted", J::Int(u.promoted.unwrap().as_usize() as i128)));
                }
            }
            Const::Ty(_, ct) => {
                o.push(("tyconst", s(with_no_trimmed_paths!(ct.to_string()))));
            }
            Const::Val(..) => {}
        }
        let env = TypingEnv::post_analysis(tcx, owner.to_def_id());
        if let Some(si) = c.try_eval_scalar_int(tcx, env) {
            o.push(("v", self.scalar_int(si, t)));
            if let ty::Adt(def, _) = t.kind() {
                if def.is_enum() {
                    let bits = si.to_bits_unchecked();
                    for (vi, d) in def.discriminants(tcx) {
                        if d.val == bits {
                            o.push(("variant", s(def.variant(vi).name.to_string())));
                        }
                    }
                }
            }
        } else if let Const::Val(ConstValue::Slice { .. }, _) = c {
            if let Some(st) = self.try_str(c, owner) {
                o.push(("str", s(st)));
            }
        } else if let Const::Val(ConstValue::ZeroSized, _) = c {
            o.push(("zst", J::Bool(true)));
        }
        J::Obj(o)
    }

    fn try_str(&self, c: &Const<'tcx>, _owner: LocalDefId) -> Option<String> {
        if let Const::Val(cv, t) = c {
            if let ty::Ref(_, inner, _) = t.kind() {
                if inner.is_str() {
                    if let Some(bytes) = cv.try_get_slice_bytes_for_diagnostics(self.tcx) {
                        return Some(String::from_utf8_lossy(bytes).to_string());
                    }
                }
            }
        }
        None
    }

    fn operand(&mut self, owner: LocalDefId, body: &Body<'tcx>, op: &Operand<'tcx>) -> J {
        match op {
            Operand::Copy(p) => J::Arr(vec![s("c"), self.place(body, p)]),
            Operand::Move(p) => J::Arr(vec![s("m"), self.place(body, p)]),
            Operand::Constant(c) => J::Arr(vec![s("k"), self.constant(owner, &c.const_)]),
            #[allow(unreachable_patterns)]
            _ => J::Arr(vec![s("?"), s(format!("{:?}", op))]),
        }
    }

    fn rvalue(&mut self, owner: LocalDefId, body: &Body<'tcx>, rv: &Rvalue<'tcx>) -> J {
        match rv {
            Rvalue::Use(op, _) => J::Arr(vec![s("use"), self.operand(owner, body, op)]),
            Rvalue::Repeat(op, n) => J::Arr(vec![s("repeat"), self.operand(owner, body, op), s(with_no_trimmed_paths!(n.to_string()))]),
            Rvalue::Ref(_, bk, p) => {
                let k = match bk {
                    mir::BorrowKind::Shared => "shared",
                    mir::BorrowKind::Fake(_) => "fake",
                    mir::BorrowKind::Mut { .. } => "mut",
                };
                J::Arr(vec![s("ref"), s(k), self.place(body, p)])
            }
            Rvalue::ThreadLocalRef(d) => J::Arr(vec![s("tls"), s(self.qname(*d))]),
            Rvalue::RawPtr(k, p) => J::Arr(vec![s("rawptr"), s(format!("{:?}", k)), self.place(body, p)]),
            Rvalue::Cast(k, op, t) => J::Arr(vec![s("cast"), s(format!("{:?}", k)), self.operand(owner, body, op), s(self.ty_str(*t))]),
            Rvalue::BinaryOp(op, ab) => {
                let (a, b) = &**ab;
                J::Arr(vec![s("bin"), s(format!("{:?}", op)), self.operand(owner, body, a), self.operand(owner, body, b)])
            }
            Rvalue::UnaryOp(op, a) => J::Arr(vec![s("un"), s(format!("{:?}", op)), self.operand(owner, body, a)]),
            Rvalue::Discriminant(p) => J::Arr(vec![s("discr"), self.place(body, p)]),
            Rvalue::Aggregate(k, ops) => {
                let kind = match &**k {
                    AggregateKind::Array(t) => J::Obj(vec![("k", s("array")), ("ty", s(self.ty_str(*t)))]),
                    AggregateKind::Tuple => J::Obj(vec![("k", s("tuple"))]),
                    AggregateKind::Adt(d, vi, args, _, active) => {
                        let def = self.tcx.adt_def(*d);
                        let var = def.variant(*vi);
                        let mut names: Vec<J> = var.fields.iter().map(|f| s(f.name.to_string())).collect();
                        if let Some(a) = active {
                            names = vec![s(var.fields[*a].name.to_string())];
                        }
                        J::Obj(vec![
                            ("k", s("adt")),
                            ("adt", s(self.path_str(*d))),
                            ("variant", s(var.name.to_string())),
                            ("fields", J::Arr(names)),
                            ("ga", self.generic_args(args)),
                        ])
                    }
                    AggregateKind::Closure(d, args) => {
                        J::Obj(vec![("k", s("closure")), ("q", s(self.qname(*d))), ("ga", self.generic_args(args))])
                    }
                    AggregateKind::Coroutine(d, _) => J::Obj(vec![("k", s("coroutine")), ("q", s(self.qname(*d)))]),
                    AggregateKind::CoroutineClosure(d, _) => J::Obj(vec![("k", s("coroutine_closure")), ("q", s(self.qname(*d)))]),
                    AggregateKind::RawPtr(t, _) => J::Obj(vec![("k", s("rawptr")), ("ty", s(self.ty_str(*t)))]),
                };
                let opsj: Vec<J> = ops.iter().map(|o| self.operand(owner, body, o)).collect();
                J::Arr(vec![s("agg"), kind, J::Arr(opsj)])
            }
            Rvalue::CopyForDeref(p) => J::Arr(vec![s("use"), J::Arr(vec![s("c"), self.place(body, p)])]),
            Rvalue::WrapUnsafeBinder(op, _) => J::Arr(vec![s("use"), self.operand(owner, body, op)]),
            #[allow(unreachable_patterns)]
            _ => J::Arr(vec![s("other"), s(format!("{:?}", rv))]),
        }
    }

    fn body(&mut self, owner: LocalDefId, body: &Body<'tcx>) -> J {
        let tcx = self.tcx;
        let mut locals = vec![];
        let mut names: HashMap<usize, String> = HashMap::new();
        let mut vdi = vec![];
        for v in body.var_debug_info.iter() {
            match &v.value {
                VarDebugInfoContents::Place(p) => {
                    if let Some(l) = p.as_local() {
                        names.entry(l.as_usize()).or_insert_with(|| v.name.to_string());
                    }
                    vdi.push(J::Arr(vec![s(v.name.to_string()), self.place(body, p)]));
                }
                VarDebugInfoContents::Const(_) => {}
            }
        }
        for (l, d) in body.local_decls.iter_enumerated() {
            let mut o = vec![("ty", s(self.ty_str(d.ty)))];
            if let Some(n) = names.get(&l.as_usize()) {
                o.push(("name", s(n.clone())));
            }
            locals.push(J::Obj(o));
        }
        let mut blocks = vec![];
        for (_bb, data) in body.basic_blocks.iter_enumerated() {
            let mut stmts = vec![];
            for st in data.statements.iter() {
                let line = self.loc(st.source_info.span).1 as i128;
                match &st.kind {
                    StatementKind::Assign(b) => {
                        let (p, rv) = &**b;
                        stmts.push(J::Arr(vec![s("="), self.place(body, p), self.rvalue(owner, body, rv), J::Int(line)]));
                    }
                    StatementKind::SetDiscriminant { place, variant_index } => {
                        let pty = place.ty(&body.local_decls, tcx);
                        let vn = match pty.ty.kind() {
                            ty::Adt(def, _) => def.variant(*variant_index).name.to_string(),
                            _ => format!("{}", variant_index.as_usize()),
                        };
                        stmts.push(J::Arr(vec![s("setdiscr"), self.place(body, place), s(vn), J::Int(line)]));
                    }
                    StatementKind::Intrinsic(i) => {
                        stmts.push(J::Arr(vec![s("intrinsic"), s(format!("{:?}", i)), J::Int(line)]));
                    }
                    _ => {}
                }
            }
            let term = data.terminator();
            let tl = self.loc(term.source_info.span);
            let tline = tl.1 as i128;
            let texp = tl.2;
            let bbi = |b: BasicBlock| J::Int(b.as_usize() as i128);
            let unwind_j = |u: &mir::UnwindAction| match u {
                mir::UnwindAction::Cleanup(b) => J::Int(b.as_usize() as i128),
                _ => J::Null,
            };
            let t = match &term.kind {
                TerminatorKind::Goto { target } => J::Obj(vec![("k", s("goto")), ("t", bbi(*target))]),
                TerminatorKind::SwitchInt { discr, targets } => {
                    let mut arms = vec![];
                    for (v, b) in targets.iter() {
                        arms.push(J::Arr(vec![J::Int(v as i128), bbi(b)]));
                    }
                    J::Obj(vec![
                        ("k", s("switch")),
                        ("d", self.operand(owner, body, discr)),
                        ("arms", J::Arr(arms)),
                        ("else", bbi(targets.otherwise())),
                        ("line", J::Int(tline)),
                    ])
                }
                TerminatorKind::Return => J::Obj(vec![("k", s("ret"))]),
                TerminatorKind::Unreachable => J::Obj(vec![("k", s("unreachable"))]),
                TerminatorKind::UnwindResume => J::Obj(vec![("k", s("resume"))]),
                TerminatorKind::UnwindTerminate(_) => J::Obj(vec![("k", s("terminate"))]),
                TerminatorKind::Drop { place, target, unwind, .. } => J::Obj(vec![
                    ("k", s("drop")),
                    ("p", self.place(body, place)),
                    ("t", bbi(*target)),
                    ("u", unwind_j(unwind)),
                ]),
                TerminatorKind::Call { func, args, destination, target, unwind, fn_span, .. } => {
                    let f = self.operand(owner, body, func);
                    let a: Vec<J> = args.iter().map(|x| self.operand(owner, body, &x.node)).collect();
                    let fty = func.ty(&body.local_decls, tcx);
                    let diverges = target.is_none();
                    let _ = fty;
                    J::Obj(vec![
                        ("k", s("call")),
                        ("f", f),
                        ("a", J::Arr(a)),
                        ("d", self.place(body, destination)),
                        ("t", target.map(bbi).unwrap_or(J::Null)),
                        ("u", unwind_j(unwind)),
                        ("line", J::Int(self.loc(*fn_span).1 as i128)),
                        ("exp", J::Bool(texp)),
                        ("div", J::Bool(diverges)),
                    ])
                }
                TerminatorKind::TailCall { func, args, .. } => {
                    let f = self.operand(owner, body, func);
                    let a: Vec<J> = args.iter().map(|x| self.operand(owner, body, &x.node)).collect();
                    J::Obj(vec![("k", s("tailcall")), ("f", f), ("a", J::Arr(a)), ("line", J::Int(tline))])
                }
                TerminatorKind::Assert { cond, expected, target, unwind, msg } => J::Obj(vec![
                    ("k", s("assert")),
                    ("c", self.operand(owner, body, cond)),
                    ("e", J::Bool(*expected)),
                    ("t", bbi(*target)),
                    ("u", unwind_j(unwind)),
                    ("msg", s(format!("{:?}", std::mem::discriminant(&**msg)))),
                    ("line", J::Int(tline)),
                ]),
                TerminatorKind::FalseEdge { real_target, .. } => J::Obj(vec![("k", s("goto")), ("t", bbi(*real_target))]),
                TerminatorKind::FalseUnwind { real_target, .. } => J::Obj(vec![("k", s("goto")), ("t", bbi(*real_target))]),
                TerminatorKind::InlineAsm { targets, .. } => {
                    J::Obj(vec![("k", s("asm")), ("ts", J::Arr(targets.iter().map(|b| bbi(*b)).collect())), ("line", J::Int(tline))])
                }
                other => J::Obj(vec![("k", s("other")), ("dbg", s(format!("{:?}", std::mem::discriminant(other))))]),
            };
            blocks.push(J::Obj(vec![("s", J::Arr(stmts)), ("t", t), ("cleanup", J::Bool(data.is_cleanup))]));
        }
        J::Obj(vec![
            ("argc", J::Int(body.arg_count as i128)),
            ("locals", J::Arr(locals)),
            ("vdi", J::Arr(vdi)),
            ("blocks", J::Arr(blocks)),
        ])
    }

    // ------------------------------------------------------------ const decoding
    fn read_uint(bytes: &[u8], off: usize, size: usize) -> Option<u128> {
        if off + size > bytes.len() || size > 16 {
            return None;
        }
        let mut v: u128 = 0;
        for i in (0..size).rev() {
            v = (v << 8) | bytes[off + i] as u128;
        }
        Some(v)
    }

    fn decode(&mut self, lcx: &LayoutCx<'tcx>, tl: TyAndLayout<'tcx>, bytes: &[u8], off: usize, depth: usize) -> J {
        let tcx = self.tcx;
        let t = tl.ty;
        let size = tl.size.bytes_usize();
        if depth > 6 {
            return s("<deep>");
        }
        match t.kind() {
            ty::Bool => Self::read_uint(bytes, off, 1).map(|v| J::Bool(v != 0)).unwrap_or(J::Null),
            ty::Uint(_) | ty::Char => match Self::read_uint(bytes, off, size) {
                Some(v) if v <= i128::MAX as u128 => J::Int(v as i128),
                Some(v) => s(format!("{}", v)),
                None => J::Null,
            },
            ty::Int(_) => match Self::read_uint(bytes, off, size) {
                Some(v) => J::Int(Size::from_bytes(size as u64).sign_extend(v) as i128),
                None => J::Null,
            },
            ty::Adt(def, _) if def.is_union() => {
                let raw = Self::read_uint(bytes, off, size);
                J::Obj(vec![("union", s(self.path_str(def.did()))), ("raw", raw.map(|v| J::Int(v as i128)).unwrap_or(J::Null))])
            }
            ty::Adt(def, _) if def.is_struct() => {
                let var = def.non_enum_variant();
                let mut o = vec![];
                for (i, f) in var.fields.iter_enumerated() {
                    let fl = tl.field(lcx, i.as_usize());
                    let fo = tl.fields.offset(i.as_usize()).bytes_usize();
                    o.push((f.name.to_string(), self.decode(lcx, fl, bytes, off + fo, depth + 1)));
                }
                o.push(("$struct".to_string(), s(self.path_str(def.did()))));
                J::Map(o)
            }
            ty::Adt(def, _) if def.is_enum() => {
                let vi: Option<VariantIdx> = match &tl.variants {
                    Variants::Single { index } => Some(*index),
                    Variants::Multiple { tag, tag_encoding: TagEncoding::Direct, tag_field, .. } => {
                        let to = tl.fields.offset(tag_field.as_usize()).bytes_usize();
                        let tsz = tag.size(lcx).bytes_usize();
                        let raw = Self::read_uint(bytes, off + to, tsz);
                        let mut found = None;
                        if let Some(raw) = raw {
                            for (vi, d) in def.discriminants(tcx) {
                                let mask = if tsz >= 16 { u128::MAX } else { (1u128 << (tsz * 8)) - 1 };
                                if d.val & mask == raw {
                                    found = Some(vi);
                                }
                            }
                        }
                        found
                    }
                    _ => None,
                };
                match vi {
                    Some(vi) => {
                        let var = def.variant(vi);
                        let vl = tl.for_variant(lcx, vi);
                        let mut o = vec![];
                        for (i, f) in var.fields.iter_enumerated() {
                            let fl = vl.field(lcx, i.as_usize());
                            let fo = vl.fields.offset(i.as_usize()).bytes_usize();
                            o.push((f.name.to_string(), self.decode(lcx, fl, bytes, off + fo, depth + 1)));
                        }
                        o.push(("$enum".to_string(), s(self.path_str(def.did()))));
                        o.push(("$variant".to_string(), s(var.name.to_string())));
                        J::Map(o)
                    }
                    None => J::Obj(vec![("enum", s(self.path_str(def.did()))), ("undecoded", J::Bool(true))]),
                }
            }
            ty::Tuple(ts) => {
                let mut v = vec![];
                for i in 0..ts.len() {
                    let fl = tl.field(lcx, i);
                    let fo = tl.fields.offset(i).bytes_usize();
                    v.push(self.decode(lcx, fl, bytes, off + fo, depth + 1));
                }
                J::Arr(v)
            }
            ty::Array(_, _) => {
                let n = match &tl.fields {
                    rustc_abi::FieldsShape::Array { count, .. } => *count as usize,
                    _ => 0,
                };
                if n > 4096 {
                    return s("<big array>");
                }
                let mut v = vec![];
                for i in 0..n {
                    let fl = tl.field(lcx, i);
                    let fo = tl.fields.offset(i).bytes_usize();
                    v.push(self.decode(lcx, fl, bytes, off + fo, depth + 1));
                }
                J::Arr(v)
            }
            _ => J::Obj(vec![("opaque", s(self.ty_str(t)))]),
        }
    }

    fn eval_const_item(&mut self, d: LocalDefId) -> Option<J> {
        let tcx = self.tcx;
        let did = d.to_def_id();
        if tcx.generics_of(did).requires_monomorphization(tcx) {
            return None;
        }
        let t = tcx.type_of(did).instantiate_identity().skip_norm_wip();
        if t.has_non_region_param() {
            return None;
        }
        let env = TypingEnv::fully_monomorphized();
        let cv = match tcx.const_eval_poly(did) {
            Ok(v) => v,
            Err(_) => return None,
        };
        let lcx = LayoutCx::new(tcx, env);
        let tl = match tcx.layout_of(env.as_query_input(t)) {
            Ok(l) => l,
            Err(_) => return None,
        };
        let size = tl.size.bytes_usize();
        if size > 1 << 16 {
            return Some(s("<large>"));
        }
        match cv {
            ConstValue::Scalar(mir::interpret::Scalar::Int(si)) => {
                let bits = si.to_bits_unchecked();
                let mut bytes = vec![0u8; 16];
                for i in 0..16 {
                    bytes[i] = ((bits >> (8 * i)) & 0xff) as u8;
                }
                Some(self.decode(&lcx, tl, &bytes, 0, 0))
            }
            ConstValue::Scalar(_) => Some(J::Obj(vec![("ptr", J::Bool(true))])),
            ConstValue::ZeroSized => Some(J::Obj(vec![("zst", s(self.ty_str(t)))])),
            ConstValue::Slice { .. } => {
                let c = Const::Val(cv, t);
                self.try_str(&c, d).map(s).or(Some(J::Obj(vec![("slice", J::Bool(true))])))
            }
            ConstValue::Indirect { alloc_id, offset } => {
                let ga = tcx.global_alloc(alloc_id);
                let alloc = match ga {
                    mir::interpret::GlobalAlloc::Memory(a) => a,
                    _ => return None,
                };
                let a = alloc.inner();
                let total = a.len();
                let bytes = a.inspect_with_uninit_and_ptr_outside_interpreter(0..total).to_vec();
                Some(self.decode(&lcx, tl, &bytes, offset.bytes_usize(), 0))
            }
        }
    }
}

// ---------------------------------------------------------------- main dump
fn dump<'tcx>(tcx: TyCtxt<'tcx>, out_dir: &str, tag: &str) {
    let mut cx = Cx { tcx, qcache: HashMap::new() };
    let crate_name = tcx.crate_name(rustc_hir::def_id::LOCAL_CRATE).to_string();
    let mut fns: Vec<(String, J)> = vec![];
    let mut used: HashMap<String, usize> = HashMap::new();
    let mut consts: Vec<(String, J)> = vec![];

    // pre-pass: assign collision-free names to every body owner before any reference is printed
    for owner in tcx.hir_body_owners() {
        let did = owner.to_def_id();
        let mut q = cx.qname(did);
        let n = used.entry(q.clone()).or_insert(0);
        *n += 1;
        if *n > 1 {
            q = format!("{}#{}", q, *n);
            cx.qcache.insert(did, q.clone());
        }
    }
    // closures/nested items computed their names from a parent; recompute them after renaming
    {
        let renamed: Vec<DefId> = cx.qcache.keys().cloned().collect();
        let _ = renamed;
    }
    for owner in tcx.hir_body_owners() {
        let did = owner.to_def_id();
        let kind = tcx.def_kind(did);
        let (is_fn, is_const_item) = match kind {
            DefKind::Fn | DefKind::AssocFn | DefKind::Closure => (true, false),
            DefKind::Const { .. } | DefKind::AssocConst { .. } => (false, true),
            DefKind::Static { .. } => (false, false),
            _ => (false, false),
        };
        let q = cx.qname(did);
        if is_const_item {
            if let Some(v) = cx.eval_const_item(owner) {
                let t = tcx.type_of(did).instantiate_identity().skip_norm_wip();
                consts.push((q.clone(), J::Obj(vec![("ty", s(cx.ty_str(t))), ("v", v), ("loc", cx.loc_j(tcx.def_span(did)))])));
            }
            continue;
        }
        if !is_fn {
            continue;
        }
        // constructors and similar have no HIR body; hir_body_owners only yields real bodies
        if tcx.is_constructor(did) {
            continue;
        }
        let body: &Body<'tcx> = tcx.optimized_mir(did);
        let mut o: Vec<(&'static str, J)> = vec![];
        o.push(("kind", s(match kind {
            DefKind::Closure => "closure",
            DefKind::AssocFn => "assoc_fn",
            _ => "fn",
        })));
        o.push(("path", s(cx.path_str(did))));
        o.push(("loc", cx.loc_j(tcx.def_span(did))));
        if matches!(kind, DefKind::Fn | DefKind::AssocFn) {
            o.push(("vis", s(format!("{:?}", tcx.visibility(did)))));
            let sig = tcx.fn_sig(did).instantiate_identity().skip_norm_wip().skip_binder();
            o.push(("unsafe", J::Bool(sig.safety().is_unsafe())));
            o.push(("const", J::Bool(tcx.is_const_fn(did))));
            o.push(("inputs", J::Arr(sig.inputs().iter().map(|t| s(cx.ty_str(*t))).collect())));
            o.push(("output", s(cx.ty_str(sig.output()))));
            o.push(("name", s(tcx.item_name(did).to_string())));
        }
        if matches!(kind, DefKind::Closure) {
            let p = tcx.parent(did);
            o.push(("parent", s(cx.qname(p))));
        }
        if let Some(p) = tcx.opt_parent(did) {
            match tcx.def_kind(p) {
                DefKind::Impl { of_trait } => {
                    let st = tcx.type_of(p).instantiate_identity().skip_norm_wip();
                    o.push(("impl_self", s(cx.self_head(st))));
                    o.push(("impl_self_ty", s(cx.ty_str(st))));
                    if of_trait {
                        let tr = tcx.impl_trait_ref(p).instantiate_identity().skip_norm_wip();
                        o.push(("impl_trait", s(cx.path_str(tr.def_id))));
                    }
                }
                DefKind::Trait => {
                    o.push(("in_trait", s(cx.path_str(p))));
                }
                _ => {}
            }
        }
        // promoted constants (e.g. `&*VM::VMObjectModel::LOCAL_MARK_BIT_SPEC`): record which named
        // constants / fn items each promoted body refers to, so that rules can see through them
        {
            let proms = tcx.promoted_mir(did);
            let mut pj: Vec<(String, J)> = vec![];
            for (pi, pb) in proms.iter_enumerated() {
                let mut items: Vec<J> = vec![];
                for bbd in pb.basic_blocks.iter() {
                    for st in bbd.statements.iter() {
                        if let StatementKind::Assign(b) = &st.kind {
                            let (_, rv) = &**b;
                            let mut ops: Vec<&Operand<'tcx>> = vec![];
                            match rv {
                                Rvalue::Use(o, _) | Rvalue::Cast(_, o, _) | Rvalue::UnaryOp(_, o) | Rvalue::Repeat(o, _) => ops.push(o),
                                Rvalue::BinaryOp(_, ab) => { ops.push(&ab.0); ops.push(&ab.1); }
                                Rvalue::Aggregate(k, os) => {
                                    if let AggregateKind::Adt(d, vi, ..) = &**k {
                                        let def = tcx.adt_def(*d);
                                        items.push(s(format!("{}::{}", cx.path_str(*d), def.variant(*vi).name)));
                                    }
                                    for o in os.iter() { ops.push(o); }
                                }
                                _ => {}
                            }
                            for o in ops {
                                if let Operand::Constant(c) = o {
                                    match &c.const_ {
                                        Const::Unevaluated(u, _) => items.push(s(cx.qname(u.def))),
                                        other => {
                                            if let ty::FnDef(d, _) = other.ty().peel_refs().kind() {
                                                items.push(s(cx.qname(*d)));
                                            }
                                        }
                                    }
                                }
                            }
                        }
                    }
                }
                pj.push((format!("{}", pi.as_usize()), J::Arr(items)));
            }
            if !pj.is_empty() {
                o.push(("promoted", J::Map(pj)));
            }
        }
        o.push(("body", cx.body(owner, body)));
        fns.push((q, J::Obj(o)));
    }

    // ADTs, impls, traits
    let mut adts: Vec<(String, J)> = vec![];
    let mut impls: Vec<J> = vec![];
    let mut traits: Vec<(String, J)> = vec![];
    for ld in tcx.hir_crate_items(()).definitions() {
        let did = ld.to_def_id();
        match tcx.def_kind(did) {
            DefKind::Struct | DefKind::Enum | DefKind::Union => {
                let def = tcx.adt_def(did);
                let mut vars = vec![];
                for (vi, v) in def.variants().iter_enumerated() {
                    let discr = if def.is_enum() { Some(def.discriminant_for_variant(tcx, vi).val) } else { None };
                    let fields: Vec<J> = v
                        .fields
                        .iter()
                        .map(|f| {
                            let ft = tcx.type_of(f.did).instantiate_identity().skip_norm_wip();
                            J::Obj(vec![
                                ("name", s(f.name.to_string())),
                                ("ty", s(cx.ty_str(ft))),
                                ("ty_head", s(cx.self_head(ft))),
                                ("pub", J::Bool(f.vis.is_public())),
                                ("vis", s(format!("{:?}", f.vis))),
                            ])
                        })
                        .collect();
                    vars.push(J::Obj(vec![
                        ("name", s(v.name.to_string())),
                        ("discr", discr.map(|d| J::Int(d as i128)).unwrap_or(J::Null)),
                        ("fields", J::Arr(fields)),
                    ]));
                }
                adts.push((
                    cx.path_str(did),
                    J::Obj(vec![
                        ("kind", s(if def.is_enum() { "enum" } else if def.is_union() { "union" } else { "struct" })),
                        ("variants", J::Arr(vars)),
                        ("loc", cx.loc_j(tcx.def_span(did))),
                        ("vis", s(format!("{:?}", tcx.visibility(did)))),
                    ]),
                ));
            }
            DefKind::Impl { of_trait } => {
                let st = tcx.type_of(did).instantiate_identity().skip_norm_wip();
                let mut o: Vec<(&'static str, J)> = vec![("self", s(cx.self_head(st))), ("self_ty", s(cx.ty_str(st))), ("head", s(cx.impl_head(did)))];
                if of_trait {
                    let tr = tcx.impl_trait_ref(did).instantiate_identity().skip_norm_wip();
                    o.push(("trait", s(cx.path_str(tr.def_id))));
                    o.push(("trait_ref", s(with_no_trimmed_paths!(tr.to_string()))));
                    o.push(("trait_ga", cx.generic_args(tr.args)));
                }
                let mut items = vec![];
                for it in tcx.associated_items(did).in_definition_order() {
                    let mut io: Vec<(&'static str, J)> = vec![("name", s(it.opt_name().map(|x| x.to_string()).unwrap_or_else(|| "<rpitit>".into()))), ("q", s(cx.qname(it.def_id)))];
                    match it.kind {
                        ty::AssocKind::Type { .. } => {
                            let t = tcx.type_of(it.def_id).instantiate_identity().skip_norm_wip();
                            io.push(("kind", s("type")));
                            io.push(("ty", s(cx.ty_str(t))));
                            io.push(("ty_head", s(cx.self_head(t))));
                        }
                        ty::AssocKind::Const { .. } => {
                            io.push(("kind", s("const")));
                        }
                        ty::AssocKind::Fn { .. } => {
                            io.push(("kind", s("fn")));
                        }
                    }
                    items.push(J::Obj(io));
                }
                o.push(("items", J::Arr(items)));
                o.push(("loc", cx.loc_j(tcx.def_span(did))));
                impls.push(J::Obj(o));
            }
            DefKind::Trait => {
                let mut items = vec![];
                for it in tcx.associated_items(did).in_definition_order() {
                    let has_default = it.defaultness(tcx).has_value();
                    items.push(J::Obj(vec![
                        ("name", s(it.opt_name().map(|x| x.to_string()).unwrap_or_else(|| "<rpitit>".into()))),
                        ("kind", s(match it.kind {
                            ty::AssocKind::Type { .. } => "type",
                            ty::AssocKind::Const { .. } => "const",
                            ty::AssocKind::Fn { .. } => "fn",
                        })),
                        ("default", J::Bool(has_default)),
                        ("q", s(cx.qname(it.def_id))),
                    ]));
                }
                traits.push((cx.path_str(did), J::Obj(vec![("items", J::Arr(items))])));
            }
            _ => {}
        }
    }

    let root = J::Obj(vec![
        ("crate", s(crate_name.clone())),
        ("tag", s(tag)),
        ("fns", J::Map(fns)),
        ("consts", J::Map(consts)),
        ("adts", J::Map(adts)),
        ("impls", J::Arr(impls)),
        ("traits", J::Map(traits)),
    ]);
    let mut out = String::with_capacity(64 << 20);
    root.write(&mut out);
    let path = format!("{}/{}.{}.json", out_dir, crate_name, tag);
    let tmp = format!("{}.tmp{}", path, std::process::id());
    std::fs::write(&tmp, out).expect("write facts");
    std::fs::rename(&tmp, &path).expect("rename facts");
}

struct Cb {
    out: Option<String>,
    crates: Vec<String>,
    tag: String,
}
impl Callbacks for Cb {
    fn after_analysis<'tcx>(&mut self, _c: &Compiler, tcx: TyCtxt<'tcx>) -> Compilation {
        if let Some(out) = &self.out {
            let name = tcx.crate_name(rustc_hir::def_id::LOCAL_CRATE).to_string();
            if self.crates.iter().any(|c| c == &name) {
                dump(tcx, out, &self.tag);
            }
        }
        Compilation::Continue
    }
}

fn main() {
    let mut args: Vec<String> = std::env::args().collect();
    // RUSTC_WORKSPACE_WRAPPER convention: argv[1] is the path of the real rustc.
    if args.len() > 1 && (args[1].ends_with("rustc") || args[1].contains("/rustc")) {
        args.remove(1);
    }
    let out = std::env::var("FACTS_OUT").ok();
    let crates = std::env::var("FACTS_CRATES").unwrap_or_else(|_| "mmtk".into()).split(',').map(|x| x.to_string()).collect();
    let tag = std::env::var("FACTS_TAG").unwrap_or_else(|_| "K".into());
    let mut cb = Cb { out, crates, tag };
    rustc_driver::run_compiler(&args, &mut cb);
}

#[allow(dead_code)]
fn _unused(_: FieldIdx) {}
