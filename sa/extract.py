"""Fact extraction: runs the rustc_private driver over a working tree of mmtk-core
for one feature configuration and caches the fact base by tree content hash."""
import fcntl, hashlib, json, os, re, shutil, subprocess, sys, time

VERIF = os.path.dirname(os.path.dirname(os.path.abspath(__file__)))
REPO = os.environ.get("VERIF_REPO", "/repo")
CACHE = os.environ.get("VERIF_CACHE", os.path.join(VERIF, ".cache"))
DRIVER_DIR = os.path.join(VERIF, "driver")
DRIVER = os.path.join(DRIVER_DIR, "target", "release", "mmtk-facts-driver")

# feature configurations (DESIGN.md 2.2)
CONFIGS = {
    "K0": "",
    "K1": "vo_bit,object_pinning",
    "K2": "vo_bit,object_pinning,sanity,extreme_assertions,analysis,work_packet_stats",
    "K3": "marksweep_as_nonmoving",
    "K4": "immortal_as_nonmoving",
    "K5": "malloc_mark_sweep",
    "K6": "eager_sweeping",
    "K7": "immix_non_moving",
    "K8": "sticky_immix_non_moving_nursery",
    "K9": "nogc_lock_free,nogc_multi_space",
    "K10": "code_space,ro_space,vm_space",
    "K11": "compressor_single_space",
    "K12": "malloc_native_mimalloc",
    "K13": "immix_smaller_block",
}


class ExtractionError(Exception):
    pass


def sysroot():
    return subprocess.check_output(["rustc", "+nightly", "--print", "sysroot"], text=True).strip()


def _hash_files(paths):
    h = hashlib.sha256()
    for p in sorted(paths):
        h.update(p.encode())
        h.update(b"\0")
        with open(p, "rb") as f:
            h.update(f.read())
        h.update(b"\0")
    return h.hexdigest()


def tree_files(repo):
    out = []
    for top in ("src", "macros"):
        for root, dirs, files in os.walk(os.path.join(repo, top)):
            dirs[:] = [d for d in dirs if d != "target"]
            for f in files:
                out.append(os.path.join(root, f))
    for f in ("Cargo.toml", "Cargo.lock", "build.rs"):
        p = os.path.join(repo, f)
        if os.path.exists(p):
            out.append(p)
    return out


def tree_hash(repo=None):
    repo = repo or REPO
    files = tree_files(repo)
    h = hashlib.sha256()
    for p in sorted(files):
        h.update(os.path.relpath(p, repo).encode())
        h.update(b"\0")
        with open(p, "rb") as f:
            h.update(f.read())
        h.update(b"\0")
    h.update(driver_hash().encode())
    return h.hexdigest()[:20]


_driver_hash = None


def driver_hash():
    global _driver_hash
    if _driver_hash is None:
        _driver_hash = _hash_files([os.path.join(DRIVER_DIR, "src", "main.rs"), os.path.join(DRIVER_DIR, "Cargo.toml")])[:16]
    return _driver_hash


class Lock:
    def __init__(self, name):
        os.makedirs(os.path.join(CACHE, "locks"), exist_ok=True)
        self.path = os.path.join(CACHE, "locks", name + ".lock")

    def __enter__(self):
        self.f = open(self.path, "w")
        fcntl.flock(self.f, fcntl.LOCK_EX)
        return self

    def __exit__(self, *a):
        fcntl.flock(self.f, fcntl.LOCK_UN)
        self.f.close()


def ensure_driver():
    stamp = os.path.join(DRIVER_DIR, "target", "release", ".built-" + driver_hash())
    if os.path.exists(DRIVER) and os.path.exists(stamp):
        return
    with Lock("driver"):
        if os.path.exists(DRIVER) and os.path.exists(stamp):
            return
        env = dict(os.environ, CARGO_NET_OFFLINE="true")
        r = subprocess.run(["cargo", "+nightly", "build", "--release", "--offline"], cwd=DRIVER_DIR, env=env,
                           stdout=subprocess.PIPE, stderr=subprocess.STDOUT, text=True)
        if r.returncode != 0:
            raise ExtractionError("driver build failed:\n" + r.stdout[-4000:])
        open(stamp, "w").write("ok")


def facts_path(config, repo=None):
    repo = repo or REPO
    return os.path.join(CACHE, "facts", tree_hash(repo), "mmtk.%s.json" % config)


def extract(config, repo=None, target_dir=None, quiet=True):
    """Return the path of the fact base for (tree, config); build it if absent."""
    repo = repo or REPO
    if config not in CONFIGS:
        raise ExtractionError("unknown configuration " + config)
    th = tree_hash(repo)
    outdir = os.path.join(CACHE, "facts", th)
    out = os.path.join(outdir, "mmtk.%s.json" % config)
    if os.path.exists(out):
        _touch(outdir)
        return out
    ensure_driver()
    os.makedirs(outdir, exist_ok=True)
    target = target_dir or os.path.join(CACHE, "target", "shared")
    with Lock("target-" + hashlib.sha1(target.encode()).hexdigest()[:10]):
        if os.path.exists(out):
            return out
        os.makedirs(outdir, exist_ok=True)
        _touch(outdir)
        # defeat cargo's freshness cache for the mmtk lib only
        fp = os.path.join(target, "debug", ".fingerprint")
        if os.path.isdir(fp):
            for d in os.listdir(fp):
                if re.fullmatch(r"mmtk-[0-9a-f]{16}", d):
                    shutil.rmtree(os.path.join(fp, d), ignore_errors=True)
        env = dict(os.environ)
        env.update({
            "LD_LIBRARY_PATH": sysroot() + "/lib" + (":" + env["LD_LIBRARY_PATH"] if env.get("LD_LIBRARY_PATH") else ""),
            "RUSTFLAGS": "-Zmir-opt-level=0 -Awarnings -Cdebug-assertions=off",
            "RUSTC_WORKSPACE_WRAPPER": DRIVER,
            "FACTS_OUT": outdir,
            "FACTS_TAG": config,
            "FACTS_CRATES": "mmtk",
            "CARGO_TARGET_DIR": target,
            "CARGO_NET_OFFLINE": "true",
        })
        env.pop("RUSTC_WRAPPER", None)
        cmd = ["cargo", "+nightly", "check", "--offline", "--lib"]
        if CONFIGS[config]:
            cmd += ["--features", CONFIGS[config]]
        t0 = time.time()
        r = subprocess.run(cmd, cwd=repo, env=env, stdout=subprocess.PIPE, stderr=subprocess.STDOUT, text=True)
        if r.returncode != 0 or not os.path.exists(out):
            tail = "\n".join(l[:300] for l in r.stdout.splitlines()[-40:])
            raise ExtractionError("extraction failed for %s (exit %d):\n%s" % (config, r.returncode, tail))
        if not quiet:
            print("extracted %s in %.1fs" % (config, time.time() - t0), file=sys.stderr)
    prune()
    return out


def _touch(d):
    try:
        os.utime(d, None)
    except OSError:
        pass


def prune(keep=4, min_age=3 * 3600):
    """Bound the cache: beyond the `keep` most recently used tree hashes, remove fact bases that nobody has used for `min_age`
    seconds. A directory in use by a concurrent check (touched on every use) is never removed."""
    root = os.path.join(CACHE, "facts")
    try:
        ds = [(os.path.getmtime(os.path.join(root, d)), d) for d in os.listdir(root)]
    except (FileNotFoundError, OSError):
        return
    ds.sort(reverse=True)
    now = time.time()
    for mt, d in ds[keep:]:
        if now - mt > min_age:
            shutil.rmtree(os.path.join(root, d), ignore_errors=True)


if __name__ == "__main__":
    cfgs = sys.argv[1:] or ["K0"]
    for c in cfgs:
        print(extract(c, quiet=False))
