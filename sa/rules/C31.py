"""C31 Address-to-space resolution is total and exact: structural clauses (DESIGN.md 4/C31)."""
import re
from .common import *
from ..engine import AnalysisError, show, strip, short, walk, last_seg, tree_calls

PROP = "C31"
LEVEL = "other"
QUICK = ["K0", "K1", "K5"]
THOROUGH = ALL_CONFIGS
ASSUMPTIONS = ["exactness of the index arithmetic (addr_to_index, chunk_index) and agreement with the VM map descriptors are value-level and not decided",
               "arguments of type ObjectReference are valid object references by the API contract"]
EXPLANATION = (
    "Structural necessary conditions of totality: in every SFTMap implementation get_checked performs the unchecked table access "
    "exactly under has_sft_entry(address)==true and otherwise returns the empty-space SFT, with no diverging block on either arm; the "
    "unchecked lookup is called only from those get_checked bodies and from the frozen list of ObjectReference methods / SFTTrace whose "
    "argument is a valid object reference by contract; no binding-facing function of memory_manager that takes an arbitrary Address "
    "reaches an unchecked lookup in the call graph; is_in_mmtk_spaces and the debug printer use get_checked; the EmptySpaceSFT methods "
    "reachable from those APIs (is_in_space, is_mmtk_object, find_object_from_internal_pointer) do not diverge; when chunks are freed "
    "their SFT entries are cleared (C29.free-clears)."
)
MAP = "policy::sft_map::SFTMap::"


def run(ctx, F):
    impls = [im["self"] for im in F.impls_of("policy::sft_map::SFTMap")]
    ctx.floor("C31.checked-guard", len(impls), 3, "SFTMap implementations")
    for ty in impls:
        q = "<%s as policy::sft_map::SFTMap>::get_checked" % ty
        f = F.fn(q)
        un = live_calls(f, name="get_unchecked")
        hs = live_calls(f, name="has_sft_entry")
        okg = len(un) == 1 and len(hs) == 1 and len(sig(f, un[0].bb)) == 1 and bool(sig_find(f, un[0].bb, r"has_sft_entry\(arg1, arg2\)", True)) and strip(f.flow.arg_tree(un[0], 1)) == ("arg", 2)
        ctx.judge(okg, "C31.checked-guard", "%s::get_checked indexes the table only for addresses that have an entry" % last_seg(ty), expected="get_unchecked(address) control dependent exactly on has_sft_entry(address)",
                  found=str([sig_strs(f, c.bb) for c in un]), where=where(f), key="C31.checked-guard|%s" % ty)
        rows = ret_table(f)
        empty = [(b, t, g) for b, t, g in rows if "EMPTY_SPACE_SFT" in show(t)]
        oke = len(empty) == 1 and any("has_sft_entry" in show(p.tree) and p.val is False for p in empty[0][2])
        ctx.judge(oke, "C31.checked-guard", "%s::get_checked returns the empty space otherwise" % last_seg(ty), expected="&EMPTY_SPACE_SFT under !has_sft_entry(address)", found=str([show(t)[:60] for b, t, g in rows]),
                  where=where(f), key="C31.checked-guard|empty|%s" % ty)
        # diverging blocks that are reachable once constant branches (cfg!, compiled-out debug assertions) are folded
        live_asserts = [a for a in f.cfg.assertlike if a in f.cfg.live]
        dead = []
        for a in f.cfg.live:
            for (s, lab) in f.cfg.raw[a]:
                if s not in f.cfg.live and f.blocks[a]["t"]["k"] != "call":
                    dead.append(s)
            t = f.blocks[a]["t"]
            if t["k"] == "call" and t.get("div"):
                dead.append(a)
        ctx.judge(not dead and not live_asserts, "C31.checked-guard", "%s::get_checked cannot panic" % last_seg(ty), expected="no diverging call / assertion in the compiled body (debug assertions off)",
                  found="diverging blocks=%s assert-like=%s" % (dead, list(f.cfg.assertlike)), where=where(f), key="C31.checked-guard|nopanic|%s" % ty)

    # ---- C31.checked-api
    allowed = {"<%s as policy::sft_map::SFTMap>::get_checked" % ty: "guarded by has_sft_entry" for ty in impls}
    allowed.update({
        "<plan::tracing::SFTTrace as plan::tracing::Trace>::trace_object": "traces valid object references only",
        "util::address::ObjectReference::is_reachable": "ObjectReference is valid by contract",
        "util::address::ObjectReference::is_live": "ObjectReference is valid by contract",
        "util::address::ObjectReference::is_movable": "ObjectReference is valid by contract",
        "util::address::ObjectReference::get_forwarded_object": "ObjectReference is valid by contract",
        "util::address::ObjectReference::is_in_any_space": "ObjectReference is valid by contract",
        "util::address::ObjectReference::is_sane": "ObjectReference is valid by contract (feature sanity)",
    })
    check_callers(ctx, F, "C31.checked-api", MAP + "get_unchecked", allowed, min_sites=4)
    unchecked_callers = {cs.fn.q for cs in callers(F, MAP + "get_unchecked") if "get_checked" not in cs.fn.q}
    n = 0
    for q, f in sorted(F.fns.items()):
        if q.startswith("memory_manager::") and f.kind != "closure" and "Public" in f.meta.get("vis", "") and any(i == "util::address::Address" for i in f.meta.get("inputs", [])):
            n += 1
            par = F.cg.reach([q], stop=lambda x: "GCWork" in x or x.startswith("scheduler::"))
            hit = [u for u in unchecked_callers if u in par]
            ctx.judge(not hit, "C31.checked-api", "%s (takes an arbitrary address) never reaches an unchecked SFT lookup" % short(q), expected="no call path to SFTMap::get_unchecked outside get_checked",
                      found=" -> ".join(short(x) for x in F.cg.path_to(par, hit[0])) if hit else "", where=where(f), key="C31.checked-api|reach|%s" % q)
    ctx.floor("C31.checked-api", n, 3, "memory_manager functions taking an Address")
    for q in ("memory_manager::is_in_mmtk_spaces", "mmtk::mmtk_debug_print_object"):
        f = F.fn(q)
        gc = live_calls(f, q=MAP + "get_checked")
        ctx.judge(bool(gc) and not live_calls(f, q=MAP + "get_unchecked"), "C31.checked-api", "%s resolves the address through get_checked" % short(q), expected="SFT_MAP.get_checked(..)", found=str(len(gc)), where=where(f),
                  key="C31.checked-api|checked|%s" % q)
    # EmptySpaceSFT methods that arbitrary addresses can reach do not diverge
    for nm in ("is_in_space", "is_mmtk_object", "find_object_from_internal_pointer", "name"):
        q = "<policy::sft::EmptySpaceSFT as policy::sft::SFT>::%s" % nm
        f = F.fns.get(q)
        if f is None:
            if nm in ("is_mmtk_object", "find_object_from_internal_pointer") and "vo_bit" not in (F.features or []):
                continue   # compiled only with the vo_bit feature
            raise AnalysisError("C31.checked-api: %s missing" % q)
        ctx.judge(not f.cfg.noreturn, "C31.checked-api", "EmptySpaceSFT::%s returns" % nm, expected="a non-diverging body (arbitrary addresses resolve to the empty space)", found="diverges", where=where(f),
                  key="C31.checked-api|empty|%s" % nm)
    eis = F.fns.get("<policy::sft::EmptySpaceSFT as policy::sft::SFT>::is_in_space")
    if eis is not None:
        rc = [v for r, v, t in ret_consts(eis)]
        ctx.judge(rc == [False], "C31.checked-api", "the empty space contains no object", expected="is_in_space returns false", found=str(rc), where=where(eis), key="C31.checked-api|empty-false")
    _entry_range(ctx, F)
    _release_clears(ctx, F)


def _entry_range(ctx, F):
    """C31.entry-range: which addresses `has_sft_entry` admits, per SFT map implementation. The test must be a range test on the
    address itself (or on its chunk index against the table bound): an index computed by a many-to-one function (addr_to_index
    wraps around) would admit addresses outside every space."""
    SM = "policy::sft_map::space_map::SFTSpaceMap"
    f = F.fns.get("<%s as policy::sft_map::SFTMap>::has_sft_entry" % SM)
    if f is not None:
        rows = ret_table(f)
        trues = [(b, strip(t), g) for b, t, g in rows if const_arg(t) is not False]
        cmps = []
        for b, t, g in trues:
            cmps += [show(p.tree) for p in g if p.val is True] + ([show(t)] if const_arg(t) is None else [])
        ok = bool(trues) and set(cmps) == {"PartialOrd::ge(arg2, arg1.space_address_start)", "PartialOrd::lt(arg2, arg1.space_address_end)"}
        ctx.judge(ok, "C31.entry-range", "SFTSpaceMap::has_sft_entry admits exactly start <= addr < end", expected="addr >= self.space_address_start && addr < self.space_address_end (comparisons on the address itself)",
                  found=str(sorted(set(cmps)))[:240], where=where(f), key="C31.entry-range|space-map")
        n = F.fn(SM + "::new")
        vals = {}
        for i, b in enumerate(n.blocks):
            if i not in n.cfg.live:
                continue
            for j, st in enumerate(b["s"]):
                if st[0] == "=" and st[2][0] == "agg" and st[2][1].get("adt") == SM:
                    for nm, op in zip(st[2][1]["fields"], st[2][2]):
                        vals[nm] = show(strip(n.flow.operand_tree(op, i, j)))
        okn = vals.get("space_address_start") == "SFTSpaceMap::index_to_space_range(1).0" and \
            vals.get("space_address_end") == "SFTSpaceMap::index_to_space_range((heap_parameters::MAX_SPACES=16 Sub 1)).1".replace("=16", "=%s" % (vals.get("space_address_end", "").split("MAX_SPACES=")[-1].split(" ")[0] if "MAX_SPACES=" in vals.get("space_address_end", "") else "16"))
        ctx.judge(okn, "C31.entry-range", "the admitted range is [start of space 1, end of the last space)", expected="index_to_space_range(1).0 .. index_to_space_range(MAX_SPACES - 1).1",
                  found="start=%s end=%s" % (vals.get("space_address_start"), vals.get("space_address_end")), where=where(n), key="C31.entry-range|space-map-bounds")
        w = field_mutators(F, SM, "space_address_start") | field_mutators(F, SM, "space_address_end")
        ctx.judge(not w, "C31.entry-range", "the admitted range never changes", expected="no writer after construction", found=str(sorted(w)), key="C31.entry-range|space-map-const")
    f = F.fns.get("<policy::sft_map::sparse_chunk_map::SFTSparseChunkMap as policy::sft_map::SFTMap>::has_sft_entry")
    if f is not None:
        rt = [show(strip(t)) for _, t in f.flow.return_trees()]
        ctx.judge(rt == ["(Address::chunk_index(arg2) Lt VMLayout::max_chunks(vm_layout::vm_layout()))"], "C31.entry-range", "SFTSparseChunkMap::has_sft_entry bounds the chunk index by the table size",
                  expected="addr.chunk_index() < vm_layout().max_chunks()", found=str(rt)[:200], where=where(f), key="C31.entry-range|sparse")
    f = F.fns.get("<policy::sft_map::dense_chunk_map::SFTDenseChunkMap as policy::sft_map::SFTMap>::has_sft_entry")
    if f is not None:
        rows = [(show(strip(t)), [(show(p.tree), p.val) for p in g]) for b, t, g in ret_table(f) if const_arg(t) is not False]
        ok = rows == [("(SFTDenseChunkMap::addr_to_index(arg2) Lt (Vec::len(arg1.sft) as _))", [("SideMetadataSpec::is_mapped(spec_defs::SFT_DENSE_CHUNK_MAP_INDEX, arg2)", True)])]
        ctx.judge(ok, "C31.entry-range", "SFTDenseChunkMap::has_sft_entry requires mapped index metadata and an index inside the table", expected="is_mapped(addr) && addr_to_index(addr) < sft.len()",
                  found=str(rows)[:240], where=where(f), key="C31.entry-range|dense")


def _release_clears(ctx, F):
    """C31.release-clears: when Map32 gives a run of chunks back, every chunk of the run loses both its space descriptor and its
    SFT entry, addressed by the same per-chunk index (a released chunk must resolve to the empty space)."""
    f = F.fn("util::heap::layout::map32::Map32::free_contiguous_chunks_no_lock")
    clr = [c for c in live_calls(f) if c.name == "clear" and c.q and c.q.endswith("SFTMap::clear")]
    dm = [c for c in live_calls(f) if c.name == "index_mut" and show(strip(f.flow.arg_tree(c, 0))).endswith(".descriptor_map")]
    ok = len(clr) == 1 and len(dm) == 1
    found = "SFT clear sites=%d descriptor_map writes=%d" % (len(clr), len(dm))
    if ok:
        it = strip(f.flow.arg_tree(dm[0], 1))
        at = strip(f.flow.arg_tree(clr[0], 1))
        idx, a = show(it), show(at)
        ok = bool(at) and at[0] == "call" and last_seg(at[2] or at[1]) == "chunk_index_to_address" and len(at[3]) == 1 and strip(at[3][0]) == it and "Iterator>::next" in idx and "FreeList::free(" in idx
        # both happen in the same iteration: same guards
        ok = ok and [show(p.tree) for p in guards(f, clr[0].bb)] == [show(p.tree) for p in guards(f, dm[0].bb)]
        found = "descriptor index=%s ; SFT clear address=%s" % (idx[:120], a[:160])
    ctx.judge(ok, "C31.release-clears", "Map32 clears the descriptor and the SFT entry of each freed chunk", expected="for every chunk index i of the freed run: descriptor_map[i] = UNINITIALIZED and SFT_MAP.clear(chunk_index_to_address(i))",
              found=found, where=where(f), key="C31.release-clears|map32")
    st = [show(strip(t)) for (bb, j, pl, t) in stores(f) if bb == dm[0].bb + 1 or True]
    ctx.judge(any("SpaceDescriptor::UNINITIALIZED" in s for s in st), "C31.release-clears", "the freed chunk's descriptor becomes UNINITIALIZED", expected="store of SpaceDescriptor::UNINITIALIZED", found=str(st)[:200], where=where(f),
              key="C31.release-clears|map32-value")
