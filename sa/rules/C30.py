"""C30 Mmap chunk states only move Unmapped -> Quarantined -> Mapped (DESIGN.md 4/C30)."""
import re
from .common import *
from ..engine import AnalysisError, show, strip, short, walk, last_seg, tree_calls

PROP = "C30"
LEVEL = "other"
QUICK = ["K0"]
THOROUGH = ALL_CONFIGS
ASSUMPTIONS = ["slab/slice index arithmetic of the state storages and the grouping of equal-state runs (C40, not applicable) are value-level",
               "the OS mmap wrappers do what they say; readability of mapped memory is not decided"]
LEVEL_NOTE = ("the transition table is finite and extracted completely (every closure handed to bulk_transition_state, every row): that part is exhaustive; the remaining clauses are structural "
              "necessary conditions; range arithmetic is not decided")
EXPLANATION = (
    "Every closure passed to MapStateStorage::bulk_transition_state is reduced to its decision table (old state -> new state | unchanged | "
    "diverges | error): every state-changing row moves strictly forward in the order Unmapped < Quarantined < Mapped (enum discriminants), "
    "and it returns the new state only after the OS call of that row succeeded (`?` before Ok(Some(..))); bulk_set_state is only called "
    "with the constant Mapped; is_mapped_address compares with Mapped; every Mmapper method that transitions takes transition_lock "
    "first; in both storage implementations a slot is stored only with the Some payload returned by update_fn for the group containing "
    "it, after the `?`, and never on the None arm."
)
CSM = "util::heap::layout::mmapper::csm::"
STATES = ("Unmapped", "Quarantined", "Mapped")


def run(ctx, F):
    rank = {v: k for k, v in (F.enum_variants(CSM + "MapState") or {}).items()}
    ctx.require(all(s in rank for s in STATES) and rank["Unmapped"] < rank["Quarantined"] < rank["Mapped"], "C30: MapState enum order changed: %s" % rank)
    ctx.ok("C30.transition-table", "MapState order Unmapped < Quarantined < Mapped", str(rank))
    # closures handed to bulk_transition_state
    clos = []
    for f in F.fns.values():
        for c in live_calls(f, name="bulk_transition_state"):
            t = strip(f.flow.arg_tree(c, 2))
            if t and t[0] == "agg" and t[1][0] == "closure":
                clos.append((f, c, F.fn(t[1][1])))
    ctx.floor("C30.transition-table", len(clos), 3, "closures passed to bulk_transition_state")
    nrows = 0
    from .paths import PathEval
    discr = {v: k for k, v in rank.items()}   # variant name -> discriminant
    for f, c, cl in clos:
        rows = ret_table(cl)
        pe = PathEval(cl, {"state": r"^discr\(arg3\)$"})
        outer = outermost(F, cl)
        for S in STATES:
            reach = pe.explore(0, {"state": rank[S]})
            mine = [(b, t, g) for b, t, g in rows if b in reach and "from_residual" not in show(t)]
            outs = set()
            for b, t, g in mine:
                s_ = show(t)
                m = re.search(r"MapState::(\w+)", s_)
                outs.add(m.group(1) if (m and "Some" in s_) else ("None" if "None" in s_ else "?" + s_[:40]))
            if not mine:
                ctx.ok("C30.transition-table", "%s: old state %s is rejected (every path diverges or propagates an error)" % (short(cl.q), S), "no state is written")
                continue
            nrows += 1
            ctx.judge(len(outs) == 1 and not any(o.startswith("?") for o in outs), "C30.transition-table", "%s: old state %s has exactly one outcome" % (short(cl.q), S),
                      expected="Ok(None) or Ok(Some(one new state)) for this old state (on every arrangement of the match)", found=str(sorted(outs)), where=where(cl), key="C30.transition-table|sel|%s|%s" % (cl.q, S))
            if len(outs) != 1:
                continue
            to = outs.pop()
            if to == "None":
                ctx.ok("C30.transition-table", "%s: %s stays" % (short(cl.q), S), "Ok(None)")
                continue
            ctx.judge(to in rank and rank[to] > rank[S], "C30.transition-table", "%s: %s -> %s moves forward" % (short(cl.q), S, to), expected="rank(new) > rank(old)", found="%s -> %s" % (S, to), where=where(cl),
                      key="C30.transition-table|row|%s|%s" % (cl.q, S))
            if outer.q.endswith("record_quarantined_range"):
                continue   # the range was already reserved by the caller's dzmmap_anywhere/preferred `?`
            # the OS call (with `?`) precedes the state change on the paths of this old state
            okos = True
            for b, t, g in mine:
                os_calls = [x for x in live_calls(cl) if x.q and x.q.startswith("util::os::") and x.bb in reach and cl.cfg.dominates(x.bb, b)]
                okos = okos and bool(os_calls) and any("branch" in show(p.tree) and p.val == "Continue" for p in g)
            ctx.judge(okos, "C30.os-before-state", "%s: %s -> %s only after the OS call succeeded" % (short(cl.q), S, to), expected="OS::dzmmap(..)? precedes Ok(Some(new_state))", found="rows=%d" % len(mine),
                      where=where(cl), key="C30.os-before-state|%s|%s" % (cl.q, S))
    ctx.floor("C30.transition-table", nrows, 6, "non-diverging transition rows")
    # record_quarantined_range: its caller mapped the range before recording
    for q in ("quarantine_address_range_anywhere", "quarantine_address_range_preferred"):
        f = F.fn("<%sChunkStateMmapper as util::heap::layout::mmapper::Mmapper>::%s" % (CSM, q))
        rq = live_calls(f, name="record_quarantined_range")
        osc = [x for x in live_calls(f) if x.q and x.q.startswith("util::os::") and "dzmmap" in x.q]
        ok = len(rq) == 1 and len(osc) == 1 and f.cfg.dominates(osc[0].bb, rq[0].bb) and bool(guard_find(f, rq[0].bb, r"branch\(", "Continue"))
        ctx.judge(ok, "C30.os-before-state", "%s records the range only after reserving it" % q, expected="dzmmap_*(..)? dominates record_quarantined_range", found="os=%d record=%d" % (len(osc), len(rq)), where=where(f),
                  key="C30.os-before-state|" + q)
    # bulk_set_state only with Mapped
    n = 0
    for f in F.fns.values():
        for c in live_calls(f, name="bulk_set_state"):
            if "tests" in f.q:
                continue
            n += 1
            v = const_arg(f.flow.arg_tree(c, 2))
            ctx.judge(v == "Mapped", "C30.transition-table", "bulk_set_state in %s sets Mapped" % short(f.q), expected="the constant MapState::Mapped (the top state)", found=str(v), where=where(f, c.line),
                      key="C30.transition-table|bulk_set|%s" % f.q)
    ctx.floor("C30.transition-table", n, 1, "bulk_set_state call sites")
    im = F.fn("<%sChunkStateMmapper as util::heap::layout::mmapper::Mmapper>::is_mapped_address" % CSM)
    rt = [show(strip(t)) for r, t in im.flow.return_trees()]
    ctx.judge(bool(rt) and all("get_state" in r and "Mapped" in r and "eq" in r.lower() for r in rt), "C30.transition-table", "is_mapped_address is true exactly for Mapped", expected="get_state(addr) == MapState::Mapped",
              found=str(rt)[:160], where=where(im), key="C30.transition-table|is_mapped")

    # ---- C30.locked
    for q, f in F.fns.items():
        if not q.startswith("<%sChunkStateMmapper as util::heap::layout::mmapper::Mmapper>::" % CSM) or f.kind == "closure":
            continue
        tr = [c for c in live_calls(f) if c.name in ("bulk_transition_state", "bulk_set_state", "record_quarantined_range")]
        if not tr:
            continue
        lk = [c for c in live_calls(f, name="lock") if "transition_lock" in show(strip(f.flow.arg_tree(c, 0)))]
        ok = len(lk) == 1 and all(f.cfg.dominates(lk[0].bb, c.bb) for c in tr)
        # and the guard is alive across the transition: it is dropped only after
        ctx.judge(ok, "C30.locked", "%s transitions under transition_lock" % last_seg(q), expected="transition_lock.lock() dominates every state transition", found="locks=%d" % len(lk), where=where(f),
                  key="C30.locked|" + q)
    check_callers(ctx, F, "C30.locked", CSM + "ChunkStateMmapper::record_quarantined_range", {
        "<%sChunkStateMmapper as util::heap::layout::mmapper::Mmapper>::quarantine_address_range_anywhere" % CSM: "holds the lock",
        "<%sChunkStateMmapper as util::heap::layout::mmapper::Mmapper>::quarantine_address_range_preferred" % CSM: "holds the lock"}, min_sites=2)

    # ---- C30.store-returned
    impls = [f for q, f in F.fns.items() if q.endswith("::bulk_transition_state") and "MapStateStorage>" in q and f.kind != "closure"]
    ctx.floor("C30.store-returned", len(impls), 1, "MapStateStorage::bulk_transition_state implementations compiled on this target")
    for f in impls:
        sts = [c for c in live_calls(f, name="store") if c.args and len(c.args) >= 2]
        ctx.judge(len(sts) >= 1, "C30.store-returned", "%s stores states" % short(f.q), expected=">=1 slot.store", found=str(len(sts)), where=where(f), key="C30.store-returned|sites|" + f.q)
        for c in sts:
            v = show(strip(f.flow.arg_tree(c, 1)))
            okv = "call_mut" in v and "Continue.0 as Some.0" in v.replace("as Continue.0) as Some.0", "Continue.0 as Some.0").replace(") as Some.0", " as Some.0") or ("branch" in v and "Some.0" in v)
            g = guards(f, c.bb)
            okg = any(p.val == "Some" and "branch" in show(p.tree) for p in g) and any(p.val == "Continue" and "branch" in show(p.tree) for p in g)
            ctx.judge(okv and okg, "C30.store-returned", "%s: slot store at line %s writes what update_fn returned" % (short(f.q), c.line), expected="store(new_state) with new_state = Some payload of update_fn(..)?, on the Some arm only",
                      found="value=%s" % v[:140], where=where(f, c.line), key="C30.store-returned|val|%s" % f.q)
    _range_walk(ctx, F)


def _range_walk(ctx, F):
    """C30.range-walk: the requested range is covered chunk by chunk. (a) ChunkRange::new_unaligned covers [start, start+bytes):
    it spans align_down(start) .. align_up(start + bytes). (b) bulk_transition_state walks the range group by group: every
    iteration (every back edge of the group loop) advances the group cursor, so the address range handed to update_fn and the
    slots updated stay in step."""
    f = F.fn("util::heap::layout::mmapper::csm::ChunkRange::new_unaligned")
    na = live_calls(f, name="new_aligned")
    ok = len(na) == 1
    found = "%d new_aligned calls" % len(na)
    if ok:
        a0, a1 = show(strip(f.flow.arg_tree(na[0], 0))), show(strip(f.flow.arg_tree(na[0], 1)))
        ok = bool(re.match(r"^Address::align_down\(arg1, vm_layout::BYTES_IN_CHUNK=\d+\)$", a0)) and \
            bool(re.match(r"^<Address as Sub<util::address::Address>>::sub\(Address::align_up\(<Address as Add<usize>>::add\(arg1, arg2\), vm_layout::BYTES_IN_CHUNK=\d+\), Address::align_down\(arg1, vm_layout::BYTES_IN_CHUNK=\d+\)\)$", a1))
        found = "new_aligned(%s, %s)" % (a0[:80], a1[:200])
    ctx.judge(ok, "C30.range-walk", "ChunkRange::new_unaligned covers every chunk touched by [start, start + bytes)", expected="new_aligned(align_down(start), align_up(start + bytes) - align_down(start))",
              found=found, where=where(f), key="C30.range-walk|unaligned")
    impls = [g for q, g in F.fns.items() if q.endswith("MapStateStorage>::bulk_transition_state") and g.blocks]
    for g in impls:
        cur = [i for i in range(len(g.locals)) if g.local_name(i) == "start_index"]
        if len(cur) != 1:
            # implementations that do not group (one slot per step) have no group cursor
            continue
        asg = [(i, j) for i, b in enumerate(g.blocks) if i in g.cfg.live for j, st in enumerate(b["s"]) if st[0] == "=" and st[1] == [cur[0]]]
        heads = {}
        for b in g.cfg.live:
            for s, _ in g.cfg.succ[b]:
                if s in g.cfg.live and g.cfg.dominates(s, b):
                    heads.setdefault(s, []).append(b)
        # the loop that contains an assignment of the cursor
        inner = list(asg)
        okc = False
        found = "cursor assignments=%s loop heads=%s" % (asg, sorted(heads))

        def body(h, srcs):
            # natural loop: blocks that reach a back-edge source without passing the head
            seen, work = {h}, [x for x in srcs]
            while work:
                n = work.pop()
                if n in seen:
                    continue
                seen.add(n)
                work += [p for p, _ in g.cfg.pred[n] if p in g.cfg.live]
            return seen
        cands = []
        for h, srcs in heads.items():
            bd = body(h, srcs)
            adv = [(i, j) for (i, j) in inner if i in bd and i != h]
            if adv:
                cands.append((len(bd), h, srcs, adv))
        if cands:
            _, h, srcs, adv = sorted(cands)[0]
            okc = all(any(g.cfg.dominates(i, src) for (i, j) in adv) for src in srcs)
            found = "loop head bb%d back edges from %s cursor advanced at %s" % (h, srcs, [i for i, j in adv])
        ctx.judge(okc, "C30.range-walk", "%s advances the group cursor on every iteration" % short(g.q), expected="every back edge of the group loop is dominated by `start_index = end_index`",
                  found=found, where=where(g), key="C30.range-walk|cursor|" + g.q)
        # the advance takes the end of the group just processed
        for (i, j) in [(i, j) for (i, j) in asg if any(g.cfg.dominates(h, i) for h in heads)]:
            t = show(strip(g.flow.rvalue_tree(g.blocks[i]["s"][j][2], i, j)))
            ctx.judge("Add" in t and "len" in t, "C30.range-walk", "%s: the cursor moves to the end of the group" % short(g.q), expected="start_index + group.len", found=t[:120], where=where(g),
                      key="C30.range-walk|advance|" + g.q)
    ctx.floor("C30.range-walk", len(impls), 1, "bulk_transition_state implementations")
    _slab_walk(ctx, F)


def _slab_walk(ctx, F):
    """C30.range-walk (c): the two-level table hands the range to the updater slab by slab. For each piece
    [low, high = min(next slab boundary, limit)) the slice is slab(low)[index(low) .. ub], where ub is the slab's chunk count exactly when
    index(high) wrapped to 0 (high is a slab boundary) and index(high) otherwise; the cursor then moves to high."""
    q = "util::heap::layout::mmapper::csm::two_level_storage::TwoLevelStateStorage::foreach_slab_slice_for_write"
    f = F.fns.get(q)
    if f is None:
        raise AnalysisError("C30.range-walk: %s not found" % q)
    HIGH = r"Ord::min\(Address::align_down\(<Address as Add<usize>>::add\(.*, two_level_storage::MMAP_SLAB_BYTES=\d+\), two_level_storage::MMAP_SLAB_BYTES=\d+\), ChunkRange::limit\(arg2\)\)"
    idx = [c for c in live_calls(f, name="index") if "get_or_allocate_slab_table" in show(simp(f.flow.arg_tree(c, 0)))]
    ok, found = len(idx) == 1, "slab slice sites=%d" % len(idx)
    if ok:
        r = simp(f.flow.arg_tree(idx[0], 1))
        ok = bool(r) and r[0] == "agg" and r[1][1] == "std::ops::Range" and len(r[2]) == 2
        found = "slice bounds: %s" % show(r)[:200]
    if ok:
        lo, hi = simp(r[2][0]), simp(r[2][1])
        slab_of = show(simp(f.flow.arg_tree(idx[0], 0)))
        m = re.match(r"^TwoLevelStateStorage::get_or_allocate_slab_table\(arg1, (.*)\)$", slab_of)
        ok = m is not None and show(lo) == "TwoLevelStateStorage::in_slab_index(%s)" % m.group(1)
        found = "slab of %s, lower index %s" % (slab_of[:120], show(lo)[:120])
        if ok:
            alts = [simp(a) for a in hi[1]] if hi and hi[0] == "phi" else [hi]
            consts = [a for a in alts if a and a[0] == "const" and str(a[3] or "").endswith("MMAP_CHUNKS_PER_SLAB")]
            idxs = [a for a in alts if re.match(r"^TwoLevelStateStorage::in_slab_index\(%s\)$" % HIGH, show(a))]
            ok = len(alts) == 2 and len(consts) == 1 and len(idxs) == 1
            found = "upper bound alternatives: %s" % [show(a)[:80] for a in alts]
    if ok:
        # which alternative is taken when
        sel = {}
        for i, b in enumerate(f.blocks):
            if i not in f.cfg.live:
                continue
            for j, st in enumerate(b["s"]):
                if st[0] == "=" and len(st[1]) == 1:
                    t = show(simp(f.flow.rvalue_tree(st[2], i, j)))
                    kind = "full" if re.match(r"^two_level_storage::MMAP_CHUNKS_PER_SLAB=\d+$", t) else "index" if re.match(r"^TwoLevelStateStorage::in_slab_index\(%s\)$" % HIGH, t) else None
                    if kind:
                        gs = [(show(simp(p.tree)), p.val) for p in guards(f, i)]
                        w = [(g, v) for g, v in gs if re.match(r"^\(TwoLevelStateStorage::in_slab_index\(%s\) (Eq|Ne) 0\)$" % HIGH, g) or re.match(r"^\(0 (Eq|Ne) TwoLevelStateStorage::in_slab_index\(%s\)\)$" % HIGH, g)]
                        if w:
                            g, v = w[-1]
                            wrapped = (v is True) if " Eq " in g else (v is False)
                            sel.setdefault(kind, set()).add(wrapped)
        ok = sel.get("full") == {True} and sel.get("index") == {False}
        found = "upper bound = chunks-per-slab when index(high)==0 is %s; = index(high) when index(high)==0 is %s" % (sorted(sel.get("full", [])), sorted(sel.get("index", [])))
    ctx.judge(ok, "C30.range-walk", "each slab slice ends at the slab's end exactly when the piece ends on a slab boundary", expected="slab(low)[index(low) .. (index(high) == 0 ? CHUNKS_PER_SLAB : index(high))], high = min(next slab boundary, limit)",
              found=found, where=where(f), key="C30.range-walk|slab-slice")
    # the cursor moves to `high` before the next iteration
    heads = [h for h in f.cfg.loop_heads()] if hasattr(f.cfg, "loop_heads") else []
    mins = [c for c in live_calls(f, name="min")]
    lts = [c for c in live_calls(f, name="lt")]
    okc = len(mins) == 1 and len(lts) == 1 and re.search(r"phi\(%s \| arg2\.start\)|phi\(arg2\.start \| %s\)" % (HIGH, HIGH), show(simp(f.flow.arg_tree(lts[0], 0)))) is not None
    ctx.judge(okc, "C30.range-walk", "the slab cursor restarts at the end of the piece just handed out", expected="low = high; loop while low < limit", found=show(simp(f.flow.arg_tree(lts[0], 0)))[:200] if lts else "no loop test", where=where(f),
              key="C30.range-walk|slab-cursor")
