"""C14 Every requested GC completes; no deadlock / lost wake-up: necessary structural clauses (DESIGN.md 4/C14)."""
import re
from .common import *
from .sched import *
from ..engine import AnalysisError, show, strip, short, walk, last_seg, tree_calls

PROP = "C14"
LEVEL = "other"
QUICK = ["K0", "K1"]
THOROUGH = ALL_CONFIGS
ASSUMPTIONS = ["liveness over all interleavings is not decided; each clause is a necessary condition whose violation is a classic lost wake-up / stuck goal",
               "std Mutex/Condvar and crossbeam queues are trusted"]
EXPLANATION = (
    "Necessary structural conditions against lost wake-ups and stuck goals: every WorkBucket method that publishes packets to a "
    "queue notifies workers on every path after the push, except the two *_no_notify methods whose callers are a frozen list "
    "(last-parked path, concurrent root factory); opening a bucket outside the last-parked callback is followed by notify_all; "
    "the last-parked decision table (guards -> LastParkedResult) extracted from on_last_parked/respond_to_requests and the "
    "reaction table of park_and_wait (ParkSelf waits, WakeSelf does not, WakeAll notifies all; parked-worker counter inc/dec paired; "
    "callback under the monitor mutex); WorkerGoals mutators are reached only through the locked monitor; GCTrigger.request_flag is "
    "written only by request (swap true; schedules iff it was false) and clear_request, which runs on every path of "
    "StopMutators::do_work so a later request is served again; workers leave their loop only when park_and_wait returns Err, which "
    "happens only for the exit goals."
)
WB = "scheduler::work_bucket::WorkBucket::"
SCHED = "scheduler::scheduler::GCWorkScheduler::"
MON = "scheduler::worker_monitor::WorkerMonitor::"
GOALS = "scheduler::worker_goals::WorkerGoals::"
NO_NOTIFY_CALLERS = {
    SCHED + "add_schedule_collection_packet": "called by the last parked worker, which then returns WakeSelf and polls itself",
    WB + "maybe_schedule_sentinel": "called by the last parked worker; a true result maps to WakeAll",
    "plan::concurrent::concurrent_marking_work::ConcurrentMarkingRootsWorkFactory::create_and_schedule_root_nodes_work":
        "Concurrent bucket is closed during the pause; it is opened by schedule_concurrent_packets whose true result maps to WakeAll",
}


def variant_of(t):
    t = strip(t)
    if t and t[0] == "agg" and t[1][0] == "adt":
        return t[1][2]
    if t and t[0] == "call" and isinstance(t[1], str):
        return "call:" + last_seg(t[2] or t[1])
    return show(t)


def run(ctx, F):
    # ---- C14.notify-after-publish
    pushers = []
    for q, f in F.fns.items():
        if not q.startswith(WB) or f.kind == "closure":
            continue
        ps = [c for c in live_calls(f) if c.name in ("push", "push_all") and "BucketQueue" in (c.q or "")]
        if ps:
            pushers.append((f, ps))
    ctx.floor("C14.notify-after-publish", len(pushers), 7, "WorkBucket methods that push to a queue")
    for f, ps in pushers:
        nm = last_seg(f.q)
        notifies = [c.bb for c in live_calls(f) if c.name in ("notify_one_worker", "notify_all_workers")]
        if nm.endswith("_no_notify"):
            ctx.judge(not notifies, "C14.notify-after-publish", "%s does not notify (by contract)" % nm, expected="no notification", found=str(notifies), where=where(f),
                      key="C14.notify-after-publish|nn|" + nm)
            cs = callers(F, f.q)
            for c in cs:
                top = c.fn.q
                ctx.judge(top in NO_NOTIFY_CALLERS, "C14.notify-after-publish", "%s <- %s" % (nm, short(top)),
                          expected="no-notify publishers are called only from %s" % [short(x) for x in NO_NOTIFY_CALLERS], found=top,
                          detail=NO_NOTIFY_CALLERS.get(top, ""), where=where(c.fn, c.line), key="C14.notify-after-publish|nncaller|%s|%s" % (nm, top))
            continue
        for p in ps:
            okn = bool(notifies) and f.cfg.must_pass(notifies, start=p.bb, avoid_start=True)
            ctx.judge(okn, "C14.notify-after-publish", "%s notifies after publishing" % nm, expected="every path after queue.push* passes notify_one_worker/notify_all_workers",
                      found="notify blocks %s" % notifies, where=where(f, p.line), key="C14.notify-after-publish|" + nm)
    for nm, allarg in (("notify_one_worker", False), ("notify_all_workers", True)):
        f = F.fn(WB + nm)
        na = live_calls(f, name="notify_work_available")
        okg = len(na) == 1 and const_arg(f.flow.arg_tree(na[0], 1)) is allarg
        ctx.judge(okg, "C14.notify-after-publish", "%s forwards to the monitor" % nm, expected="notify_work_available(%s)" % str(allarg).lower(),
                  found=str([show(strip(f.flow.arg_tree(c, 1))) for c in na]), where=where(f), key="C14.notify-after-publish|fwd|" + nm)
        if na:
            gs = guard_strs(f, na[0].bb)
            oks = all(("is_open" in s or "is_enabled" in s) and s.endswith("True") for s in gs)
            ctx.judge(oks, "C14.notify-after-publish", "%s is suppressed only for closed/disabled buckets" % nm, expected="guards subset of {is_open, is_enabled}",
                      found=str(gs), where=where(f), key="C14.notify-after-publish|guard|" + nm)
    fn_ = F.fn(MON + "notify_work_available")
    n1 = live_calls(fn_, name="notify_one")
    na_ = live_calls(fn_, name="notify_all")
    okm = len(n1) == 1 and len(na_) == 1 and bool(guard_find(fn_, na_[0].bb, r"^arg2$", True)) and bool(guard_find(fn_, n1[0].bb, r"^arg2$", False))
    ctx.judge(okm, "C14.notify-after-publish", "notify_work_available(all) wakes all / one", expected="all=true -> Condvar::notify_all, false -> notify_one",
              found="one=%d all=%d" % (len(n1), len(na_)), where=where(fn_), key="C14.notify-after-publish|monitor")

    # ---- C14.open-then-notify
    fp = F.fn(SCHED + "notify_mutators_paused")
    op = live_calls(fp, q=WB + "open")
    nt = [c for c in live_calls(fp, name="notify_work_available") if const_arg(fp.flow.arg_tree(c, 1)) is True]
    oko = len(op) == 1 and bool(nt) and fp.cfg.must_pass([c.bb for c in nt], start=op[0].bb, avoid_start=True)
    ctx.judge(oko, "C14.open-then-notify", "opening the first STW bucket wakes all workers", expected="notify_work_available(true) on every path after open()",
              found="open=%d notify_all=%d" % (len(op), len(nt)), where=where(fp), key="C14.open-then-notify|first")
    fc = F.fn(SCHED + "schedule_concurrent_packets")
    for c in live_calls(fc, q=WB + "open"):
        rows = ret_table(fc)
        # the arm that opens returns true
        okr = any(const_arg(t) is True and fc.cfg.dominates(c.bb, b) or (const_arg(t) is True and b == c.bb) for b, t, g in rows)
        ctx.judge(okr, "C14.open-then-notify", "schedule_concurrent_packets reports that it opened the Concurrent bucket", expected="returns true on the arm that opens",
                  found=str([(b, show(t)) for b, t, g in rows]), where=where(fc, c.line), key="C14.open-then-notify|concurrent")

    # ---- C14.last-parked-table
    olp = F.fn(SCHED + "on_last_parked")
    rtr = F.fn(SCHED + "respond_to_requests")
    rows = ret_table(olp)

    def gset(g):
        return {(re.sub(r"\(.*$", "", show(p.tree)), str(p.val)) for p in g}
    want_olp = [
        ("WakeAll", {("GCWorkScheduler::find_more_work_for_workers", "True")}, "more work found -> wake all"),
        ("WakeAll", {("GCWorkScheduler::find_more_work_for_workers", "False"), ("GCWorkScheduler::on_gc_finished", "True")}, "concurrent work scheduled -> wake all"),
        ("call:respond_to_requests", {("GCWorkScheduler::find_more_work_for_workers", "False"), ("GCWorkScheduler::on_gc_finished", "False")}, "GC finished -> next request"),
        ("call:respond_to_requests", {("WorkerGoals::current", "None")}, "no goal -> next request"),
    ]
    got = [(variant_of(t), gset(g)) for b, t, g in rows]
    ctx.judge(len(rows) == len(want_olp), "C14.last-parked-table", "on_last_parked has %d outcomes" % len(want_olp), expected="4 rows", found=str([v for v, _ in got]),
              where=where(olp), key="C14.last-parked-table|olp-count")
    for v, need, why in want_olp:
        hit = [1 for (gv, gg) in got if gv == v and need <= gg]
        ctx.judge(bool(hit), "C14.last-parked-table", "on_last_parked: %s" % why, expected="%s under %s" % (v, sorted(need)), found=str([(gv, sorted(gg)) for gv, gg in got])[:400],
                  where=where(olp), key="C14.last-parked-table|olp|" + why)
    # on_current_goal_completed is called exactly when the GC finished
    ogc = live_calls(olp, q=GOALS + "on_current_goal_completed")
    fin = live_calls(olp, name="on_gc_finished")
    okg = (len(ogc) == 1 and len(fin) == 1 and bool(guard_find(olp, ogc[0].bb, r"find_more_work_for_workers", False))
           and olp.cfg.dominates(fin[0].bb, ogc[0].bb) and olp.cfg.must_pass([ogc[0].bb], start=fin[0].bb, avoid_start=True))
    ctx.judge(okg, "C14.last-parked-table", "the Gc goal is completed exactly when the GC finished", expected="on_current_goal_completed after on_gc_finished under !found_more_work",
              found=str([guard_strs(olp, c.bb) for c in ogc])[:300], where=where(olp), key="C14.last-parked-table|complete")
    rrows = ret_table(rtr)
    gotr = [(variant_of(t), gset(g)) for b, t, g in rrows]
    want_r = [("ParkSelf", ("WorkerGoals::poll_next_goal", "None"), "no request -> park"),
              ("WakeSelf", ("WorkerGoals::poll_next_goal as Some.0", "Gc"), "Gc request -> schedule collection and continue"),
              ("WakeAll", ("WorkerGoals::poll_next_goal as Some.0", "('in', ('Shutdown', 'StopForFork'))"), "exit request -> wake all")]
    for v, need, why in want_r:
        hit = [1 for (gv, gg) in gotr if gv == v and any(k[0].replace("(arg3)", "") == need[0] and k[1] == need[1] for k in
                                                         {(re.sub(r"\(arg3\)", "", show(p.tree)), str(p.val)) for b, t, g in rrows if variant_of(t) == v for p in g})]
        ctx.judge(bool(hit), "C14.last-parked-table", "respond_to_requests: %s" % why, expected="%s under %s == %s" % (v, need[0], need[1]),
                  found=str([(gv, sorted(gg)) for gv, gg in gotr])[:400], where=where(rtr), key="C14.last-parked-table|rtr|" + why)
    ctx.judge(len(rrows) == 3, "C14.last-parked-table", "respond_to_requests has 3 outcomes", expected="3 rows", found=str([v for v, _ in gotr]), where=where(rtr),
              key="C14.last-parked-table|rtr-count")
    asc = live_calls(rtr, q=SCHED + "add_schedule_collection_packet")
    oka = len(asc) == 1 and any(p.val == "Gc" for p in guards(rtr, asc[0].bb))
    ctx.judge(oka, "C14.last-parked-table", "a Gc request schedules ScheduleCollection", expected="add_schedule_collection_packet on the Gc arm", found=str(len(asc)),
              where=where(rtr), key="C14.last-parked-table|schedule")
    # park_and_wait reactions
    pw = F.fn(MON + "park_and_wait")
    cb = [c for c in live_calls(pw) if c.name == "call_once"]
    ctx.require(len(cb) == 1, "C14.last-parked-table: callback invocation not found in park_and_wait")
    waits = live_calls(pw, name="wait")
    nall = [c for c in live_calls(pw, name="notify_work_available") if const_arg(pw.flow.arg_tree(c, 1)) is True]
    okw = len(waits) == 1
    ctx.judge(okw, "C14.last-parked-table", "park_and_wait has one Condvar::wait", expected="1", found=str(len(waits)), where=where(pw), key="C14.last-parked-table|wait-site")
    if okw:
        w = waits[0]
        sw = bool_switches_on(pw, r"^phi\(|True|False")
        alts = None
        for p in guards(pw, w.bb):
            alts = pw.flow.switch_alternatives(p.bb)
            if alts and len(alts) >= 2:
                break
        # should_wait definitions: (block, const) with guards
        tbl = []
        for b, t in (alts or []):
            if b is None:
                continue
            v = const_arg(t)
            g = guards(pw, b)
            res = [p.val for p in g if isinstance(p.val, str) and p.val in ("ParkSelf", "WakeSelf", "WakeAll")]
            ap = [p.val for p in g if "inc_parked_workers" in show(p.tree)]
            tbl.append((v, res, ap))
        def has(v, res=None, ap=None):
            return any(r[0] is v and (res is None or res in r[1]) and (ap is None or ap in r[2]) for r in tbl)
        ctx.judge(has(True, "ParkSelf"), "C14.last-parked-table", "ParkSelf -> the last parked worker waits", expected="should_wait = true on the ParkSelf arm", found=str(tbl),
                  where=where(pw, w.line), key="C14.last-parked-table|parkself")
        ctx.judge(has(True, None, False), "C14.last-parked-table", "a worker that is not the last one waits", expected="should_wait = true when !all_parked", found=str(tbl),
                  where=where(pw, w.line), key="C14.last-parked-table|notlast")
        ctx.judge(not has(True, "WakeSelf") and not has(True, "WakeAll"), "C14.last-parked-table", "WakeSelf/WakeAll -> the last parked worker does not wait",
                  expected="should_wait stays false on these arms", found=str(tbl), where=where(pw, w.line), key="C14.last-parked-table|nowait")
    okn = bool(nall) and all(any(p.val == "WakeAll" for p in guards(pw, c.bb)) for c in nall)
    ctx.judge(okn, "C14.last-parked-table", "WakeAll -> notify all workers", expected="notify_work_available(true) on the WakeAll arm", found=str([guard_strs(pw, c.bb) for c in nall])[:300],
              where=where(pw), key="C14.last-parked-table|wakeall")
    inc = live_calls(pw, name="inc_parked_workers")
    dec = live_calls(pw, name="dec_parked_workers")
    mn, mx = pw.cfg.path_counts([c.bb for c in dec])
    okp = len(inc) == 1 and (mn, mx) == (1, 1) and pw.cfg.dominates(inc[0].bb, dec[0].bb) if dec else False
    ctx.judge(bool(okp), "C14.last-parked-table", "parked-worker counter is incremented once and decremented once on every path", expected="inc;...;dec paired",
              found="inc=%d dec-per-path=(%s,%s)" % (len(inc), mn, mx), where=where(pw), key="C14.last-parked-table|paired")
    locks = live_calls(pw, name="lock")
    ctx.judge(bool(locks) and pw.cfg.dominates(locks[0].bb, cb[0].bb) and pw.cfg.dominates(locks[0].bb, inc[0].bb if inc else 0), "C14.last-parked-table",
              "counter update and callback run under the monitor mutex", expected="Mutex::lock dominates both", found=str([c.line for c in locks]), where=where(pw),
              key="C14.last-parked-table|lock")

    # ---- C14.goals-under-lock
    check_callers(ctx, F, "C14.goals-under-lock", GOALS + "set_request", {MON + "make_request": "under self.sync.lock()"})
    check_callers(ctx, F, "C14.goals-under-lock", GOALS + "poll_next_goal", {SCHED + "respond_to_requests": "inside the last-parked callback (mutex held by park_and_wait)"})
    check_callers(ctx, F, "C14.goals-under-lock", GOALS + "on_current_goal_completed", {
        SCHED + "on_last_parked": "inside the last-parked callback (mutex held)", MON + "on_all_workers_exited": "under try_lock().unwrap()"}, min_sites=2)
    # who may change the pending-request table and the current goal (a request erased by anyone but the poller is lost)
    gadt = "scheduler::worker_goals::WorkerGoals"
    wreq = field_mutators(F, gadt, "requests")
    okw = set(wreq) == {GOALS + "set_request", GOALS + "poll_next_goal"}
    ctx.judge(okw, "C14.goals-under-lock", "mutators of WorkerGoals.requests", expected="{set_request (records), poll_next_goal (takes the one it returns)}",
              found=str(sorted(wreq)), key="C14.goals-under-lock|writers-requests")
    wcur = field_mutators(F, gadt, "current")
    okc = set(wcur) == {GOALS + "poll_next_goal", GOALS + "on_current_goal_completed"}
    ctx.judge(okc, "C14.goals-under-lock", "mutators of WorkerGoals.current", expected="{poll_next_goal, on_current_goal_completed}", found=str(sorted(wcur)),
              key="C14.goals-under-lock|writers-current")
    check_poll_clears_one(ctx, F, "C14.goals-under-lock")
    png = F.fn(GOALS + "poll_next_goal")
    sr_ = F.fn(GOALS + "set_request")
    sets = [(bb, pl, t) for (bb, j, pl, t) in stores(sr_)]
    direct = [t for bb, pl, t in sets if "index_mut" in show(strip(sr_.flow.place_tree(pl, bb, 0)))]
    repl = [c for c in live_calls(sr_) if c.name == "replace" and c.q and c.q.endswith("mem::replace") and "requests" in show(strip(sr_.flow.arg_tree(c, 0)))]
    oksr = (bool(direct) or bool(repl)) and all(const_arg(t) is True for t in direct) and all(const_arg(sr_.flow.arg_tree(c, 1)) is True for c in repl)
    ctx.judge(oksr, "C14.goals-under-lock", "set_request only ever sets a request", expected="stores true (directly or with mem::replace(.., true))", found=str([show(t) for t in direct] + [show(strip(sr_.flow.arg_tree(c, 1))) for c in repl]),
              where=where(sr_), key="C14.goals-under-lock|set-true")
    mr = F.fn(MON + "make_request")
    nt = live_calls(mr, name="notify_work_available")
    okm = len(nt) == 1 and len(sig(mr, nt[0].bb)) == 1 and bool(sig_find(mr, nt[0].bb, r"set_request", True))
    lk = live_calls(mr, name="lock")
    sr = live_calls(mr, q=GOALS + "set_request")
    okm = okm and bool(lk) and bool(sr) and mr.cfg.dominates(lk[0].bb, sr[0].bb)
    ctx.judge(okm, "C14.goals-under-lock", "make_request records the request under the lock and notifies iff newly requested",
              expected="lock; set_request; notify_work_available guarded exactly by the result", found=str([sig_strs(mr, c.bb) for c in nt]), where=where(mr),
              key="C14.goals-under-lock|make_request")
    for q in (SCHED + "request_schedule_collection", SCHED + "stop_gc_threads_for_forking", SCHED + "shutdown_gc_threads"):
        f = F.fn(q)
        ctx.judge(bool(live_calls(f, q=MON + "make_request")) and f.cfg.must_pass([c.bb for c in live_calls(f, q=MON + "make_request")]), "C14.goals-under-lock",
                  "%s posts its goal through make_request" % last_seg(q), expected="make_request on every path", found="missing", where=where(f),
                  key="C14.goals-under-lock|post|" + q)

    # ---- C14.request-flag
    trig = "util::heap::gc_trigger::GCTrigger::"
    writers = {}
    for f in F.fns.values():
        for cs in live_calls(f):
            if cs.name in ("store", "swap", "fetch_or", "fetch_and", "compare_exchange", "fetch_update") and cs.args:
                r = show(strip(f.flow.arg_tree(cs, 0)))
                if r.endswith(".request_flag"):
                    writers.setdefault(f.q, []).append(cs)
    okw = set(writers) == {trig + "request", trig + "clear_request"}
    ctx.judge(okw, "C14.request-flag", "writers of GCTrigger.request_flag", expected="{request, clear_request}", found=str(sorted(writers)), key="C14.request-flag|writers")
    rq = F.fn(trig + "request")
    rs = live_calls(rq, q=SCHED + "request_schedule_collection")
    okq = len(rs) == 1 and bool(guard_find(rq, rs[0].bb, r"swap\(.*request_flag, True", False))
    ctx.judge(okq, "C14.request-flag", "request schedules a collection iff it flipped the flag", expected="request_schedule_collection guarded by swap(true) == false",
              found=str([guard_strs(rq, c.bb) for c in rs]), where=where(rq), key="C14.request-flag|swap")
    cl = F.fn(trig + "clear_request")
    for cs in writers.get(cl.q, []):
        ctx.judge(const_arg(cl.flow.arg_tree(cs, 1)) is False and cl.cfg.must_pass([cs.bb]), "C14.request-flag", "clear_request stores false", expected="store(false) on every path",
                  found=show(strip(cl.flow.arg_tree(cs, 1))), where=where(cl), key="C14.request-flag|clear")
    check_callers(ctx, F, "C14.request-flag", cl.q, {SCHED + "notify_mutators_paused": "once mutators have stopped: a later request starts a new GC"})
    ccs = live_calls(fp, q=cl.q)
    ctx.judge(bool(ccs) and fp.cfg.must_pass([c.bb for c in ccs]), "C14.request-flag", "notify_mutators_paused always clears the request", expected="clear_request on every path",
              found=str(len(ccs)), where=where(fp), key="C14.request-flag|clear-path")
    sm = F.fn("<scheduler::gc_work::StopMutators as scheduler::work::GCWork>::do_work")
    nmp = live_calls(sm, q=fp.q)
    ctx.judge(bool(nmp) and sm.cfg.must_pass([c.bb for c in nmp]), "C14.request-flag", "every GC re-arms the trigger", expected="StopMutators::do_work reaches GCWorkScheduler::notify_mutators_paused on every path",
              found=str(len(nmp)), where=where(sm), key="C14.request-flag|rearm")

    # ---- C14.exit-goals-terminal
    rows = ret_table(pw)
    for b, t, g in rows:
        v = variant_of(t)
        if v == "Err":
            vals = [str(p.val) for p in g if "WorkerGoals::current" in show(p.tree)]
            oke = any("1" in x and "2" in x or ("Shutdown" in x and "StopForFork" in x) for x in vals)
            goal_enum = F.enum_variants("scheduler::worker_goals::WorkerGoal") or {}
            ctx.judge(oke and goal_enum.get(1) == "Shutdown" and goal_enum.get(2) == "StopForFork", "C14.exit-goals-terminal", "park_and_wait returns Err only for exit goals",
                      expected="Err(WorkerShouldExit) guarded by current goal in {Shutdown, StopForFork}", found=str(vals), where=where(pw), key="C14.exit-goals-terminal|err")
    run = F.fn("scheduler::worker::GCWorker::run")
    sur = live_calls(run, name="surrender_gc_worker")
    ctx.judge(len(sur) == 1 and bool(guard_find(run, sur[0].bb, r"GCWorker::poll", "Err")), "C14.exit-goals-terminal", "a worker leaves its loop only when poll() returned Err",
              expected="loop exit guarded by poll() == Err", found=str([guard_strs(run, c.bb) for c in sur]), where=where(run), key="C14.exit-goals-terminal|run")
    ps = F.fn(SCHED + "poll_slow")
    rows = ret_table(ps)
    errs = [(b, t, g) for b, t, g in rows if "Err" in show(t) or "from_residual" in show(t)]
    ctx.judge(all(any("park_and_wait" in show(p.tree) for p in g) or "park_and_wait" in show(t) for b, t, g in errs) and bool(errs), "C14.exit-goals-terminal",
              "poll_slow propagates only park_and_wait's Err", expected="Err originates from park_and_wait(..)?", found=str([show(t)[:80] for b, t, g in errs]), where=where(ps),
              key="C14.exit-goals-terminal|poll_slow")
