"""Path-sensitive reachability under an assignment of named boolean atoms.

Guard rules written against one syntactic arrangement of a condition (`if !a || b { X }`) break on every equivalent
arrangement (`if a && !b { return } X`, a named temporary, a guard clause, an extracted helper). This module decides the same
question semantically: fix the truth value of a few *atoms* (a field load or a call result, recognised by a regex on its origin
tree), walk the abort-free CFG from a start block while propagating the boolean locals whose value follows from the atoms
(constants, copies, negations, the atoms themselves - per path, so short-circuit temporaries need no special treatment), take
only the edge a decided switch allows, and report which blocks can still be reached. Atoms that are not assigned, and every
other condition, stay free (both edges are explored). No code is executed; this is constant propagation along paths."""
import re
from ..engine import show, strip


class PathEval:
    def __init__(self, fn, atoms):
        self.fn = fn
        self.atoms = {k: re.compile(v) for k, v in atoms.items()}

    def _atom(self, s):
        for k, rx in self.atoms.items():
            if rx.search(s):
                return k
        return None

    def _stmt(self, st, bb, j, env, assign):
        if st[0] != "=" or len(st[1]) != 1:
            return
        l = st[1][0]
        rv = st[2]
        val = None
        k = rv[0]
        if k == "use":
            op = rv[1]
            if op[0] == "k" and isinstance(op[1], dict) and isinstance(op[1].get("v"), bool):
                val = op[1]["v"]
            elif op[0] in ("c", "m"):
                pl = op[1]
                if len(pl) == 1:
                    val = env.get(pl[0])
                else:
                    a = self._atom(show(strip(self.fn.flow.rvalue_tree(rv, bb, j))))
                    if a is not None and a in assign:
                        val = assign[a]
        elif k == "discr":
            # discriminant of an enum-valued atom: the assignment gives the variant's discriminant (an int)
            a = self._atom(show(strip(self.fn.flow.rvalue_tree(rv, bb, j))))
            if a is not None and a in assign and not isinstance(assign[a], bool):
                env[l] = assign[a]
                return
        elif k == "un" and rv[1] == "Not" and rv[2][0] in ("c", "m") and len(rv[2][1]) == 1:
            v = env.get(rv[2][1][0])
            val = (not v) if isinstance(v, bool) else None
        elif k == "bin" and rv[1] in ("Eq", "Ne"):
            def side(o):
                if o[0] == "k" and isinstance(o[1], dict) and isinstance(o[1].get("v"), bool):
                    return o[1]["v"]
                if o[0] in ("c", "m") and len(o[1]) == 1:
                    return env.get(o[1][0])
                return None
            a, b = side(rv[2]), side(rv[3])
            if isinstance(a, bool) and isinstance(b, bool):
                val = (a == b) if rv[1] == "Eq" else (a != b)
        if isinstance(val, (bool, int)):
            env[l] = val
        else:
            env.pop(l, None)

    def explore(self, start_bb, assign, env=None, skip_start_stmts=False):
        """Blocks reachable from start_bb (inclusive) under `assign` (atom -> bool)."""
        fn = self.fn
        live = fn.cfg.live
        seen_states = set()
        visited = set()
        work = [(start_bb, dict(env or {}), skip_start_stmts)]
        steps = 0
        while work and steps < 20000:
            steps += 1
            bb, e, skip = work.pop()
            key = (bb, frozenset(e.items()))
            if key in seen_states or bb not in live:
                continue
            seen_states.add(key)
            visited.add(bb)
            blk = fn.blocks[bb]
            if not skip:
                for j, st in enumerate(blk["s"]):
                    self._stmt(st, bb, j, e, assign)
            t = blk.get("t") or {}
            k = t.get("k")
            nxt = []
            if k == "goto":
                nxt = [t["t"]]
            elif k == "call":
                d = t.get("d")
                if d is not None and len(d) == 1:
                    a = self._atom(show(strip(fn.flow.call_tree(bb, t))))
                    if a is not None and a in assign:
                        e[d[0]] = assign[a]
                    else:
                        e.pop(d[0], None)
                if t.get("t") is not None:
                    nxt = [t["t"]]
            elif k == "switch":
                op = t["d"]
                v = e.get(op[1][0]) if op[0] in ("c", "m") and len(op[1]) == 1 else None
                if isinstance(v, bool) or isinstance(v, int):
                    want = (1 if v else 0) if isinstance(v, bool) else v
                    tgt = [b for val, b in t["arms"] if val == want]
                    nxt = tgt[:1] if tgt else [t.get("else")]
                else:
                    nxt = [b for _, b in t["arms"]] + [t.get("else")]
            elif k in ("drop", "assert"):
                nxt = [t.get("t")]
            elif k == "asm":
                nxt = list(t.get("ts", []))
            for n in nxt:
                if n is not None and n in live:
                    work.append((n, dict(e), False))
        return visited

    def after_call(self, cs, assign, result=None):
        """Blocks reachable after call site `cs` returned; `result` fixes the call's own boolean result."""
        t = self.fn.blocks[cs.bb]["t"]
        env = {}
        if result is not None and t.get("d") is not None and len(t["d"]) == 1:
            env[t["d"][0]] = result
        if t.get("t") is None:
            return set()
        return self.explore(t["t"], assign, env)


def reachable_calls(fn, blocks, name):
    return [c for c in fn.calls if c.bb in blocks and c.bb in fn.cfg.live and c.name == name]
