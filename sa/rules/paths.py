"""Path-sensitive reachability under an assignment of named boolean atoms.

Guard rules written against one syntactic arrangement of a condition (`if !a || b { X }`) break on every equivalent
arrangement (`if a && !b { return } X`, a named temporary, a guard clause, an extracted helper). This module decides the same
question semantically: fix the truth value of a few *atoms* (a field load or a call result, recognised by a regex on its origin
tree), walk the abort-free CFG from a start block while propagating the boolean locals whose value follows from the atoms
(constants, copies, negations, the atoms themselves - per path, so short-circuit temporaries need no special treatment), take
only the edge a decided switch allows, and report which blocks can still be reached. Atoms that are not assigned, and every
other condition, stay free (both edges are explored). No code is executed; this is constant propagation along paths."""
import re
from ..engine import show, strip, _variants_for


class PathEval:
    def __init__(self, fn, atoms):
        self.fn = fn
        self.atoms = {k: re.compile(v) for k, v in atoms.items()}

    def _atom(self, s):
        for k, rx in self.atoms.items():
            if rx.search(s):
                return k
        return None

    def _stmt(self, st, bb, j, env, assign):
        if st[0] == "=" and len(st[1]) > 1:
            env.pop(("v", st[1][0]), None)   # a write into part of the local: its variant is no longer known
            return
        if st[0] != "=" or len(st[1]) != 1:
            return
        l = st[1][0]
        rv = st[2]
        val = None
        k = rv[0]
        if k in ("ref", "rawptr") and str(rv[1]).lower() in ("mut",):
            env.pop(("v", rv[2][0]), None)   # a mutable borrow may change the variant behind our back (e.g. Option::take)
        if k == "use":
            op = rv[1]
            if op[0] == "k" and isinstance(op[1], dict) and isinstance(op[1].get("v"), bool):
                val = op[1]["v"]
            elif op[0] in ("c", "m"):
                pl = op[1]
                if len(pl) == 1:
                    val = env.get(pl[0])
                    if ("v", pl[0]) in env:
                        env[("v", l)] = env[("v", pl[0])]
                        env.pop(l, None)
                        return
                else:
                    a = self._atom(show(strip(self.fn.flow.rvalue_tree(rv, bb, j))))
                    if a is not None and a in assign:
                        val = assign[a]
        elif k == "agg" and isinstance(rv[1], dict) and rv[1].get("k") == "adt" and rv[1].get("variant"):
            # a local built as a known enum variant: remember the variant's discriminant under the key ("v", local)
            vs = _variants_for(self.fn.facts, rv[1].get("adt"))
            d = [dv for dv, nm in (vs or {}).items() if nm == rv[1]["variant"]]
            if len(d) == 1 and isinstance(d[0], int):
                env[("v", l)] = d[0]
            else:
                env.pop(("v", l), None)
            env.pop(l, None)
            return
        elif k == "discr":
            # discriminant of an enum-valued atom: the assignment gives the variant's discriminant (an int)
            a = self._atom(show(strip(self.fn.flow.rvalue_tree(rv, bb, j))))
            if a is not None and a in assign and not isinstance(assign[a], bool):
                env[l] = assign[a]
                return
            # discriminant of a local whose variant is known on this path
            if len(rv[1]) == 1 and ("v", rv[1][0]) in env:
                env[l] = env[("v", rv[1][0])]
                return
        elif k == "un" and rv[1] == "Not" and rv[2][0] in ("c", "m") and len(rv[2][1]) == 1:
            v = env.get(rv[2][1][0])
            val = (not v) if isinstance(v, bool) else None
        elif k == "bin" and rv[1] in ("Eq", "Ne"):
            def side(o):
                if o[0] == "k" and isinstance(o[1], dict) and isinstance(o[1].get("v"), bool):
                    return o[1]["v"]
                if o[0] in ("c", "m") and len(o[1]) == 1:
                    return env.get(o[1][0])
                return None
            a, b = side(rv[2]), side(rv[3])
            if isinstance(a, bool) and isinstance(b, bool):
                val = (a == b) if rv[1] == "Eq" else (a != b)
        env.pop(("v", l), None)
        if isinstance(val, (bool, int)):
            env[l] = val
        else:
            env.pop(l, None)

    def explore(self, start_bb, assign, env=None, skip_start_stmts=False):
        """Blocks reachable from start_bb (inclusive) under `assign` (atom -> bool)."""
        fn = self.fn
        live = fn.cfg.live
        seen_states = set()
        visited = set()
        work = [(start_bb, dict(env or {}), skip_start_stmts)]
        steps = 0
        while work and steps < 20000:
            steps += 1
            bb, e, skip = work.pop()
            key = (bb, frozenset(e.items()))
            if key in seen_states or bb not in live:
                continue
            seen_states.add(key)
            visited.add(bb)
            blk = fn.blocks[bb]
            if not skip:
                for j, st in enumerate(blk["s"]):
                    self._stmt(st, bb, j, e, assign)
            nxt = self._succ(blk, bb, e, assign)
            for n in nxt:
                if n is not None and n in live:
                    work.append((n, dict(e), False))
        return visited

    def path_counts(self, weights, end_bb, assign=None, start_bb=0, cap=4):
        """(min, max) number of weighted blocks passed on the feasible paths from start_bb to end_bb (inclusive), where a path is
        feasible if every switch on a value known on that path (atoms of `assign`, booleans and enum variants built along the
        path) takes the matching edge. None if end_bb is not reached. Counts above `cap` are reported as cap."""
        fn = self.fn
        live = fn.cfg.live
        assign = assign or {}
        seen = set()
        res = []
        work = [(start_bb, {}, 0)]
        steps = 0
        while work and steps < 200000:
            steps += 1
            bb, e, n = work.pop()
            if bb not in live:
                continue
            n = min(cap, n + (1 if bb in weights else 0))
            key = (bb, frozenset(e.items()), n)
            if key in seen:
                continue
            seen.add(key)
            blk = fn.blocks[bb]
            for j, st in enumerate(blk["s"]):
                self._stmt(st, bb, j, e, assign)
            if bb == end_bb:
                res.append(n)
                continue
            for nx in self._succ(blk, bb, e, assign):
                if nx is not None and nx in live:
                    work.append((nx, dict(e), n))
        if not res:
            return None
        return (min(res), max(res))

    def _succ(self, blk, bb, e, assign):
        fn = self.fn
        t = blk.get("t") or {}
        k = t.get("k")
        if k == "goto":
            return [t["t"]]
        if k == "call":
            d = t.get("d")
            if d is not None and len(d) == 1:
                a = self._atom(show(strip(fn.flow.call_tree(bb, t))))
                if a is not None and a in assign:
                    e[d[0]] = assign[a]
                else:
                    e.pop(d[0], None)
            if d is not None:
                e.pop(("v", d[0]), None)
                if len(d) == 1:
                    self._std_enum_call(t, d[0], e)
            return [t["t"]] if t.get("t") is not None else []
        if k == "switch":
            op = t["d"]
            v = e.get(op[1][0]) if op[0] in ("c", "m") and len(op[1]) == 1 else None
            if isinstance(v, bool) or isinstance(v, int):
                want = (1 if v else 0) if isinstance(v, bool) else v
                tgt = [b for val, b in t["arms"] if val == want]
                return tgt[:1] if tgt else [t.get("else")]
            return [b for _, b in t["arms"]] + [t.get("else")]
        if k in ("drop", "assert"):
            return [t.get("t")]
        if k == "asm":
            return list(t.get("ts", []))
        return []

    @staticmethod
    def _std_enum_call(t, d, e):
        """The two calls the `?` operator desugars to have a result variant that follows from the types alone:
        `from_residual` builds None / Err; `Try::branch` maps Some/Ok to Continue(0) and None/Err to Break(1)."""
        f = t.get("f")
        c = f[1].get("fn") if isinstance(f, list) and f and f[0] == "k" and isinstance(f[1], dict) else None
        if not c:
            return
        head = c.get("recv_head")
        if c.get("q") == "std::ops::FromResidual::from_residual":
            if head == "std::option::Option":
                e[("v", d)] = 0
            elif head == "std::result::Result":
                e[("v", d)] = 1
        elif c.get("q") == "std::ops::Try::branch" and t.get("a"):
            a = t["a"][0]
            if isinstance(a, list) and a and a[0] in ("c", "m") and len(a[1]) == 1 and ("v", a[1][0]) in e:
                v = e[("v", a[1][0])]
                if head == "std::option::Option":
                    e[("v", d)] = 0 if v == 1 else 1
                elif head == "std::result::Result":
                    e[("v", d)] = 0 if v == 0 else 1

    def after_call(self, cs, assign, result=None):
        """Blocks reachable after call site `cs` returned; `result` fixes the call's own boolean result."""
        t = self.fn.blocks[cs.bb]["t"]
        env = {}
        if result is not None and t.get("d") is not None and len(t["d"]) == 1:
            env[t["d"][0]] = result
        if t.get("t") is None:
            return set()
        return self.explore(t["t"], assign, env)


def reachable_calls(fn, blocks, name):
    return [c for c in fn.calls if c.bb in blocks and c.bb in fn.cfg.live and c.name == name]
