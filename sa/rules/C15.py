"""C15 STW stages open in order; each packet runs exactly once (DESIGN.md 4/C15)."""
import re
from .common import *
from .sched import *
from .plans import consts_of_type
from ..engine import AnalysisError, show, strip, short, walk, last_seg, tree_calls

PROP = "C15"
LEVEL = "other"
QUICK = ["K0", "K1"]
THOROUGH = ALL_CONFIGS
ASSUMPTIONS = ["crossbeam deque/injector correctness (a pushed packet is stolen/popped exactly once) is trusted",
               "actual worker interleavings are not explored; the rules decide who may open/close buckets and under which conditions"]
EXPLANATION = (
    "Structural necessary conditions for ordered bucket opening and run-once packets: census of every caller of WorkBucket::open "
    "and ::close with the stage constant each passes; WorkBucket::update opens only under !is_open() && can_open(scheduler) and is "
    "reached only from the last-parked path; in GCWorkScheduler::new every sequentially opened stage gets an open condition that "
    "is are_buckets_drained(<clone of the stages accumulated so far>) where the accumulator starts with FIRST_STW_STAGE and the "
    "stage is pushed only after the clone; are_buckets_drained/is_drained have the shape all(!enabled || (open && empty)); the "
    "GC-finishing function closes all STW buckets before resuming; in GCWorker::run each polled packet gets exactly one "
    "do_work_with_stat; census of direct GCWork::do_work callers (only on packets constructed in the same function)."
)
WB = "scheduler::work_bucket::WorkBucket::"
SCHED = "scheduler::scheduler::GCWorkScheduler::"


def run(ctx, F):
    # ---- C15.open-callers
    opens = check_callers(ctx, F, "C15.open-callers", WB + "open", {
        WB + "update": "opens itself when its open condition holds",
        SCHED + "notify_mutators_paused": "opens the first STW stage after mutators stopped",
        SCHED + "schedule_concurrent_packets": "opens the Concurrent bucket at the end of the initial pause"}, min_sites=3)
    for cs in opens:
        f = cs.fn
        recv = strip(f.flow.arg_tree(cs, 0))
        if f.q == SCHED + "notify_mutators_paused":
            okc = "FIRST_STW_STAGE" in show(recv)
            ctx.judge(okc, "C15.open-callers", "notify_mutators_paused opens only FIRST_STW_STAGE", expected="receiver is work_buckets[FIRST_STW_STAGE]",
                      found=show(recv), where=where(f, cs.line), key="C15.open-callers|first")
        elif f.q == SCHED + "schedule_concurrent_packets":
            okc = "Concurrent" in show(recv) and "WorkBucketStage" in show(recv)
            ctx.judge(okc, "C15.open-callers", "schedule_concurrent_packets opens only the Concurrent bucket", expected="receiver is work_buckets[Concurrent]",
                      found=show(recv), where=where(f, cs.line), key="C15.open-callers|concurrent")
        elif f.q == WB + "update":
            g1 = guard_find(f, cs.bb, r"WorkBucket::is_open\(arg1\)", False)
            g2 = [p for p in guards(f, cs.bb) if p.val is True and "can_open" in show(p.tree) and "arg2" in show(p.tree)]
            ctx.judge(bool(g1) and bool(g2), "C15.open-callers", "WorkBucket::update opens only when closed and its condition holds",
                      expected="open() dominated by !self.is_open() and can_open(scheduler)==true", found=str(guard_strs(f, cs.bb)), where=where(f, cs.line),
                      key="C15.open-callers|update-guard")
    check_callers(ctx, F, "C15.open-callers", WB + "update", {SCHED + "update_buckets": "last-parked path"})
    check_callers(ctx, F, "C15.open-callers", SCHED + "update_buckets", {SCHED + "find_more_work_for_workers": "last-parked path"})
    fm = F.fn(SCHED + "find_more_work_for_workers")
    check_callers(ctx, F, "C15.open-callers", fm.q, {SCHED + "on_last_parked": "callback run by the last parked worker"})
    # writers of the `open` flag
    for f in F.fns.values():
        if not f.q.startswith("scheduler::"):
            continue
        for cs in live_calls(f, name="store"):
            r = show(strip(f.flow.arg_tree(cs, 0)))
            if r.endswith(".open") and "AtomicBool" in (cs.q or ""):
                ctx.judge(f.q in (WB + "open", WB + "close"), "C15.open-callers", "writer of WorkBucket.open: %s" % short(f.q),
                          expected="only WorkBucket::open/close store to the open flag", found=f.q, where=where(f, cs.line), key="C15.open-callers|writer|" + f.q)
    # update_buckets skips only always-open and disabled buckets
    fu = F.fn(SCHED + "update_buckets")
    for cs in live_calls(fu, name="update"):
        gs = guard_strs(fu, cs.bb)
        okg = any("is_always_open" in s and s.endswith("False") for s in gs) and any("is_enabled" in s and s.endswith("True") for s in gs)
        ctx.judge(okg, "C15.open-callers", "update_buckets tries every enabled, not-always-open stage", expected="guards: !is_always_open && is_enabled",
                  found=str(gs), where=where(fu, cs.line), key="C15.open-callers|update_buckets")

    # ---- C15.open-condition
    fn = F.fn(SCHED + "new")
    soc = live_calls(fn, name="set_open_condition")
    ctx.judge(len(soc) == 1, "C15.open-condition", "one set_open_condition site in GCWorkScheduler::new", expected="1", found=str(len(soc)), where=where(fn),
              key="C15.open-condition|site")
    # FIRST_STW_STAGE seeds the accumulator
    seeds = [1 for b in fn.blocks for st in b["s"] if st[0] == "=" and "FIRST_STW_STAGE" in str(st[2])]
    ctx.judge(bool(seeds), "C15.open-condition", "the accumulator of earlier stages starts with FIRST_STW_STAGE", expected="vec![FIRST_STW_STAGE]",
              found="constant not referenced", where=where(fn), key="C15.open-condition|seed")
    for cs in soc:
        g = guard_find(fn, cs.bb, r"is_sequentially_opened", True)
        ctx.judge(bool(g), "C15.open-condition", "open condition installed for every sequentially opened stage", expected="guarded by stage.is_sequentially_opened()",
                  found=str(guard_strs(fn, cs.bb)), where=where(fn, cs.line), key="C15.open-condition|guard")
        clo_t = strip(fn.flow.arg_tree(cs, 1))
        okclo = clo_t and clo_t[0] == "agg" and clo_t[1][0] == "closure"
        ctx.require(okclo, "C15.open-condition: open condition is not a closure literal")
        caps = [show(x) for x in clo_t[2]]
        clone_cap = [c for c in caps if "Clone>::clone" in c]
        ctx.judge(len(clone_cap) == 1, "C15.open-condition", "the condition captures a clone of the accumulated stages", expected="cur_stages = open_stages.clone()",
                  found=str(caps)[:200], where=where(fn, cs.line), key="C15.open-condition|clone")
        # the push of the current stage comes after the clone and on every path of the iteration
        pushes = [c for c in live_calls(fn, name="push") if "Vec" in (c.q or "")]
        clones = [c for c in live_calls(fn, name="clone") if "Vec" in (c.res or c.q or "")]
        okp = len(pushes) == 1 and len(clones) == 1 and fn.cfg.dominates(clones[0].bb, pushes[0].bb) and fn.cfg.dominates(cs.bb, pushes[0].bb)
        ctx.judge(okp, "C15.open-condition", "current stage is pushed only after its condition captured the earlier stages",
                  expected="open_stages.clone() dominates set_open_condition dominates open_stages.push(stage)",
                  found="pushes=%s clones=%s" % ([c.line for c in pushes], [c.line for c in clones]), where=where(fn, cs.line), key="C15.open-condition|order")
        if pushes:
            pv = show(strip(fn.flow.arg_tree(pushes[0], 1)))
            sv = show(strip(fn.flow.arg_tree(cs, 0)))
            ctx.judge(pv in sv, "C15.open-condition", "the pushed stage is the stage whose bucket got the condition", expected="same stage value",
                      found="push(%s) vs bucket %s" % (pv[-60:], sv[-80:]), where=where(fn, pushes[0].line), key="C15.open-condition|same-stage")
            g2 = guard_find(fn, pushes[0].bb, r"is_sequentially_opened", True)
            ctx.judge(bool(g2), "C15.open-condition", "only sequentially opened stages are accumulated", expected="push guarded by is_sequentially_opened()",
                      found=str(guard_strs(fn, pushes[0].bb)), where=where(fn, pushes[0].line), key="C15.open-condition|push-guard")
        clo = F.fn(clo_t[1][1])
        ab = live_calls(clo, name="are_buckets_drained")
        rets = [show(strip(t)) for r, t in clo.flow.return_trees()]
        okr = len(ab) == 1 and all("are_buckets_drained" in r for r in rets) and "cur_stages" in show(strip(clo.flow.arg_tree(ab[0], 1)))
        ctx.judge(okr, "C15.open-condition", "open condition = are_buckets_drained(cur_stages)", expected="closure returns scheduler.are_buckets_drained(&cur_stages)",
                  found=str(rets), where=where(clo), key="C15.open-condition|body")
    fa = F.fn(SCHED + "are_buckets_drained")
    alls = [c for c in live_calls(fa) if c.name == "all"]
    ctx.judge(len(alls) == 1, "C15.open-condition", "are_buckets_drained quantifies over all given stages", expected="Iterator::all", found=str(len(alls)), where=where(fa),
              key="C15.open-condition|all")
    for c in closures_of(F, fa):
        names = {x.name for x in live_calls(c)}
        rt = [show(strip(t)) for r, t in c.flow.return_trees()]
        okc = {"is_enabled", "is_drained"} <= names
        ctx.judge(okc, "C15.open-condition", "per-stage predicate is !enabled || drained", expected="calls is_enabled and is_drained", found=str(sorted(names)), where=where(c),
                  key="C15.open-condition|pred")
    fd = F.fn(WB + "is_drained")
    names = {x.name for x in live_calls(fd)}
    ctx.judge({"is_enabled", "is_open", "is_empty"} <= names, "C15.open-condition", "is_drained = !enabled || (open && empty)", expected="uses is_enabled, is_open, is_empty",
              found=str(sorted(names)), where=where(fd), key="C15.open-condition|is_drained")
    e_open = guard_find(fd, [c for c in live_calls(fd, name="is_empty")][0].bb, r"is_open", True) if live_calls(fd, name="is_empty") else []
    ctx.judge(bool(e_open), "C15.open-condition", "a closed bucket is never considered drained", expected="is_empty() consulted only when is_open()", found="no such guard",
              where=where(fd), key="C15.open-condition|closed-not-drained")

    # a pending sentinel is work of an earlier (open) bucket: it is turned into a packet before any later bucket may open
    ff = F.fn("scheduler::scheduler::GCWorkScheduler::find_more_work_for_workers")
    sch = live_calls(ff, name="schedule_sentinels")
    upd = live_calls(ff, name="update_buckets")
    oko = len(sch) == 1 and len(upd) == 1 and ff.cfg.dominates(sch[0].bb, upd[0].bb) and bool(guard_find(ff, upd[0].bb, r"schedule_sentinels", False))
    ctx.judge(oko, "C15.open-condition", "later buckets are considered only when no open bucket has a pending sentinel",
              expected="schedule_sentinels() evaluated first; update_buckets() only when it returned false (an earlier bucket with a sentinel is not empty)",
              found="guards of update_buckets: %s" % (guard_strs(ff, upd[0].bb) if upd else "missing"), where=where(ff), key="C15.open-condition|sentinel-first")

    # ---- C15.close-at-end
    closes = check_callers(ctx, F, "C15.close-at-end", WB + "close", {
        SCHED + "close_all_stw_buckets::{closure#0}": "end of GC",
        SCHED + "reset_state::{closure#0}": "reset (all but the first STW stage)",
        SCHED + "schedule_concurrent_packets": "Concurrent bucket only"}, min_sites=2)
    for cs in closes:
        f = cs.fn
        if "close_all_stw_buckets" in f.q:
            g = guard_find(f, cs.bb, r"is_stw", True)
            direct = bool(g) and len(guards(f, cs.bb)) == 1
            # equivalent idiom: iter().filter(|(stage, _)| stage.is_stw()) ... for bucket in .. { bucket.close() }
            top = outermost(F, f)
            filt = False
            for h in [top] + list(closures_of(F, top)):
                for c in live_calls(h, name="filter"):
                    cl = [x for x in walk(strip(h.flow.arg_tree(c, len(c.args) - 1))) if x and x[0] == "agg" and x[1][0] == "closure" and x[1][1] in F.fns]
                    if len(cl) == 1:
                        rts = [show(strip(t)) for _, t in F.fns[cl[0][1][1]].flow.return_trees()]
                        filt = filt or (bool(rts) and all(re.search(r"is_stw\(", r) and not r.startswith("Not(") for r in rts))
            only_iter = all(re.match(r"^<\w+ as Iterator>::next\(", s) for s in [show(p.tree) for p in guards(f, cs.bb)])
            ctx.judge(direct or (filt and only_iter), "C15.close-at-end", "close_all_stw_buckets closes every STW bucket", expected="guarded exactly by id.is_stw() (if, or an iterator filter on is_stw)",
                      found=str(guard_strs(f, cs.bb)), where=where(f, cs.line), key="C15.close-at-end|all")
        if "schedule_concurrent_packets" in f.q:
            ctx.judge("Concurrent" in show(strip(f.flow.arg_tree(cs, 0))), "C15.close-at-end", "only the Concurrent bucket is closed outside the end of GC",
                      expected="receiver work_buckets[Concurrent]", found=show(strip(f.flow.arg_tree(cs, 0))), where=where(f, cs.line), key="C15.close-at-end|concurrent")
    ca = callers(F, SCHED + "close_all_stw_buckets")
    res = callers(F, "vm::collection::Collection::resume_mutators")
    ctx.require(len(res) == 1, "C15.close-at-end: expected one resume_mutators site")
    fend = res[0].fn
    mine = [c for c in ca if c.fn is fend]
    okc = bool(mine) and all(fend.cfg.dominates(c.bb, res[0].bb) for c in mine)
    ctx.judge(okc, "C15.close-at-end", "all STW buckets are closed before mutators resume", expected="close_all_stw_buckets dominates resume_mutators in %s" % short(fend.q),
              found=str([c.fn.q for c in ca]), where=where(fend), key="C15.close-at-end|before-resume")
    for c in ca:
        ctx.judge(c.fn is fend, "C15.close-at-end", "close_all_stw_buckets <- %s" % short(c.fn.q), expected="called only when the GC has finished", found=c.fn.q,
                  where=where(c.fn, c.line), key="C15.close-at-end|caller|" + c.fn.q)
    for c in callers(F, SCHED + "reset_state"):
        # frozen exception (feature `sanity`): ScheduleSanityGC re-closes the later stages to run the sanity trace as a second pass. It is
        # legitimate only because that packet runs in the Final stage, i.e. after every earlier STW stage of the collection has been drained.
        if c.fn.q.startswith("<util::sanity::sanity_checker::ScheduleSanityGC as "):
            ss = [s_ for s_ in stage_sites(F) if "ScheduleSanityGC" in s_.packets]
            ctx.judge(bool(ss) and all(s_.stage == "Final" and s_.method == "add" for s_ in ss), "C15.close-at-end", "reset_state <- %s (sanity pass)" % short(c.fn.q),
                      expected="ScheduleSanityGC is only ever added to the Final stage", found=str([(s_.stage, s_.method, short(s_.fn.q)) for s_ in ss])[:200], where=where(c.fn, c.line),
                      key="C15.close-at-end|reset_state|sanity")
            continue
        ctx.judge(False, "C15.close-at-end", "reset_state <- %s" % short(c.fn.q), expected="no caller inside a GC (could close buckets mid-GC)", found=c.fn.q,
                  where=where(c.fn, c.line), key="C15.close-at-end|reset_state|" + c.fn.q)

    # ---- C15.designated-first: no bucket opens / GC finishes while a worker still holds designated packets
    dn = live_calls(fm, name="has_designated_work")
    sch_ = live_calls(fm, name="schedule_sentinels") + live_calls(fm, name="update_buckets")
    okd = len(dn) == 1 and bool(sch_) and all(guard_find(fm, c.bb, r"has_designated_work", False) for c in sch_)
    ctx.judge(okd, "C15.designated-first", "pending designated work keeps the GC going", expected="find_more_work_for_workers consults has_designated_work() before opening buckets or reporting 'finished'",
              found="has_designated_work sites=%d" % len(dn), where=where(fm), key="C15.designated-first|check")
    hd = F.fn("scheduler::worker::WorkerGroup::has_designated_work")
    anyc = [c for c in live_calls(hd) if c.name == "any"]
    allc = [c for c in live_calls(hd) if c.name == "all"]
    clo_ok = False
    for cl in closures_of(F, hd):
        rt = [strip(t) for r, t in cl.flow.return_trees()]
        clo_ok = bool(rt) and all(t and t[0] == "un" and t[1] == "Not" and "is_empty" in show(t) and "designated_work" in show(t) for t in rt)
    ctx.judge(len(anyc) == 1 and not allc and clo_ok, "C15.designated-first", "has_designated_work is true when ANY worker still holds a designated packet",
              expected="workers_shared.iter().any(|w| !w.designated_work.is_empty())", found="any=%d all=%d closure-ok=%s" % (len(anyc), len(allc), clo_ok), where=where(hd), key="C15.designated-first|any")
    falses = [(b, t, g) for b, t, g in ret_table(fm) if const_arg(t) is False]
    okf = bool(falses) and all(any("has_designated_work" in show(p.tree) and p.val is False for p in g) for b, t, g in falses)
    ctx.judge(okf, "C15.designated-first", "'no more work' is only reported when no worker holds designated packets", expected="return false dominated by has_designated_work()==false",
              found=str([[("%s==%s" % (show(p.tree)[:40], p.val)) for p in g] for b, t, g in falses])[:300], where=where(fm), key="C15.designated-first|false")

    # ---- C15.add-to-enabled: packets are never added to a bucket the same plan disabled for this pause
    sites = stage_sites(F)
    en = []   # (fn, bb, stage, value) value in True/False/'param'
    helpers = {}
    for f in F.fns.values():
        for cs in live_calls(f, q=WB + "set_enabled"):
            st = consts_of_type(strip(f.flow.arg_tree(cs, 0)), "WorkBucketStage")
            v = const_arg(f.flow.arg_tree(cs, 1))
            vt = strip(f.flow.arg_tree(cs, 1))
            if not st:
                continue
            if v in (True, False):
                en.append((f, cs.bb, st[0], v))
            elif vt and vt[0] == "arg":
                helpers.setdefault(f.q, (vt[1], set()))[1].add(st[0])
    for hq, (argi, stages) in helpers.items():
        for cs in callers(F, hq):
            v = const_arg(cs.fn.flow.arg_tree(cs, argi - 1))
            if v in (True, False):
                for s_ in stages:
                    en.append((cs.fn, cs.bb, s_, v))
    by_owner = {}
    for f, bb, s_, v in en:
        owner = f.meta.get("impl_self")
        if owner and owner.startswith("plan::") and v is False:
            if last_seg(f.q) == "new":
                by_owner.setdefault(owner, {"perm": set(), "pause": set()})["perm"].add(s_)
            else:
                by_owner.setdefault(owner, {"perm": set(), "pause": set()})["pause"].add(s_)

    def adds_of(f, depth=0, seen=None):
        seen = seen if seen is not None else set()
        if f.q in seen or depth > 3:
            return {}
        seen.add(f.q)
        out = {}
        for s_ in sites:
            if s_.fn is f and not s_.stage.startswith("dynamic"):
                out.setdefault(s_.stage, []).append((s_.cs.bb, s_.cs.line, frozenset(g.key() for g in guards(f, s_.cs.bb))))
        for cs in live_calls(f):
            h = F.fns.get(cs.res or cs.q or "")
            if h is not None and h.kind != "closure" and re.search(r"::schedule_\w+$", h.q):
                for st_, lst in adds_of(h, depth + 1, seen).items():
                    out.setdefault(st_, []).append((cs.bb, cs.line, frozenset()))
        return out

    def enabled_before(f, bb, stage, depth=0):
        """stage is enabled (true) on every path to block bb of f, looking up through callers inside the plan."""
        evs = [(b, v) for (g, b, s_, v) in en if g is f and s_ == stage]
        if any(v is True and f.cfg.dominates(b, bb) and b != bb for b, v in evs) or any(v is True and b == bb for b, v in evs):
            return True
        if any(v is False and f.cfg.dominates(b, bb) for b, v in evs):
            return False
        if depth >= 3:
            return False
        ups = [c for c in callers(F, f.q)]
        return bool(ups) and all(enabled_before(c.fn, c.bb, stage, depth + 1) for c in ups)
    checked = 0
    for owner, d in by_owner.items():
        fns = [f for f in F.fns.values() if f.meta.get("impl_self") == owner and f.kind != "closure"]
        for f in fns:
            direct = {}
            for s_ in sites:
                if s_.fn is f and not s_.stage.startswith("dynamic"):
                    direct.setdefault(s_.stage, []).append(s_)
            for st_, lst in direct.items():
                if st_ in d["pause"]:
                    for s_ in lst:
                        checked += 1
                        ctx.judge(enabled_before(f, s_.cs.bb, st_), "C15.add-to-enabled", "%s adds %s to %s which the plan disables in another pause" % (short(f.q), sorted(s_.packets), st_),
                                  expected="a set_enabled(true) on %s dominates the add (in this function or in every caller inside the plan)" % st_,
                                  found="no enabling call on the way; packets added to a disabled bucket are never executed", where=where(f, s_.cs.line),
                                  key="C15.add-to-enabled|%s|%s" % (f.q, st_))
                if st_ in d["perm"]:
                    for s_ in lst:
                        ctx.bad("C15.add-to-enabled", "%s adds to %s which %s::new disables permanently" % (short(f.q), st_, last_seg(owner)), "no packets for permanently disabled stages",
                                str(sorted(s_.packets)), where(f, s_.cs.line), key="C15.add-to-enabled|perm|%s|%s" % (f.q, st_))
            # helper schedules reached from this function (e.g. schedule_immix_full_heap_collection -> schedule_common_work)
            for cs in live_calls(f):
                h = F.fns.get(cs.res or cs.q or "")
                if h is None or h.kind == "closure" or not re.search(r"::schedule_\w+$", h.q) or h.meta.get("impl_self") == owner:
                    continue
                sub = adds_of(h)
                for st_ in sub:
                    if st_ in d["pause"]:
                        checked += 1
                        ctx.judge(enabled_before(f, cs.bb, st_), "C15.add-to-enabled", "%s schedules %s (adds to %s)" % (short(f.q), short(h.q), st_),
                                  expected="set_enabled(true) on %s before delegating" % st_, found="not enabled on this path", where=where(f, cs.line),
                                  key="C15.add-to-enabled|%s|%s|%s" % (f.q, h.q, st_))
    ctx.floor("C15.add-to-enabled", checked, 5, "adds to pause-dependent buckets checked")

    # ---- C15.run-once
    run = F.fn("scheduler::worker::GCWorker::run")
    polls = live_calls(run, name="poll")
    dws = live_calls(run, name="do_work_with_stat")
    okr = len(polls) == 1 and len(dws) == 1
    ctx.judge(okr, "C15.run-once", "GCWorker::run: one poll and one execution site", expected="1 poll, 1 do_work_with_stat", found="%d/%d" % (len(polls), len(dws)),
              where=where(run), key="C15.run-once|sites")
    if okr:
        recv = show(strip(run.flow.arg_tree(dws[0], 0)))
        okv = "GCWorker::poll" in recv and "Ok" in recv
        ctx.judge(okv, "C15.run-once", "the executed packet is the polled one", expected="receiver of do_work_with_stat is the Ok payload of self.poll()", found=recv[:160],
                  where=where(run, dws[0].line), key="C15.run-once|flow")
        # between two executions there is a poll: every cycle through the execution block passes the poll block
        cyc = run.cfg.reachable_from(dws[0].bb, avoid={polls[0].bb})
        ctx.judge(dws[0].bb not in cyc, "C15.run-once", "each polled packet is executed at most once", expected="no path from do_work_with_stat back to itself without a new poll",
                  found="cycle without poll", where=where(run, dws[0].line), key="C15.run-once|cycle")
        g = guard_find(run, dws[0].bb, r"GCWorker::poll", "Ok")
        ctx.judge(bool(g), "C15.run-once", "execution only when poll returned a packet", expected="guarded by poll() == Ok", found=str(guard_strs(run, dws[0].bb)),
                  where=where(run, dws[0].line), key="C15.run-once|ok")
    # direct do_work callers
    allowed = {
        "scheduler::work::GCWork::do_work_with_stat": "the only executor of queued packets",
        "<plan::tracing::gc_work::closure::ProcessSlots as scheduler::work::GCWork>::do_work": "runs freshly built follow-up packets inline (flush)",
        "plan::tracing::gc_work::closure::ProcessSlots::flush": "runs a freshly built ProcessNodes inline",
        "<plan::generational::gc_work::ProcessModBuf as scheduler::work::GCWork>::do_work": "runs a freshly built ProcessNodes inline",
        "<plan::generational::gc_work::ProcessRegionModBuf as scheduler::work::GCWork>::do_work": "runs a freshly built ProcessSlots inline",
        "<plan::concurrent::concurrent_marking_work::ProcessModBufSATB as scheduler::work::GCWork>::do_work": "runs a freshly built ConcurrentTraceObjects inline",
    }
    dsites = callers(F, "scheduler::work::GCWork::do_work")
    ctx.floor("C15.run-once", len(dsites), 3, "direct GCWork::do_work call sites")
    for cs in dsites:
        f = cs.fn
        top = outermost(F, f)
        inl = top.q in allowed or f.q in allowed
        if not inl:
            ctx.bad("C15.run-once", "direct do_work call in %s" % short(f.q), "direct do_work callers limited to the reviewed list", f.q, where(f, cs.line),
                    key="C15.run-once|caller|" + f.q)
            continue
        if f.q == "scheduler::work::GCWork::do_work_with_stat":
            ctx.ok("C15.run-once", "do_work_with_stat executes self", allowed[f.q], where(f, cs.line))
            continue
        recv = strip(f.flow.arg_tree(cs, 0))
        fresh = any(s and ((s[0] == "agg" and s[1][0] == "adt") or (s[0] == "call" and isinstance(s[1], str) and last_seg(s[1]).startswith("new"))) for s in walk(recv))
        queued = any(s and s[0] == "call" and isinstance(s[1], str) and last_seg(s[1]) in ("poll", "steal", "pop") for s in walk(recv))
        ctx.judge(fresh and not queued, "C15.run-once", "inline execution in %s is on a locally built packet" % short(f.q),
                  expected="receiver constructed in the same function, never taken from a queue", found=show(recv)[:160], where=where(f, cs.line),
                  key="C15.run-once|inline|" + f.q)
