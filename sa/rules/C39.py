"""C39 Option setting is all-or-nothing (partial: parser grammars are not decided) (DESIGN.md 4/C39)."""
import re
from .common import *
from ..engine import AnalysisError, show, strip, short, walk, last_seg, tree_calls

PROP = "C39"
LEVEL = "other"
QUICK = ["K0"]
THOROUGH = ALL_CONFIGS
ASSUMPTIONS = ["FromStr grammars of the individual option types (nursery, GC trigger, CPU lists) are value-level and not decided beyond the overflow and NaN clauses"]
LEVEL_NOTE = "partial: decides the all-or-nothing clause (no option changes unless the value parsed and validated; true is returned exactly then; bulk setting applies pairs in order and stops at the first failure), that a suffixed size is scaled only by u64::checked_mul with the k/m/g/t table 1024^n and narrowed with try_into (overflow is reported, not wrapped), and that a floating-point nursery bound is accepted only on a path where a comparison involving it holds (so NaN is rejected); the rest of the parser grammars is not decided"
EXPLANATION = (
    "Partial claim. MMTKOption::set writes the value only under validator(&value)==true and returns true exactly there; the only "
    "writers of MMTKOption.value are new and set; in the macro-expanded Options::set_from_string_inner every string arm (one per field "
    "of Options, counted) parses the value, returns ValueParseError before touching the option when parsing fails, calls set() on the "
    "field named like the key with the parsed value, and returns Ok(()) only when set() returned true; the arm never mutates any other "
    "field; set_from_string is is_ok() of it; set_bulk_from_string applies pairs in iteration order through set_from_string_inner and "
    "returns false at the first failing pair."
)
OPT = "util::options::"


def run(ctx, F):
    # ---- C39.set-guard
    st = F.fn(OPT + "MMTKOption::set")
    ws = [(bb, pl, t) for (bb, j, pl, t) in stores(st) if place_str(st, pl).endswith(".value")]
    okw = len(ws) == 1 and ws[0][2] == ("arg", 2)
    if okw:
        g = sig(st, ws[0][0])
        okw = len(g) == 1 and g[0].val is True and "validator" in show(g[0].tree) and "arg2" in show(g[0].tree)
    ctx.judge(okw, "C39.set-guard", "MMTKOption::set writes only a validated value", expected="self.value = value control dependent exactly on (self.validator)(&value)", found=str([(show(t), sig_strs(st, bb)) for bb, pl, t in ws]),
              where=where(st), key="C39.set-guard|write")
    rows = ret_table(st)
    tr = [(b, t, g) for b, t, g in rows if const_arg(t) is True]
    fa = [(b, t, g) for b, t, g in rows if const_arg(t) is False]
    okr = len(tr) == 1 and len(fa) == 1 and bool(ws) and st.cfg.dominates(ws[0][0], tr[0][0]) and not any(st.cfg.dominates(ws[0][0], b) for b, t, g in fa)
    if not okr and okw:
        # the same decision returned as a value: `let ok = (self.validator)(&value); if ok { self.value = value } ok`
        gt = show(strip(sig(st, ws[0][0])[0].tree))
        okr = bool(rows) and all(show(strip(t)) == gt and not g for b, t, g in rows)
    ctx.judge(okr, "C39.set-guard", "set returns true exactly when it stored the value", expected="true after the store, false otherwise", found=str([show(t) for b, t, g in rows]), where=where(st), key="C39.set-guard|ret")
    w = field_mutators(F, OPT + "MMTKOption", "value")
    ctx.judge(set(w) <= {st.q}, "C39.set-guard", "writers of MMTKOption.value", expected="only MMTKOption::set (and construction)", found=str(sorted(w)), key="C39.set-guard|writers")

    # ---- C39.inner
    f = F.fn(OPT + "Options::set_from_string_inner")
    fields = [x["name"] for x in F.adts[OPT + "Options"]["variants"][0]["fields"]]
    sets = live_calls(f, q=st.q)
    ctx.floor("C39.inner", len(fields), 20, "fields of Options")
    ctx.judge(len(sets) == len(fields), "C39.inner", "one setter arm per option", expected="%d arms" % len(fields), found=str(len(sets)), where=where(f), key="C39.inner|count")
    seen = set()
    for c in sets:
        recv = show(strip(f.flow.arg_tree(c, 0)))
        fld = recv.replace("arg1.", "")
        val = strip(f.flow.arg_tree(c, 1))
        gs = guards(f, c.bb)
        keyg = [p for p in gs if p.val is True and "PartialEq" in show(p.tree) and "arg2" in show(p.tree)]
        key = None
        for p in keyg:
            m = re.search(r'"([^"]+)"', show(p.tree))
            if m:
                key = m.group(1)
        okp = any("str::parse(arg3)" in show(p.tree) and p.val == "Ok" for p in gs) and "str::parse(arg3) as Ok.0" in show(val)
        ctx.judge(key == fld and fld in fields and okp, "C39.inner", "arm \"%s\" sets its own field with the parsed value" % key, expected="self.%s.set(parsed) under key == \"%s\" and parse == Ok" % (key, key),
                  found="receiver=%s value=%s" % (recv, show(val)[:60]), where=where(f, c.line), key="C39.inner|arm|%s" % key)
        seen.add(fld)
    ctx.judge(seen == set(fields), "C39.inner", "every option has an arm", expected="all %d fields" % len(fields), found="missing=%s" % sorted(set(fields) - seen), where=where(f), key="C39.inner|all")
    rows = ret_table(f)
    oks = [(b, t, g) for b, t, g in rows if t and t[0] == "agg" and t[1][2] == "Ok"]
    bad = [1 for b, t, g in oks if not any("MMTKOption::set" in show(p.tree) and p.val is True for p in g)]
    ctx.judge(len(oks) == len(fields) and not bad, "C39.inner", "Ok(()) only after set() returned true", expected="every Ok return dominated by set(..) == true", found="ok returns=%d unguarded=%d" % (len(oks), len(bad)),
              where=where(f), key="C39.inner|ok")
    perr = [(b, t, g) for b, t, g in rows if "ValueParseError" in show(t)]
    badp = [1 for b, t, g in perr if any("MMTKOption::set" in show(p.tree) for p in g)]
    ctx.judge(len(perr) == len(fields) and not badp, "C39.inner", "a value that does not parse never reaches an option", expected="ValueParseError returned before any set()", found="parse-error returns=%d after-set=%d" % (len(perr), len(badp)),
              where=where(f), key="C39.inner|parse")
    # no other mutation of Options in the function
    muts = [x for x in live_calls(f) if x.args and x.name not in ("set", "parse", "eq") and show(strip(f.flow.arg_tree(x, 0))).startswith("arg1") and not is_transparent_call(x)]
    other_stores = [(bb, place_str(f, pl)) for (bb, j, pl, t) in stores(f) if place_str(f, pl).startswith("arg1") or place_str(f, pl).startswith("self")]
    ctx.judge(not muts and not other_stores, "C39.inner", "set_from_string_inner changes options only through MMTKOption::set", expected="no other mutation of self", found="%s %s" % ([x.name for x in muts], other_stores[:3]),
              where=where(f), key="C39.inner|only-set")
    sfs = F.fn(OPT + "Options::set_from_string")
    rt = [show(strip(t)) for r, t in sfs.flow.return_trees()]
    ctx.judge(all("is_ok" in r and "set_from_string_inner(arg1, arg2, arg3)" in r for r in rt) and bool(rt), "C39.inner", "set_from_string returns whether the option was set", expected="set_from_string_inner(s, val).is_ok()", found=str(rt),
              where=where(sfs), key="C39.inner|public")

    # ---- C39.bulk
    b = F.fn(OPT + "Options::set_bulk_from_string")
    inner = live_calls(b, q=f.q)
    okb = len(inner) == 1 and any(p.val == "Some" and "next" in show(p.tree) for p in guards(b, inner[0].bb))
    ctx.judge(okb, "C39.bulk", "bulk setting applies each pair through set_from_string_inner inside one loop", expected="one call site in the loop over the pairs", found=str(len(inner)), where=where(b), key="C39.bulk|loop")
    rows = ret_table(b)
    falses = [(bb, t, g) for bb, t, g in rows if const_arg(t) is False]
    trues = [(bb, t, g) for bb, t, g in rows if const_arg(t) is True]
    okf = any(any("set_from_string_inner" in show(p.tree) and p.val == "Err" for p in g) for bb, t, g in falses)
    okt = len(trues) == 1 and any("next" in show(p.tree) and p.val == "None" for p in trues[0][2])
    ctx.judge(okf and okt, "C39.bulk", "bulk setting stops at the first failure and succeeds only after all pairs", expected="return false under Err(..); return true only when the iterator is exhausted",
              found="false rows=%d true rows=%d" % (len(falses), len(trues)), where=where(b), key="C39.bulk|ret")
    if inner:
        # after an Err no further pair is applied: the loop head is not reachable from the Err arm
        edges = branch_edges(b, r"set_from_string_inner", "Err")
        okn = bool(edges) and all(inner[0].bb not in (b.cfg.reachable_from(s) | {s}) for a, s in edges)
        ctx.judge(okn, "C39.bulk", "no further pair is applied after a failing one", expected="the Err arm leaves the loop", found=str(edges), where=where(b), key="C39.bulk|stop")

    # ---- C39.size-overflow: a suffixed size is scaled with an overflow-reporting multiplication by 1024^n
    ps = F.fn("util::options::GCTriggerSelector::parse_size")
    SUFFIX = {ord("k"): 1 << 10, ord("m"): 1 << 20, ord("g"): 1 << 30, ord("t"): 1 << 40}
    ti = [c for c in live_calls(ps) if c.name == "try_into"]
    ctx.judge(len(ti) == 1, "C39.size-overflow", "the scaled size is narrowed with try_into", expected="one try_into::<usize>()", found=str(len(ti)), where=where(ps), key="C39.size-overflow|try_into")
    seen = {}
    for c in ti:
        t = strip(ps.flow.arg_tree(c, 0))
        alts = list(t[1]) if t and t[0] == "phi" else [t]
        # the value comes from the Some(..) payload of the selected product
        prods = []
        for x in walk(t):
            if x and x[0] == "call" and isinstance(x[1], str) and last_seg(x[2] or x[1]) not in ("branch", "map_err", "parse", "index", "to_lowercase", "len") and len(x[3]) >= 1 and "str::parse" in show(x[3][0]):
                if x not in prods:
                    prods.append(x)
        ctx.judge(bool(prods), "C39.size-overflow", "the narrowed value is the scaled parsed number", expected="try_into(checked_mul(parsed, ..)?)", found=show(t)[:120], where=where(ps, c.line),
                  key="C39.size-overflow|flow")
        for top in prods:
            nm = last_seg(top[2] or top[1])
            k = const_arg(top[3][1]) if len(top[3]) == 2 else None
            mt = strip(top[3][1]) if len(top[3]) == 2 else None
            if k is None and mt and mt[0] == "phi" and nm == "checked_mul":
                # one product whose multiplier was selected from the table beforehand (match on the suffix)
                ks = [const_arg(a) for a in mt[1]]
                if ks and all(x in SUFFIX.values() for x in ks):
                    ctx.ok("C39.size-overflow", "suffix multiplication reports overflow", "u64::checked_mul(parsed, unit), unit in %s" % sorted(ks), where(ps, c.line))
                    for x in ks:
                        seen[x] = top
                    continue
            okp = nm == "checked_mul" and k in SUFFIX.values()
            ctx.judge(okp, "C39.size-overflow", "suffix multiplication reports overflow", expected="u64::checked_mul(parsed, 1024^n)", found=show(top)[-80:], where=where(ps, c.line),
                      key="C39.size-overflow|op|%s" % (k if okp else nm))
            if okp:
                seen[k] = top
    for c in [c for c in live_calls(ps) if c.name == "checked_mul"]:
        k = const_arg(ps.flow.arg_tree(c, 1))
        mt = strip(ps.flow.arg_tree(c, 1))
        if k is None and mt and mt[0] == "phi":
            # the multiplier is picked by comparing the suffix with "k" / "m" / "g" / "t": each constant is assigned under the matching comparison
            for i, b in enumerate(ps.blocks):
                if i not in ps.cfg.live:
                    continue
                for j, st_ in enumerate(b["s"]):
                    if st_[0] == "=" and len(st_[1]) == 1 and st_[2][0] == "use":
                        kv = const_arg(ps.flow.rvalue_tree(st_[2], i, j))
                        if kv in SUFFIX.values():
                            tg = [show(strip(p.tree)) for p in guards(ps, i) if p.val is True]
                            letters = [m.group(1) for x in tg for m in [re.search(r', "([a-z])"\)$', x)] if m]
                            ctx.judge(len(letters) >= 1 and SUFFIX.get(ord(letters[-1])) == kv, "C39.size-overflow", "suffix %s scales by %s" % (letters[-1:], kv), expected="k=2^10, m=2^20, g=2^30, t=2^40",
                                      found="selected under %s" % [x[-40:] for x in tg], where=where(ps, c.line), key="C39.size-overflow|table|%s" % kv)
            continue
        chars = [const_arg(p.tree[3][1]) for p in guards(ps, c.bb) if p.val is True and p.tree and p.tree[0] == "call" and last_seg(p.tree[2] or p.tree[1]) == "ends_with" and len(p.tree[3]) == 2 and isinstance(const_arg(p.tree[3][1]), int)]
        ctx.judge(len(chars) == 1 and SUFFIX.get(chars[0]) == k, "C39.size-overflow", "suffix %s scales by %s" % ([chr(x) for x in chars], k), expected="k=2^10, m=2^20, g=2^30, t=2^40",
                  found="suffix chars %s multiplier %s" % (chars, k), where=where(ps, c.line), key="C39.size-overflow|table|%s" % k)
    ctx.judge(set(seen) == set(SUFFIX.values()), "C39.size-overflow", "all four suffixes are handled with a checked product", expected=str(sorted(SUFFIX.values())), found=str(sorted(seen)), where=where(ps),
              key="C39.size-overflow|all")
    bad_ops = [c for c in live_calls(ps) if c.name and re.match(r"^(wrapping_|saturating_|overflowing_|unchecked_|checked_sh|pow$|checked_pow)", c.name)]
    raw = [x for b in range(len(ps.blocks)) if b in ps.cfg.live for st in ps.blocks[b]["s"] if st[0] == "=" and st[2][0] == "bin" and st[2][1] in ("Mul", "Shl", "MulWithOverflow", "MulUnchecked", "ShlUnchecked") for x in [st]]
    ctx.judge(not bad_ops and not raw, "C39.size-overflow", "no wrapping/shift arithmetic on the parsed number", expected="only checked_mul", found=str([c.name for c in bad_ops] + [st[2][1] for st in raw]),
              where=where(ps), key="C39.size-overflow|no-wrap")

    # ---- C39.nan-rejected: a float bound is accepted only on a path where a comparison involving it HOLDS (NaN fails every comparison)
    nv = F.fn("util::options::NurserySize::validate")
    ns = F.adts.get("util::options::NurserySize")
    ctx.require(ns is not None, "C39: NurserySize enum not found")
    CMP = ("Lt", "Le", "Gt", "Ge", "Eq")
    nfl = 0
    for v in ns["variants"]:
        fl = [fld["name"] for fld in v["fields"] if fld["ty"] in ("f64", "f32")]
        if not fl:
            continue
        rows = [(b, strip(t), g) for b, t, g in ret_table(nv) if any(show(p.tree) == "arg1" and p.val == v["name"] for p in g)]
        ctx.judge(bool(rows), "C39.nan-rejected", "NurserySize::validate handles %s" % v["name"], expected="an arm", found="none", where=where(nv), key="C39.nan-rejected|arm|" + v["name"])
        for b, t, g in rows:
            if const_arg(t) is False:
                continue
            pos = [p.tree for p in g if p.val is True and p.tree and p.tree[0] == "bin" and p.tree[1] in CMP]
            shape = const_arg(t) is True or (t and t[0] == "bin" and t[1] in CMP)
            if t and t[0] == "bin" and t[1] in CMP:
                pos.append(t)
            for name in fl:
                nfl += 1
                covered = any(re.search(r"as %s\.%s\b" % (v["name"], name), show(x)) for x in pos)
                ctx.judge(shape and covered, "C39.nan-rejected", "%s.%s: acceptance requires a comparison on it to hold" % (v["name"], name),
                          expected="accepting path is a conjunction of comparisons that are true (no negated comparison), one of them involving %s" % name,
                          found="returns %s under %s" % (show(t)[:80], [(show(p.tree)[:60], p.val) for p in g]), where=where(nv), key="C39.nan-rejected|%s.%s" % (v["name"], name))
    ctx.floor("C39.nan-rejected", nfl, 2, "float fields of NurserySize variants")

    # ---- C39.cpulist-normalised: the documented value of a CPU list is the sorted set of its cores. Every insertion into the set
    # is followed, before the function can return, by a sort and then a de-duplication (dedup() only removes *adjacent* equals, so it
    # is a set operation only on a sorted vector).
    pc = F.fn("util::options::AffinityKind::parse_cpulist")
    ins = [c for c in live_calls(pc) if c.name in ("push", "extend", "append", "insert", "extend_from_slice") and "Vec" in (c.res or c.q or "")]
    srt = [c for c in live_calls(pc) if c.name in ("sort_unstable", "sort", "sort_unstable_by", "sort_by", "sort_by_key", "sort_unstable_by_key")]
    ddp = [c for c in live_calls(pc) if c.name in ("dedup", "dedup_by", "dedup_by_key")]
    ctx.floor("C39.cpulist-normalised", len(ins), 2, "insertions into the CPU set")
    rets = set(pc.cfg.live_rets)
    okc = bool(srt) and bool(ddp)
    why = "insertions=%d sorts=%d dedups=%d" % (len(ins), len(srt), len(ddp))
    for c in ins:
        nxt = pc.blocks[c.bb]["t"].get("t")
        if nxt in {x.bb for x in srt}:
            continue
        r = pc.cfg.reachable_from(nxt, avoid={x.bb for x in srt}) | {nxt}
        if r & rets:
            okc, why = False, "a return is reachable from the insertion at line %s without sorting" % c.line
        if any(d.bb in r for d in ddp):
            okc, why = False, "dedup() is reached from the insertion at line %s before any sort (dedup only removes adjacent duplicates)" % c.line
    for c in srt:
        nxt = pc.blocks[c.bb]["t"].get("t")
        if nxt in {x.bb for x in ddp}:
            continue
        r = pc.cfg.reachable_from(nxt, avoid={x.bb for x in ddp} | {x.bb for x in ins}) | {nxt}
        if r & rets:
            okc, why = False, "a return is reachable from the sort at line %s without de-duplication" % c.line
    ctx.judge(okc, "C39.cpulist-normalised", "parse_cpulist returns a sorted, duplicate-free core set", expected="every insertion is followed by sort and then dedup before any return", found=why, where=where(pc),
              key="C39.cpulist-normalised|sort-dedup")
