"""C39 Option setting is all-or-nothing (partial: parser grammars are not decided) (DESIGN.md 4/C39)."""
import re
from .common import *
from ..engine import AnalysisError, show, strip, short, walk, last_seg, tree_calls

PROP = "C39"
LEVEL = "other"
QUICK = ["K0"]
THOROUGH = ALL_CONFIGS
ASSUMPTIONS = ["FromStr parsers of the individual option types (sizes, nursery, GC trigger, CPU lists) are value-level and not decided"]
LEVEL_NOTE = "partial: decides the all-or-nothing clause (no option changes unless the value parsed and validated; true is returned exactly then; bulk setting applies pairs in order and stops at the first failure); parser grammars are not decided"
EXPLANATION = (
    "Partial claim. MMTKOption::set writes the value only under validator(&value)==true and returns true exactly there; the only "
    "writers of MMTKOption.value are new and set; in the macro-expanded Options::set_from_string_inner every string arm (one per field "
    "of Options, counted) parses the value, returns ValueParseError before touching the option when parsing fails, calls set() on the "
    "field named like the key with the parsed value, and returns Ok(()) only when set() returned true; the arm never mutates any other "
    "field; set_from_string is is_ok() of it; set_bulk_from_string applies pairs in iteration order through set_from_string_inner and "
    "returns false at the first failing pair."
)
OPT = "util::options::"


def run(ctx, F):
    # ---- C39.set-guard
    st = F.fn(OPT + "MMTKOption::set")
    ws = [(bb, pl, t) for (bb, j, pl, t) in stores(st) if place_str(st, pl).endswith(".value")]
    okw = len(ws) == 1 and ws[0][2] == ("arg", 2)
    if okw:
        g = sig(st, ws[0][0])
        okw = len(g) == 1 and g[0].val is True and "validator" in show(g[0].tree) and "arg2" in show(g[0].tree)
    ctx.judge(okw, "C39.set-guard", "MMTKOption::set writes only a validated value", expected="self.value = value control dependent exactly on (self.validator)(&value)", found=str([(show(t), sig_strs(st, bb)) for bb, pl, t in ws]),
              where=where(st), key="C39.set-guard|write")
    rows = ret_table(st)
    tr = [(b, t, g) for b, t, g in rows if const_arg(t) is True]
    fa = [(b, t, g) for b, t, g in rows if const_arg(t) is False]
    okr = len(tr) == 1 and len(fa) == 1 and bool(ws) and st.cfg.dominates(ws[0][0], tr[0][0]) and not any(st.cfg.dominates(ws[0][0], b) for b, t, g in fa)
    ctx.judge(okr, "C39.set-guard", "set returns true exactly when it stored the value", expected="true after the store, false otherwise", found=str([show(t) for b, t, g in rows]), where=where(st), key="C39.set-guard|ret")
    w = field_mutators(F, OPT + "MMTKOption", "value")
    ctx.judge(set(w) <= {st.q}, "C39.set-guard", "writers of MMTKOption.value", expected="only MMTKOption::set (and construction)", found=str(sorted(w)), key="C39.set-guard|writers")

    # ---- C39.inner
    f = F.fn(OPT + "Options::set_from_string_inner")
    fields = [x["name"] for x in F.adts[OPT + "Options"]["variants"][0]["fields"]]
    sets = live_calls(f, q=st.q)
    ctx.floor("C39.inner", len(fields), 20, "fields of Options")
    ctx.judge(len(sets) == len(fields), "C39.inner", "one setter arm per option", expected="%d arms" % len(fields), found=str(len(sets)), where=where(f), key="C39.inner|count")
    seen = set()
    for c in sets:
        recv = show(strip(f.flow.arg_tree(c, 0)))
        fld = recv.replace("arg1.", "")
        val = strip(f.flow.arg_tree(c, 1))
        gs = guards(f, c.bb)
        keyg = [p for p in gs if p.val is True and "PartialEq" in show(p.tree) and "arg2" in show(p.tree)]
        key = None
        for p in keyg:
            m = re.search(r'"([^"]+)"', show(p.tree))
            if m:
                key = m.group(1)
        okp = any("str::parse(arg3)" in show(p.tree) and p.val == "Ok" for p in gs) and "str::parse(arg3) as Ok.0" in show(val)
        ctx.judge(key == fld and fld in fields and okp, "C39.inner", "arm \"%s\" sets its own field with the parsed value" % key, expected="self.%s.set(parsed) under key == \"%s\" and parse == Ok" % (key, key),
                  found="receiver=%s value=%s" % (recv, show(val)[:60]), where=where(f, c.line), key="C39.inner|arm|%s" % key)
        seen.add(fld)
    ctx.judge(seen == set(fields), "C39.inner", "every option has an arm", expected="all %d fields" % len(fields), found="missing=%s" % sorted(set(fields) - seen), where=where(f), key="C39.inner|all")
    rows = ret_table(f)
    oks = [(b, t, g) for b, t, g in rows if t and t[0] == "agg" and t[1][2] == "Ok"]
    bad = [1 for b, t, g in oks if not any("MMTKOption::set" in show(p.tree) and p.val is True for p in g)]
    ctx.judge(len(oks) == len(fields) and not bad, "C39.inner", "Ok(()) only after set() returned true", expected="every Ok return dominated by set(..) == true", found="ok returns=%d unguarded=%d" % (len(oks), len(bad)),
              where=where(f), key="C39.inner|ok")
    perr = [(b, t, g) for b, t, g in rows if "ValueParseError" in show(t)]
    badp = [1 for b, t, g in perr if any("MMTKOption::set" in show(p.tree) for p in g)]
    ctx.judge(len(perr) == len(fields) and not badp, "C39.inner", "a value that does not parse never reaches an option", expected="ValueParseError returned before any set()", found="parse-error returns=%d after-set=%d" % (len(perr), len(badp)),
              where=where(f), key="C39.inner|parse")
    # no other mutation of Options in the function
    muts = [x for x in live_calls(f) if x.args and x.name not in ("set", "parse", "eq") and show(strip(f.flow.arg_tree(x, 0))).startswith("arg1") and not is_transparent_call(x)]
    other_stores = [(bb, place_str(f, pl)) for (bb, j, pl, t) in stores(f) if place_str(f, pl).startswith("arg1") or place_str(f, pl).startswith("self")]
    ctx.judge(not muts and not other_stores, "C39.inner", "set_from_string_inner changes options only through MMTKOption::set", expected="no other mutation of self", found="%s %s" % ([x.name for x in muts], other_stores[:3]),
              where=where(f), key="C39.inner|only-set")
    sfs = F.fn(OPT + "Options::set_from_string")
    rt = [show(strip(t)) for r, t in sfs.flow.return_trees()]
    ctx.judge(all("is_ok" in r and "set_from_string_inner(arg1, arg2, arg3)" in r for r in rt) and bool(rt), "C39.inner", "set_from_string returns whether the option was set", expected="set_from_string_inner(s, val).is_ok()", found=str(rt),
              where=where(sfs), key="C39.inner|public")

    # ---- C39.bulk
    b = F.fn(OPT + "Options::set_bulk_from_string")
    inner = live_calls(b, q=f.q)
    okb = len(inner) == 1 and any(p.val == "Some" and "next" in show(p.tree) for p in guards(b, inner[0].bb))
    ctx.judge(okb, "C39.bulk", "bulk setting applies each pair through set_from_string_inner inside one loop", expected="one call site in the loop over the pairs", found=str(len(inner)), where=where(b), key="C39.bulk|loop")
    rows = ret_table(b)
    falses = [(bb, t, g) for bb, t, g in rows if const_arg(t) is False]
    trues = [(bb, t, g) for bb, t, g in rows if const_arg(t) is True]
    okf = any(any("set_from_string_inner" in show(p.tree) and p.val == "Err" for p in g) for bb, t, g in falses)
    okt = len(trues) == 1 and any("next" in show(p.tree) and p.val == "None" for p in trues[0][2])
    ctx.judge(okf and okt, "C39.bulk", "bulk setting stops at the first failure and succeeds only after all pairs", expected="return false under Err(..); return true only when the iterator is exhausted",
              found="false rows=%d true rows=%d" % (len(falses), len(trues)), where=where(b), key="C39.bulk|ret")
    if inner:
        # after an Err no further pair is applied: the loop head is not reachable from the Err arm
        edges = branch_edges(b, r"set_from_string_inner", "Err")
        okn = bool(edges) and all(inner[0].bb not in (b.cfg.reachable_from(s) | {s}) for a, s in edges)
        ctx.judge(okn, "C39.bulk", "no further pair is applied after a failing one", expected="the Err arm leaves the loop", found=str(edges), where=where(b), key="C39.bulk|stop")
