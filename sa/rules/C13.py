"""C13 VM weak-reference processing rounds (DESIGN.md 4/C13)."""
import re
from .common import *
from .sched import *
from ..engine import AnalysisError, show, strip, short, walk, last_seg

PROP = "C13"
LEVEL = "other"
QUICK = ["K0", "K1"]
THOROUGH = ALL_CONFIGS
ASSUMPTIONS = ["the binding's process_weak_refs/forward_weak_refs trace through the tracer context they are given",
               "bucket draining/opening semantics are those decided under C15"]
EXPLANATION = (
    "Structural necessary conditions of the VM weak-reference rounds: census of the callers of Scanning::process_weak_refs, "
    "forward_weak_refs and Collection::post_forwarding; the VMProcessWeakRefs packet is only ever installed as a *sentinel* and "
    "only on the VMRefClosure stage (stage table extracted from every WorkBucket::add*/set_sentinel site of the crate); the "
    "re-installation is control dependent exactly on process_weak_refs(..)==true and targets the same stage that is given to the "
    "tracer context; sentinels are scheduled before any later bucket may open (order of schedule_sentinels/update_buckets in the "
    "last-parked path, early return on true) and only by the last-parked worker; stage order VMRefClosure after Closure and all "
    "reference closure stages, CalculateForwarding < VMRefForwarding < Compact; VMForwardWeakRefs added exactly under "
    "needs_forward_after_liveness; with_tracer flushes after the user closure on every path."
)
SCAN = "vm::scanning::Scanning::"
PWR = "<plan::tracing::gc_work::weakref::VMProcessWeakRefs as scheduler::work::GCWork>::do_work"
FWR = "<plan::tracing::gc_work::weakref::VMForwardWeakRefs as scheduler::work::GCWork>::do_work"
PF = "<plan::tracing::gc_work::weakref::VMPostForwarding as scheduler::work::GCWork>::do_work"


def run(ctx, F):
    # ---- C13.callers
    check_callers(ctx, F, "C13.callers", SCAN + "process_weak_refs", {PWR: "the sentinel packet"})
    check_callers(ctx, F, "C13.callers", SCAN + "forward_weak_refs", {FWR: "the forwarding packet"})
    check_callers(ctx, F, "C13.callers", "vm::collection::Collection::post_forwarding", {PF: "the post-forwarding packet"})

    # ---- C13.sentinel-only
    sites = stage_sites(F)
    ctx.floor("C13.sentinel-only", len(sites), 80, "packet-adding sites")
    pw = [s for s in sites if "VMProcessWeakRefs" in s.packets]
    ctx.floor("C13.sentinel-only", len(pw), 4, "VMProcessWeakRefs installation sites")
    for s in pw:
        ctx.judge(s.method == "set_sentinel" and s.stage == "VMRefClosure", "C13.sentinel-only",
                  "VMProcessWeakRefs installed in %s" % short(s.fn.q),
                  expected="installed only via set_sentinel on VMRefClosure (runs when the bucket is drained)",
                  found="%s on %s" % (s.method, s.stage), where=where(s.fn, s.cs.line), key="C13.sentinel-only|" + s.fn.q)
    # every scheduling function that installs StopMutators (i.e. starts a GC that computes a closure) installs the sentinel
    for f in {s.fn for s in sites if "StopMutators" in s.packets}:
        mine = [s for s in pw if s.fn is f]
        has_release = any("Release" in s.packets for s in sites if s.fn is f)
        if not has_release:
            continue   # a pause that only starts concurrent marking computes no closure in this pause
        okm = bool(mine) and all(not [g for g in guards(f, s.cs.bb) if "no_reference_types" in show(g.tree) or "no_finalizer" in show(g.tree)] for s in mine)
        ctx.judge(okm, "C13.sentinel-only", "%s schedules VM weak-ref processing unconditionally" % short(f.q),
                  expected="a set_sentinel(VMProcessWeakRefs) not guarded by MMTk-side reference options", found=str(mine), where=where(f),
                  key="C13.sentinel-only|sched|" + f.q)

    # ---- C13.repeat
    f = F.fn(PWR)
    pcall = live_calls(f, q=SCAN + "process_weak_refs")
    ss = [s for s in pw if s.fn is f]
    ctx.judge(len(ss) == 1 and len(pcall) == 1, "C13.repeat", "VMProcessWeakRefs::do_work re-installs itself at one site",
              expected="one process_weak_refs call and one set_sentinel", found="%d/%d" % (len(pcall), len(ss)), where=where(f), key="C13.repeat|sites")
    for s in ss:
        g = sig(f, s.cs.bb)
        okg = len(g) == 1 and "process_weak_refs" in show(g[0].tree) and g[0].val is True
        ctx.judge(okg, "C13.repeat", "re-installation iff process_weak_refs returned true",
                  expected="control dependent exactly on process_weak_refs(..) == true", found=str(sig_strs(f, s.cs.bb)), where=where(f, s.cs.line),
                  key="C13.repeat|guard")
        for pc in pcall:
            tctx = show(strip(f.flow.arg_tree(pc, 1)))
            same = s.stage in tctx
            ctx.judge(same and s.stage == "VMRefClosure", "C13.repeat", "tracer context and sentinel use the same stage",
                      expected="DefaultObjectTracerContext::new(VMRefClosure) and set_sentinel on VMRefClosure", found="tracer=%s sentinel=%s" % (tctx, s.stage),
                      where=where(f, pc.line), key="C13.repeat|stage")
    f2 = F.fn(FWR)
    for pc in live_calls(f2, q=SCAN + "forward_weak_refs"):
        tctx = show(strip(f2.flow.arg_tree(pc, 1)))
        ctx.judge("VMRefForwarding" in tctx, "C13.repeat", "forward_weak_refs traces into VMRefForwarding", expected="tracer context stage VMRefForwarding",
                  found=tctx, where=where(f2, pc.line), key="C13.repeat|fwd-stage")
        mn, mx = f2.cfg.path_counts([pc.bb])
        ctx.judge((mn, mx) == (1, 1), "C13.forward-once", "VMForwardWeakRefs::do_work calls forward_weak_refs once", expected="exactly once per path",
                  found="min=%s max=%s" % (mn, mx), where=where(f2), key="C13.forward-once|packet")

    # ---- C13.sentinel-semantics
    mss = "scheduler::work_bucket::WorkBucket::maybe_schedule_sentinel"
    check_callers(ctx, F, "C13.sentinel-semantics", mss,
                  {"scheduler::scheduler::GCWorkScheduler::schedule_sentinels": "all open buckets, by the last parked worker",
                   "scheduler::scheduler::GCWorkScheduler::update_buckets": "a newly opened bucket, by the last parked worker"}, min_sites=2)
    fm = "scheduler::scheduler::GCWorkScheduler::find_more_work_for_workers"
    for q in ("scheduler::scheduler::GCWorkScheduler::schedule_sentinels", "scheduler::scheduler::GCWorkScheduler::update_buckets"):
        check_callers(ctx, F, "C13.sentinel-semantics", q, {fm: "the last-parked path"})
    check_callers(ctx, F, "C13.sentinel-semantics", fm, {"scheduler::scheduler::GCWorkScheduler::on_last_parked": "last-parked callback"})
    ff = F.fn(fm)
    sch = live_calls(ff, name="schedule_sentinels")
    upd = live_calls(ff, name="update_buckets")
    oko = len(sch) == 1 and len(upd) == 1 and ff.cfg.dominates(sch[0].bb, upd[0].bb) and bool(guard_find(ff, upd[0].bb, r"schedule_sentinels", False))
    ctx.judge(oko, "C13.sentinel-semantics", "sentinels are scheduled before any further bucket is opened",
              expected="schedule_sentinels() evaluated first; update_buckets() only when it returned false",
              found="guards of update_buckets: %s" % (guard_strs(ff, upd[0].bb) if upd else "missing"), where=where(ff), key="C13.sentinel-semantics|order")
    for c in sch:
        g = guard_find(ff, c.bb, r"has_designated_work", False)
        ctx.judge(bool(g), "C13.sentinel-semantics", "designated work is checked first", expected="schedule_sentinels after has_designated_work()==false",
                  found=str(guard_strs(ff, c.bb)), where=where(ff, c.line), key="C13.sentinel-semantics|designated")
    # a pending sentinel makes find_more_work return true
    rets = ff.flow.return_trees()
    # in update_buckets: scheduling a sentinel for a newly opened bucket stops opening further buckets
    fu = F.fn("scheduler::scheduler::GCWorkScheduler::update_buckets")
    for c in live_calls(fu, name="maybe_schedule_sentinel"):
        upd_calls = live_calls(fu, name="update")
        g = guard_find(fu, c.bb, r"WorkBucket::update", True)
        ctx.judge(bool(g), "C13.sentinel-semantics", "sentinel scheduled only for the bucket just opened", expected="guarded by bucket.update()==true",
                  found=str(guard_strs(fu, c.bb)), where=where(fu, c.line), key="C13.sentinel-semantics|update-guard")
        # after a successful maybe_schedule_sentinel the loop is left: the flag holding its result is tested and on
        # its true edge no further WorkBucket::update is reachable
        near = fu.cfg.reachable_from(c.bb, avoid={u.bb for u in upd_calls})
        sws = [x for x in bool_switches_on(fu, r"maybe_schedule_sentinel") if x[0] in near]
        brk = bool(sws)
        for a, ts, fs in sws:
            reach = fu.cfg.reachable_from(ts) | {ts}
            if any(u.bb in reach for u in upd_calls):
                brk = False
        # and the test is unavoidable: every path from the call to another update passes one of those switches
        if brk:
            avoid = {a for a, _, _ in sws}
            free = fu.cfg.reachable_from(c.bb, avoid=avoid)
            if any(u.bb in free for u in upd_calls):
                brk = False
        ctx.judge(bool(brk), "C13.sentinel-semantics", "no later bucket opens once a sentinel was scheduled",
                  expected="the update loop breaks when maybe_schedule_sentinel() returned true",
                  found="switches on the result: %s; a further WorkBucket::update is reachable after a scheduled sentinel" % [a for a, _, _ in sws],
                  where=where(fu, c.line), key="C13.sentinel-semantics|break")

    # ---- C13.order
    order = stage_order(F)
    need = [("Closure", "VMRefClosure"), ("SoftRefClosure", "VMRefClosure"), ("WeakRefClosure", "VMRefClosure"), ("FinalRefClosure", "VMRefClosure"),
            ("PhantomRefClosure", "VMRefClosure"), ("VMRefClosure", "CalculateForwarding"), ("CalculateForwarding", "VMRefForwarding"),
            ("VMRefForwarding", "Compact"), ("Compact", "Release"), ("Prepare", "Closure")]
    for a, b in need:
        ctx.judge(a in order and b in order and order[a] < order[b], "C13.order", "stage %s before %s" % (a, b), expected="discriminant(%s) < discriminant(%s)" % (a, b),
                  found="%s=%s %s=%s" % (a, order.get(a), b, order.get(b)), key="C13.order|%s|%s" % (a, b))

    # ---- C13.forward-once
    fw = [s for s in sites if "VMForwardWeakRefs" in s.packets]
    ctx.floor("C13.forward-once", len(fw), 3, "VMForwardWeakRefs add sites")
    for s in fw:
        f = s.fn
        okst = s.method == "add" and s.stage == "VMRefForwarding"
        mn, mx = f.cfg.path_counts([s.cs.bb])
        gl = sig_strs(f, s.cs.bb)
        if f.q.endswith("schedule_common_work"):
            okg = len(gl) == 1 and "needs_forward_after_liveness == True" in gl[0]
        else:
            okg = len(gl) == 0
        ctx.judge(okst and okg and mx == 1, "C13.forward-once", "VMForwardWeakRefs scheduled in %s" % short(f.q),
                  expected="added once to VMRefForwarding, guarded exactly by needs_forward_after_liveness (generic schedule) or unconditionally (compacting plans)",
                  found="%s on %s guards=%s max-per-path=%s" % (s.method, s.stage, gl, mx), where=where(f, s.cs.line), key="C13.forward-once|" + f.q)
    # plans that schedule their own forwarding unconditionally have the constraint set; ConcurrentImmix has it unset
    for q, c in F.consts.items():
        if c["ty"].endswith("PlanConstraints") and isinstance(c["v"], dict):
            nf = c["v"].get("needs_forward_after_liveness")
            nm = last_seg(q)
            if re.search(r"MARKCOMPACT|COMPRESSOR", nm):
                ctx.judge(nf is True, "C13.forward-once", "%s.needs_forward_after_liveness" % nm, expected="true", found=str(nf), key="C13.forward-once|const|" + nm)
            if re.search(r"CONCURRENT_IMMIX", nm):
                ctx.judge(nf is False, "C13.forward-once", "%s.needs_forward_after_liveness" % nm, expected="false (no forwarding pass scheduled)", found=str(nf),
                          key="C13.forward-once|const|" + nm)

    # ---- C13.trace-kind (shared with C06: sched.check_trace_kinds)
    check_trace_kinds(ctx, F, "C13.trace-kind", sites, ("RefForwarding", "FinalizableForwarding", "VMRefForwarding"), ("SoftRefClosure", "FinalRefClosure", "VMRefClosure"), 12)

    # ---- C13.tracer-flush
    wt = [f for q, f in F.fns.items() if re.search(r"DefaultObjectTracerContext as .*ObjectTracerContext>::with_tracer$", q)]
    ctx.require(len(wt) == 1, "C13.tracer-flush: with_tracer of DefaultObjectTracerContext not found")
    w = wt[0]
    user = [c for c in live_calls(w) if c.name == "call_once"]
    fl = live_calls(w, name="flush_if_not_empty")
    okf = len(user) == 1 and bool(fl) and w.cfg.must_pass([c.bb for c in fl], start=user[0].bb, avoid_start=True)
    ctx.judge(okf, "C13.tracer-flush", "with_tracer flushes the tracer after the user closure", expected="flush_if_not_empty on every path after func(&mut tracer)",
              found="user=%d flush=%d" % (len(user), len(fl)), where=where(w), key="C13.tracer-flush")
    fi = F.fn("plan::tracing::gc_work::DefaultObjectTracer::flush_if_not_empty")
    fc = live_calls(fi, name="flush")
    ctx.judge(bool(fc) and all(len(sig(fi, c.bb)) == 1 and sig_find(fi, c.bb, r"is_empty", False) for c in fc), "C13.tracer-flush",
              "flush_if_not_empty flushes iff the queue is non-empty", expected="flush() guarded exactly by !queue.is_empty()",
              found=str([sig_strs(fi, c.bb) for c in fc]), where=where(fi), key="C13.tracer-flush|guard")
    fl2 = F.fn("plan::tracing::gc_work::DefaultObjectTracer::flush")
    adds = [s for s in sites if s.fn is fl2]
    ctx.judge(len(adds) == 1 and show(adds[0].recv).endswith("arg1.stage)"), "C13.tracer-flush",
              "traced objects are queued in the tracer's own stage", expected="ProcessNodes added to work_buckets[self.stage]",
              found=str(adds), where=where(fl2), key="C13.tracer-flush|stage")
