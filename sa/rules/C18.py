"""C18 Concurrent mark/log/pin state changes succeed exactly once (SF-CAS, DESIGN.md 4/C18)."""
import re
from .common import *
from .cas import check_cas_claim, RMW, PLAIN_STORES
from ..engine import AnalysisError, show, strip, short, walk, last_seg, tree_calls

PROP = "C18"
LEVEL = "other"
QUICK = ["K0", "K1", "K5"]
THOROUGH = ALL_CONFIGS
ASSUMPTIONS = ["the byte-level compare-exchange of sub-byte fields is decided under C20/C23 (partial clauses), not here",
               "the binding's compare_exchange_metadata is atomic"]
EXPLANATION = (
    "Every test-and-set function in the frozen table (mark, LOS mark, mark-compact mark/clear, log, pin/unpin, compressor mark, malloc "
    "page mark) has the claim shape: exactly one atomic read-modify-write; 'I did it' (true) is returned only under rmw.is_ok(); "
    "'someone else did' (false) only under a comparison of a freshly loaded value; the expected-old value is that load or a constant "
    "different from the new one; no plain store to the same metadata; a failed CAS loops back to the load. A discovery pass over the "
    "whole crate flags any other bool-returning function that both loads and plainly stores a mark/log/pin spec unless it is a "
    "reviewed exception (non-atomic mark used only when duplicate enqueuing is allowed; MallocSpace test-then-set under "
    "may_trace_duplicate_edges=true; SATB log_object's unconditional clear)."
)
TABLE = {
    "util::metadata::mark_bit::MarkState::test_and_mark": "mark bit (ImmortalSpace, VMSpace, ...)",
    "policy::immix::immixspace::ImmixSpace::attempt_mark": "Immix mark state",
    "policy::marksweepspace::native_ms::global::MarkSweepSpace::attempt_mark_atomic": "native mark-sweep mark",
    "policy::markcompactspace::MarkCompactSpace::test_and_mark": "mark-compact mark",
    "policy::markcompactspace::MarkCompactSpace::test_and_clear_mark": "mark-compact clear",
    "policy::largeobjectspace::LargeObjectSpace::test_and_mark": "LOS mark/nursery bits",
    "plan::barriers::ObjectBarrier::log_object": "unlog bit (object barrier)",
    "util::metadata::pin_bit::<impl vm::object_model::specs::VMLocalPinningBitSpec>::pin_object": "pin",
    "util::metadata::pin_bit::<impl vm::object_model::specs::VMLocalPinningBitSpec>::unpin_object": "unpin",
    "policy::compressor::compressorspace::CompressorSpace::test_and_mark": "compressor mark (fetch-update idiom)",
}
OPTIONAL = {"policy::marksweepspace::malloc_ms::metadata::compare_exchange_set_page_mark": "malloc page mark (feature malloc_mark_sweep)"}
EXCEPTIONS = {
    "policy::marksweepspace::native_ms::global::MarkSweepSpace::attempt_mark_non_atomic": "documented benign race; selected only when !UNIQUE_OBJECT_ENQUEUING",
    "policy::marksweepspace::malloc_ms::global::MallocSpace::trace_object": "plain test-then-set; allowed because the plan declares may_trace_duplicate_edges",
    "plan::concurrent::barrier::SATBBarrierSemantics::log_object": "unconditional clear of the unlog bit; duplicates are harmless for SATB",
}


def find_fn(F, q):
    if q in F.fns:
        return F.fns[q]
    # pin functions live in an inherent impl on a type from another module: tolerate path printing differences
    nm = last_seg(q)
    cands = [f for k, f in F.fns.items() if last_seg(k) == nm and ("pin_bit" in k or "VMLocalPinningBitSpec" in k) and f.kind != "closure"]
    cands = [f for f in cands if f.file.endswith("pin_bit.rs")]
    return cands[0] if len(cands) == 1 else None


def run(ctx, F):
    n = 0
    for q, what in list(TABLE.items()) + list(OPTIONAL.items()):
        f = find_fn(F, q)
        if f is None:
            if q in OPTIONAL:
                continue
            raise AnalysisError("C18: claim function %s not found in %s" % (q, F.config))
        check_cas_claim(ctx, F, f, "C18.claim", "%s [%s]" % (short(f.q), what))
        n += 1
    ctx.floor("C18.claim", n, 10, "test-and-set functions in the frozen table")

    # the primitives every claim above relies on: compare-exchange on a sub-byte in-header / side field is one atomic
    # byte-wide RMW, and atomic stores to a neighbouring field cannot overwrite it (no load-then-store)
    from .C23 import check_header_cas
    from .C20 import check_side_atomics
    check_header_cas(ctx, F, "C18.primitive-cas")
    check_side_atomics(ctx, F, "C18.primitive-cas")
    # selection of the non-atomic mark: only when duplicates are acceptable
    am = F.fns.get("policy::marksweepspace::native_ms::global::MarkSweepSpace::attempt_mark")
    if am is not None:
        na = live_calls(am, name="attempt_mark_non_atomic")
        at = live_calls(am, name="attempt_mark_atomic")
        okn = len(na) == 1 and len(at) == 1 and bool(guard_find(am, at[0].bb, r"UNIQUE_OBJECT_ENQUEUING", True)) and bool(guard_find(am, na[0].bb, r"UNIQUE_OBJECT_ENQUEUING", False))
        ctx.judge(okn, "C18.claim", "native mark-sweep uses the atomic mark whenever unique enqueuing is required", expected="attempt_mark_atomic iff Scanning::UNIQUE_OBJECT_ENQUEUING",
                  found="atomic guards=%s" % [guard_strs(am, c.bb) for c in at], where=where(am), key="C18.claim|ms-select")
    for q, c in F.consts.items():
        if q.endswith("MS_CONSTRAINTS") and isinstance(c["v"], dict):
            ctx.judge(c["v"].get("may_trace_duplicate_edges") is True, "C18.claim", "MarkSweep declares may_trace_duplicate_edges (licence for non-atomic marking)", expected="true",
                      found=str(c["v"].get("may_trace_duplicate_edges")), key="C18.claim|ms-const")

    # ---- discovery: other load+plain-store functions on mark/log/pin specs returning bool
    SPEC_RX = r"LOCAL_MARK_BIT_SPEC|LOCAL_LOS_MARK_NURSERY_SPEC|GLOBAL_LOG_BIT_SPEC|UNLOG_BIT_SPEC|LOCAL_PINNING_BIT_SPEC|forwarding::MARK_SPEC"
    known = {find_fn(F, q).q for q in list(TABLE) + list(OPTIONAL) if find_fn(F, q) is not None}
    found = 0
    for f in F.fns.values():
        if f.kind == "closure" or f.meta.get("output") != "bool":
            continue
        lds, sts = set(), set()
        for c in live_calls(f):
            if not c.args or c.name is None:
                continue
            if c.name in ("load_atomic", "load", "is_marked", "is_unlogged") or c.name in PLAIN_STORES:
                r = show(strip(f.flow.arg_tree(c, 0)))
                m = re.search(SPEC_RX, r)
                if m:
                    (sts if c.name in PLAIN_STORES else lds).add(m.group(0))
        both = lds & sts
        if both:
            found += 1
            okx = f.q in known or f.q in EXCEPTIONS
            ctx.judge(okx, "C18.discovery", "%s tests and plainly sets %s" % (short(f.q), sorted(both)),
                      expected="a bool-returning test-then-set on mark/log/pin metadata is a CAS claim (table) or a reviewed exception", found="unlisted function",
                      detail=EXCEPTIONS.get(f.q, ""), where=where(f), key="C18.discovery|" + f.q)
    ctx.ok("C18.discovery", "crate-wide scan for plain test-then-set on mark/log/pin metadata", "%d functions matched the pattern, all listed" % found)
