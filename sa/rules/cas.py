"""SF-CAS: shape check of test-and-set functions ("exactly one thread observes the transition as its own")."""
import re
from .common import *
from ..engine import AnalysisError, show, strip, short, walk, last_seg, tree_calls

RMW = ("compare_exchange_metadata", "compare_exchange_atomic", "compare_exchange", "fetch_update_atomic", "fetch_update_metadata", "fetch_update")
PLAIN_STORES = ("store_atomic", "store", "mark", "store_metadata", "set_bit")


LOADS = ("load_atomic", "load", "load_metadata")


def load_wrappers(F, fn):
    """Names of crate functions called by `fn` that only read the state: every returned value is computed from an atomic load and
    the body performs no RMW and no store (e.g. ObjectBarrier::object_is_unlogged). A call to one of them is a fresh read."""
    out = set()
    for x in live_calls(fn):
        g = F.fns.get(x.q) if x.q else None
        if g is None or g is fn or x.name in LOADS:
            continue
        inner = live_calls(g)
        if any(y.name in RMW or y.name in PLAIN_STORES for y in inner):
            continue
        rts = [t for _, t in g.flow.return_trees()]
        if rts and all(any(tree_calls(t, name=n) for n in LOADS) for t in rts):
            out.add(x.name)
    return out


def check_cas_claim(ctx, F, fn, rule, what):
    """Judge one claim function. Records instances under `rule`. Returns True if all hold."""
    okall = True
    load_names = tuple(LOADS) + tuple(sorted(load_wrappers(F, fn)))
    key0 = "%s|%s" % (rule, fn.q)
    rmw = [c for c in live_calls(fn) if c.name in RMW]
    okall &= ctx.judge(len(rmw) == 1, rule, "%s: one atomic read-modify-write" % what, expected="exactly one compare-exchange / fetch-update site", found=str([c.name for c in rmw]),
                       where=where(fn), key=key0 + "|rmw")
    if len(rmw) != 1:
        return False
    c = rmw[0]
    plain = [x for x in live_calls(fn) if x.name in PLAIN_STORES and x.args and "SPEC" in show(strip(fn.flow.arg_tree(x, 0))).upper()]
    okall &= ctx.judge(not plain, rule, "%s: no plain store to the metadata" % what, expected="state changes only through the RMW", found=str([(x.name, x.line) for x in plain]), where=where(fn),
                       key=key0 + "|nostore")
    rows = ret_table(fn)
    okall &= ctx.judge(bool(rows), rule, "%s: return table extracted" % what, expected=">=1 row", found="0", where=where(fn), key=key0 + "|rows")
    direct = [r for r in rows if tree_calls(r[1], name="is_ok") and tree_calls(r[1], name=c.name)]
    trues = [r for r in rows if const_arg(r[1]) is True]
    falses = [r for r in rows if const_arg(r[1]) is False]
    if direct and not trues and not falses:
        # idiom B/C: `RMW(..).is_ok()` is the result
        okall &= ctx.judge(len(direct) == len(rows), rule, "%s: the claim is the success of the RMW" % what, expected="returns rmw(..).is_ok()", found=str([show(r[1])[:80] for r in rows]),
                           where=where(fn), key=key0 + "|direct")
        if c.name.startswith("compare_exchange"):
            args = [strip(fn.flow.arg_tree(c, i)) for i in range(len(c.args))]
            consts = [const_arg(a) for a in args if const_arg(a) is not None and not isinstance(const_arg(a), str)]
            okd = len(consts) >= 2 and consts[0] != consts[1]
            okall &= ctx.judge(okd, rule, "%s: CAS between two distinct constants" % what, expected="compare_exchange(old const, new const), old != new", found=str(consts), where=where(fn, c.line),
                               key=key0 + "|consts")
        else:
            clo = closures_of(F, fn)
            okc = False
            for cl in clo:
                rr = ret_table(cl)
                somes = [r for r in rr if r[1] and r[1][0] == "agg" and r[1][1][2] == "Some"]
                nones = [r for r in rr if r[1] and r[1][0] == "agg" and r[1][1][2] == "None"]
                okc = bool(somes) and bool(nones) and all(any("arg2" in show(p.tree) for p in g) for b, t, g in somes)
            okall &= ctx.judge(okc, rule, "%s: the update closure succeeds only from the tested old value" % what, expected="|v| if v == OLD { Some(NEW) } else { None }", found="closures=%d" % len(clo),
                               where=where(fn), key=key0 + "|closure")
        return okall
    # idiom A: loop { old = load; if old is already NEW {return false}; if CAS(old -> NEW).is_ok() {break/return true} }
    okall &= ctx.judge(bool(trues) and bool(falses), rule, "%s: reports both outcomes" % what, expected="returns true (I did it) and false (someone else did)", found=str([show(r[1])[:40] for r in rows]),
                       where=where(fn), key=key0 + "|outcomes")
    for b, t, g in trues:
        okt = any(c.name in show(p.tree) and (("is_ok" in show(p.tree) and p.val is True) or ("is_err" in show(p.tree) and p.val is False) or p.val == "Ok") for p in g)
        okall &= ctx.judge(okt, rule, "%s: 'I did it' only after a successful RMW" % what, expected="true returned only under rmw(..).is_ok() == true",
                           found=str(["%s==%s" % (show(p.tree)[:60], p.val) for p in g]), where=where(fn), key=key0 + "|true")
    loads = [x for x in live_calls(fn) if x.name in load_names and x.args]
    for b, t, g in falses:
        okf = any(any(tree_calls(p.tree, name=n) for n in load_names) for p in g) and not any(("is_ok" in show(p.tree) and p.val is False) or ("is_err" in show(p.tree) and p.val is True) or (c.name in show(p.tree) and p.val == "Err") for p in g)
        okall &= ctx.judge(okf, rule, "%s: 'someone else did it' only from a loaded value" % what, expected="false returned under a comparison of the freshly loaded state (never merely because the CAS failed)",
                           found=str(["%s==%s" % (show(p.tree)[:60], p.val) for p in g]), where=where(fn), key=key0 + "|false")
    old = strip(fn.flow.arg_tree(c, 2)) if len(c.args) > 2 else None
    new = strip(fn.flow.arg_tree(c, 3)) if len(c.args) > 3 else None
    ok_old = old is not None and (any(bool(tree_calls(old, name=n)) for n in load_names) or (const_arg(old) is not None and const_arg(old) != const_arg(new)))
    okall &= ctx.judge(ok_old, rule, "%s: the expected-old value is the loaded state (or a constant different from the new one)" % what, expected="CAS(old = loaded value | const != new)",
                       found="old=%s new=%s" % (show(old)[:80], show(new)[:60]), where=where(fn, c.line), key=key0 + "|old")
    # retry: from the failed-CAS edge, no return without a new load
    fails = branch_edges(fn, r"is_ok\(", False) + branch_edges(fn, r"is_err\(", True) + branch_edges(fn, r"^[\w:<> ]*%s\(" % c.name, "Err")
    okr = bool(fails) and bool(loads)
    for a, s in fails:
        reach = fn.cfg.reachable_from(s, avoid={x.bb for x in loads}) | {s}
        if any(r in reach for r in fn.cfg.live_rets):
            okr = False
    okall &= ctx.judge(okr, rule, "%s: a failed CAS re-reads the state before deciding" % what, expected="from is_ok()==false every path to a return passes the load again",
                       found="failure edges=%s loads=%s" % (fails, [x.line for x in loads]), where=where(fn), key=key0 + "|retry")
    return okall
