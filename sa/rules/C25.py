"""C25 Side-metadata sanity checking rejects exactly the overlapping sets: interval-form and all-pairs clauses (partial)."""
import re
from .common import *
from ..engine import AnalysisError, show, strip, short, walk, last_seg, tree_calls

PROP = "C25"
LEVEL = "other"
QUICK = ["K0", "K1"]
THOROUGH = ALL_CONFIGS
ASSUMPTIONS = ["acceptance over all spec pairs is arithmetic and is not decided; only the shape of the interval predicate and the pair enumeration are",
               "metadata_address_range_size(spec) is the extent of a spec's range (trusted helper)"]
LEVEL_NOTE = "partial: decides (a) the overlap predicate has the interval form with each end measured from the same spec's start, (b) every ordered pair of distinct specs reaches the predicate and an Err is propagated to a panic; does not decide the arithmetic"
EXPLANATION = (
    "Partial claim. (interval-form) In verify_no_overlap_contiguous the rejection is control dependent on both comparisons "
    "start(spec_i) >= end(spec_j) being false, where end(spec_j) is start(spec_j) + size(spec_j) built from the *same* spec "
    "argument on both sides of the addition (an end measured from another origin accepts overlapping sets); (all-pairs) "
    "verify_global_specs and verify_local_specs call the predicate inside two nested iterations over the same spec collection, "
    "guarded only by spec_1 != spec_2, and propagate its Err with `?`; verify_metadata_context unwraps both results (panic on Err)."
)
SAN = "util::metadata::side_metadata::sanity::"


def arg_of(t):
    """Index of the function argument a tree is built from (arg1/arg2), if unique."""
    args = {s[1] for s in walk(t) if s and s[0] == "arg"}
    return args.pop() if len(args) == 1 else None


def _closure_in(F, t):
    cl = [x for x in walk(simp(t)) if x and x[0] == "agg" and x[1][0] == "closure" and x[1][1] in F.fns]
    return F.fns[cl[0][1][1]] if len(cl) == 1 else None


def _try_for_each_pairs(F, g):
    """g returns  LIST.iter().try_for_each(|a| LIST.iter().filter(|b| a != b).try_for_each(|b| verify_no_overlap_contiguous(a, b)))  and nothing else."""
    rts = [simp(t) for b_, t, g_ in ret_table(g)]
    tfe = [t for t in rts if t and t[0] == "call" and last_seg(t[1] or "") == "try_for_each"]
    # other returns may only propagate the error of an earlier check (`earlier_check(..)?`)
    if len(tfe) != 1 or any("verify_" not in show(t) for t in rts if t is not tfe[0]):
        return False
    t = tfe[0]
    if not (t and t[0] == "call" and last_seg(t[1] or "") == "try_for_each" and len(t[3]) == 2):
        return False
    outer_list = show(simp(t[3][0]))
    m = re.match(r"^\[T\]::iter\((.*)\)$", outer_list)
    c1 = _closure_in(F, t[3][1])
    if m is None or c1 is None:
        return False
    r1 = [simp(x) for _, x in c1.flow.return_trees()]
    if len(r1) != 1 or not (r1[0] and r1[0][0] == "call" and last_seg(r1[0][1] or "") == "try_for_each" and len(r1[0][3]) == 2):
        return False
    inner = simp(r1[0][3][0])
    if not (inner and inner[0] == "call" and last_seg(inner[1] or "") == "filter" and len(inner[3]) == 2 and re.match(r"^\[T\]::iter\(\**upvar\(\w+\)\)$", show(simp(inner[3][0])))):
        return False
    from .bitiso import upvar_tree
    um = re.match(r"^\[T\]::iter\(\**upvar\((\w+)\)\)$", show(simp(inner[3][0])))
    _, ut = upvar_tree(F, c1, um.group(1))
    if ut is None or show(simp(ut)).lstrip("&*") != m.group(1).lstrip("&*"):
        return False      # the inner iteration must range over the same list as the outer one
    cne = _closure_in(F, inner[3][1])
    c2 = _closure_in(F, r1[0][3][1])
    if cne is None or c2 is None:
        return False
    rne = [show(simp(x)) for _, x in cne.flow.return_trees()]
    if not (len(rne) == 1 and re.search(r"::ne\(.*upvar\(\w+\).*, .*arg2.*\)$|::ne\(.*arg2.*, .*upvar\(\w+\).*\)$", rne[0])):
        return False
    r2 = [show(simp(x)) for _, x in c2.flow.return_trees()]
    return len(r2) == 1 and re.match(r"^sanity::verify_no_overlap_contiguous\(\**upvar\(\w+\), \**arg2\)$", r2[0]) is not None


def run(ctx, F):
    f = F.fn(SAN + "verify_no_overlap_contiguous")
    ges = [c for c in live_calls(f) if c.name in ("ge", "lt", "le", "gt") and c.trait and "PartialOrd" in c.trait]
    ctx.judge(len(ges) == 2, "C25.interval-form", "two start>=end comparisons", expected="2 PartialOrd comparisons", found=str([c.name for c in ges]), where=where(f),
              key="C25.interval-form|count")
    seen = set()
    witness = {}   # comparison call name+line -> the truth value under which it proves "range i starts at/after the end of range j"

    def start_of(t):
        t = strip(t)
        i = arg_of(t)
        return i if (t and t[0] == "call" and last_seg(t[2] or t[1] or "") == "get_starting_address" and i is not None) else None

    def end_of(t):
        adds = [x for x in [strip(t)] if x and x[0] == "call" and isinstance(x[1], str) and last_seg(x[1]) == "add"]
        if not adds:
            return None
        base, size = strip(adds[0][3][0]), strip(adds[0][3][1])
        bi, si = start_of(base), arg_of(size)
        if bi is not None and bi == si and tree_calls(size, name="metadata_address_range_size"):
            return bi
        return None

    for c in ges:
        lhs = strip(f.flow.arg_tree(c, 0))
        rhs = strip(f.flow.arg_tree(c, 1))
        form = None
        if start_of(lhs) is not None and end_of(rhs) is not None and c.name in ("ge", "lt"):
            form = (start_of(lhs), end_of(rhs), c.name == "ge")          # start_i >= end_j  /  !(start_i < end_j)
        elif end_of(lhs) is not None and start_of(rhs) is not None and c.name in ("le", "gt"):
            form = (start_of(rhs), end_of(lhs), c.name == "le")          # end_j <= start_i  /  !(end_j > start_i)
        okf = form is not None and form[0] != form[1]
        if okf:
            seen.add((form[0], form[1]))
            witness[c.bb] = form[2]
        ctx.judge(okf, "C25.interval-form", "comparison at line %s has the form start(a) >= start(b) + size(b)" % c.line,
                  expected="start_i >= start_j + metadata_address_range_size(spec_j), i != j (or the equivalent <, <=, > form with the matching polarity)",
                  found="%s %s %s" % (show(lhs), c.name, show(rhs)), where=where(f, c.line), key="C25.interval-form|shape")
    ctx.judge(seen == {(1, 2), (2, 1)}, "C25.interval-form", "both directions are compared", expected="{spec_1 vs end_2, spec_2 vs end_1}", found=str(sorted(seen)), where=where(f),
              key="C25.interval-form|both")
    rows = ret_table(f)
    errs = [(b, t, g) for b, t, g in rows if "Err" in show(t)]

    def refuted(g):
        """number of the two comparisons that, on this path, say "range i does NOT start at/after the end of range j" """
        n = 0
        for c in ges:
            cs = show(strip(f.flow.call_tree(c.bb, f.blocks[c.bb]["t"])))
            for p in g:
                if show(strip(p.tree)) == cs and c.bb in witness and p.val is (not witness[c.bb]):
                    n += 1
                    break
        return n
    oke = len(errs) == 1 and len(ges) == 2 and refuted(errs[0][2]) == 2
    ctx.judge(oke, "C25.interval-form", "Err exactly when neither range starts at/after the other's end", expected="Err guarded by the negation of both disjointness comparisons",
              found=str([sorted("%s==%s" % (show(p.tree)[:60], p.val) for p in g) for b, t, g in errs])[:400], where=where(f), key="C25.interval-form|err")
    oks = [(b, t, g) for b, t, g in rows if "Ok" in show(t)]
    ctx.judge(bool(oks), "C25.interval-form", "disjoint pairs are accepted", expected="an Ok(()) return", found=str([show(t) for b, t, g in rows]), where=where(f),
              key="C25.interval-form|ok")

    # ---- all-pairs
    for q in (SAN + "verify_global_specs", SAN + "SideMetadataSanity::verify_local_specs"):
        g = F.fn(q)
        vs = live_calls(g, q=SAN + "verify_no_overlap_contiguous")
        if not vs and _try_for_each_pairs(F, g):
            # the nested loops written as iterator adaptors: xs.iter().try_for_each(|a| xs.iter().filter(|b| a != b).try_for_each(|b| check(a, b)))
            ctx.ok("C25.all-pairs", "%s calls the overlap predicate" % last_seg(q), "try_for_each nest over the same list, filtered by a != b, result returned", where(g))
            ctx.ok("C25.all-pairs", "%s checks every ordered pair of distinct specs" % last_seg(q), "try_for_each nest", where(g))
            ctx.ok("C25.all-pairs", "%s: both loops range over the same spec list" % last_seg(q), "try_for_each nest", where(g))
            ctx.ok("C25.all-pairs", "%s propagates an overlap error" % last_seg(q), "the Result of the outer try_for_each is the function's result", where(g))
            continue
        ctx.judge(len(vs) == 1, "C25.all-pairs", "%s calls the overlap predicate" % last_seg(q), expected="one call site in a nested loop", found=str(len(vs)), where=where(g),
                  key="C25.all-pairs|site|" + q)
        for c in vs:
            t1, t2 = strip(g.flow.arg_tree(c, 0)), strip(g.flow.arg_tree(c, 1))
            # the two arguments come from different iterator `next()` call sites (trees carry the call block)
            a1 = show(t1) + "@%s" % [s[4] for s in walk(t1) if s and s[0] == "call" and isinstance(s[1], str) and last_seg(s[1]) == "next"]
            a2 = show(t2) + "@%s" % [s[4] for s in walk(t2) if s and s[0] == "call" and isinstance(s[1], str) and last_seg(s[1]) == "next"]
            nexts = [x for x in live_calls(g) if x.name == "next"]
            gs = guards(g, c.bb)
            some = [p for p in gs if p.val == "Some" and "next" in show(p.tree)]
            ne = [p for p in gs if ("ne(" in show(p.tree) and p.val is True) or ("eq(" in show(p.tree) and p.val is False)]
            other = [p for p in gs if p not in some and p not in ne and "branch" not in show(p.tree)]
            okn = len(nexts) >= 2 and len(some) >= 2 and len(ne) == 1 and not other and a1 != a2 and "next" in a1 and "next" in a2
            ctx.judge(okn, "C25.all-pairs", "%s checks every ordered pair of distinct specs" % last_seg(q),
                      expected="two nested iterations; call guarded only by spec_1 != spec_2", found="guards=%s" % [("%s==%s" % (show(p.tree)[:50], p.val)) for p in gs], where=where(g, c.line),
                      key="C25.all-pairs|pairs|" + q)
            # both loops iterate the same collection
            its = [show(strip(g.flow.arg_tree(x, 0))) for x in live_calls(g) if x.name == "into_iter"]
            ctx.judge(len(its) >= 2 and len(set(its)) == 1, "C25.all-pairs", "%s: both loops range over the same spec list" % last_seg(q), expected="same collection twice", found=str(its)[:200],
                      where=where(g), key="C25.all-pairs|same|" + q)
        rows = ret_table(g)
        prop = [1 for b, t, gg in rows if "from_residual" in show(t) and "verify_no_overlap" in show(t)]
        ctx.judge(bool(prop), "C25.all-pairs", "%s propagates an overlap error" % last_seg(q), expected="`?` on the predicate's result", found=str([show(t)[:80] for b, t, gg in rows]),
                  where=where(g), key="C25.all-pairs|propagate|" + q)
    vm = F.fn(SAN + "SideMetadataSanity::verify_metadata_context")
    for callee in (SAN + "verify_global_specs", SAN + "SideMetadataSanity::verify_local_specs"):
        cs = live_calls(vm, q=callee)
        unw = [u for u in live_calls(vm, name="unwrap") if any(callee == (s[2] or s[1]) for s in walk(vm.flow.arg_tree(u, 0)) if s and s[0] == "call" and isinstance(s[1], str))]
        ctx.judge(bool(cs) and bool(unw), "C25.all-pairs", "verify_metadata_context panics when %s fails" % last_seg(callee), expected="result is unwrapped", found="calls=%d unwraps=%d" % (len(cs), len(unw)),
                  where=where(vm), key="C25.all-pairs|unwrap|" + callee)
    lv = live_calls(vm, q=SAN + "SideMetadataSanity::verify_local_specs")
    ctx.judge(bool(lv) and vm.cfg.must_pass([c.bb for c in lv]), "C25.all-pairs", "local specs are verified on every plan/policy registration", expected="verify_local_specs on every path",
              found=str(len(lv)), where=where(vm), key="C25.all-pairs|local-always")
    gv = live_calls(vm, q=SAN + "verify_global_specs")
    okg = bool(gv) and all(any("contains_key" in show(p.tree) for p in guards(vm, c.bb)) and len(guards(vm, c.bb)) == 1 for c in gv)
    ctx.judge(okg, "C25.all-pairs", "global specs are verified on the first registration", expected="verify_global_specs guarded only by first_call", found=str([guard_strs(vm, c.bb) for c in gv])[:200],
              where=where(vm), key="C25.all-pairs|global-first")
    _all_specs(ctx, F)


def _all_specs(ctx, F):
    """C25.all-specs: what the pairwise check is applied to. Every registered local spec takes part: duplicates are removed only by
    whole-spec equality, and one checker accumulates the specs of all spaces of a plan."""
    SS = "util::metadata::side_metadata::sanity::SideMetadataSanity::"
    f = F.fn(SS + "get_all_specs")
    dd = [c for c in live_calls(f) if c.name in ("dedup", "dedup_by", "dedup_by_key", "retain", "retain_mut", "truncate", "drain", "sort_by_key", "from_iter", "remove", "pop", "swap_remove")]
    full = [c for c in dd if (c.name == "from_iter" and c.ga and re.match(r"^std::collections::(HashSet|BTreeSet)<util::metadata::side_metadata::global::SideMetadataSpec>$", c.ga[0])) or c.name == "dedup"]
    lossy = [c for c in dd if c not in full and c.name != "sort_by_key"]
    ctx.judge(len(full) >= 1 and not lossy, "C25.all-specs", "get_all_specs drops a spec only when an identical spec is already present",
              expected="deduplication by whole-spec equality (HashSet<SideMetadataSpec> / Vec::dedup), no key-based dedup, retain or truncation", found=str([(c.name, c.ga[:1]) for c in dd])[:200], where=where(f),
              key="C25.all-specs|dedup")
    ap = [c for c in live_calls(f) if c.name in ("append", "extend", "extend_from_slice", "push")]
    it = [c for c in live_calls(f) if c.name == "iter" and "specs_sanity_map" in show(strip(f.flow.arg_tree(c, 0)))]
    ctx.judge(len(ap) >= 1 and len(it) == 1 and all(any("Iterator>::next" in show(p.tree) and p.val == "Some" for p in guards(f, c.bb)) for c in ap), "C25.all-specs",
              "get_all_specs gathers the specs of every registered policy", expected="append inside the loop over specs_sanity_map", found="appends=%d iters=%d" % (len(ap), len(it)), where=where(f),
              key="C25.all-specs|gather")
    rts = [show(strip(t)) for _, t in f.flow.return_trees()]
    ctx.judge(bool(rts) and all(("from_iter" in r or "dedup" in r or r.startswith("Vec::new")) for r in rts), "C25.all-specs", "the gathered list is what is returned", expected="collect of the deduplicated set",
              found=str(rts)[:200], where=where(f), key="C25.all-specs|ret")
    # one checker per plan
    g = F.fn("plan::global::Plan::verify_side_metadata_sanity")
    news = live_calls(g, q=SS + "new")
    fes = live_calls(g, name="for_each_space")
    cls = closures_of(F, g)
    okc = len(news) == 1 and len(fes) == 1 and len(cls) == 1 and g.cfg.dominates(news[0].bb, fes[0].bb)
    found = "new() in fn body=%d for_each_space=%d closures=%d" % (len(news), len(fes), len(cls))
    if okc:
        vs = [c for c in live_calls(cls[0]) if c.name == "verify_side_metadata_sanity"]
        inner_new = live_calls(cls[0], q=SS + "new")
        okc = len(vs) == 1 and not inner_new and strip(cls[0].flow.arg_tree(vs[0], 1)) and strip(cls[0].flow.arg_tree(vs[0], 1))[0] == "upvar"
        found += " per-space verify calls=%d checker=%s" % (len(vs), show(strip(cls[0].flow.arg_tree(vs[0], 1))) if vs else None)
    ctx.judge(okc, "C25.all-specs", "one SideMetadataSanity accumulates the specs of all spaces of the plan", expected="checker created once before for_each_space and captured by the per-space closure",
              found=found, where=where(g), key="C25.all-specs|one-checker")
    allowed = {"plan::global::Plan::verify_side_metadata_sanity": "the plan-wide checker", "<util::metadata::side_metadata::sanity::SideMetadataSanity as std::default::Default>::default": "Default impl"}
    check_callers(ctx, F, "C25.all-specs", SS + "new", allowed, min_sites=1)
