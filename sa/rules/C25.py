"""C25 Side-metadata sanity checking rejects exactly the overlapping sets: interval-form and all-pairs clauses (partial)."""
import re
from .common import *
from ..engine import AnalysisError, show, strip, short, walk, last_seg, tree_calls

PROP = "C25"
LEVEL = "other"
QUICK = ["K0", "K1"]
THOROUGH = ALL_CONFIGS
ASSUMPTIONS = ["acceptance over all spec pairs is arithmetic and is not decided; only the shape of the interval predicate and the pair enumeration are",
               "metadata_address_range_size(spec) is the extent of a spec's range (trusted helper)"]
LEVEL_NOTE = "partial: decides (a) the overlap predicate has the interval form with each end measured from the same spec's start, (b) every ordered pair of distinct specs reaches the predicate and an Err is propagated to a panic; does not decide the arithmetic"
EXPLANATION = (
    "Partial claim. (interval-form) In verify_no_overlap_contiguous the rejection is control dependent on both comparisons "
    "start(spec_i) >= end(spec_j) being false, where end(spec_j) is start(spec_j) + size(spec_j) built from the *same* spec "
    "argument on both sides of the addition (an end measured from another origin accepts overlapping sets); (all-pairs) "
    "verify_global_specs and verify_local_specs call the predicate inside two nested iterations over the same spec collection, "
    "guarded only by spec_1 != spec_2, and propagate its Err with `?`; verify_metadata_context unwraps both results (panic on Err)."
)
SAN = "util::metadata::side_metadata::sanity::"


def arg_of(t):
    """Index of the function argument a tree is built from (arg1/arg2), if unique."""
    args = {s[1] for s in walk(t) if s and s[0] == "arg"}
    return args.pop() if len(args) == 1 else None


def run(ctx, F):
    f = F.fn(SAN + "verify_no_overlap_contiguous")
    ges = [c for c in live_calls(f) if c.name in ("ge", "lt", "le", "gt") and c.trait and "PartialOrd" in c.trait]
    ctx.judge(len(ges) == 2, "C25.interval-form", "two start>=end comparisons", expected="2 PartialOrd comparisons", found=str([c.name for c in ges]), where=where(f),
              key="C25.interval-form|count")
    seen = set()
    for c in ges:
        lhs = strip(f.flow.arg_tree(c, 0))
        rhs = strip(f.flow.arg_tree(c, 1))
        li = arg_of(lhs)
        okl = bool(tree_calls(lhs, name="get_starting_address")) and li is not None
        adds = [s for s in walk(rhs) if s and s[0] == "call" and isinstance(s[1], str) and last_seg(s[1]) == "add"]
        okr = False
        detail = show(rhs)
        if adds:
            a = adds[0]
            base, size = strip(a[3][0]), strip(a[3][1])
            bi, si = arg_of(base), arg_of(size)
            okr = (bool(tree_calls(base, name="get_starting_address")) and bool(tree_calls(size, name="metadata_address_range_size"))
                   and bi is not None and bi == si and li is not None and bi != li)
            seen.add((li, bi))
        ctx.judge(c.name == "ge" and okl and okr, "C25.interval-form", "comparison at line %s has the form start(a) >= start(b) + size(b)" % c.line,
                  expected="lhs = spec_i.get_starting_address(); rhs = spec_j.get_starting_address() + metadata_address_range_size(spec_j), i != j",
                  found="%s %s %s" % (show(lhs), c.name, detail), where=where(f, c.line), key="C25.interval-form|shape")
    ctx.judge(seen == {(1, 2), (2, 1)}, "C25.interval-form", "both directions are compared", expected="{spec_1 vs end_2, spec_2 vs end_1}", found=str(sorted(seen)), where=where(f),
              key="C25.interval-form|both")
    rows = ret_table(f)
    errs = [(b, t, g) for b, t, g in rows if "Err" in show(t)]
    oke = len(errs) == 1 and sum(1 for p in errs[0][2] if "PartialOrd::ge" in show(p.tree) and p.val is False) == 2
    ctx.judge(oke, "C25.interval-form", "Err exactly when neither range starts at/after the other's end", expected="Err guarded by ge(..)==false for both comparisons",
              found=str([sorted("%s==%s" % (show(p.tree)[:60], p.val) for p in g) for b, t, g in errs])[:400], where=where(f), key="C25.interval-form|err")
    oks = [(b, t, g) for b, t, g in rows if "Ok" in show(t)]
    ctx.judge(bool(oks), "C25.interval-form", "disjoint pairs are accepted", expected="an Ok(()) return", found=str([show(t) for b, t, g in rows]), where=where(f),
              key="C25.interval-form|ok")

    # ---- all-pairs
    for q in (SAN + "verify_global_specs", SAN + "SideMetadataSanity::verify_local_specs"):
        g = F.fn(q)
        vs = live_calls(g, q=SAN + "verify_no_overlap_contiguous")
        ctx.judge(len(vs) == 1, "C25.all-pairs", "%s calls the overlap predicate" % last_seg(q), expected="one call site in a nested loop", found=str(len(vs)), where=where(g),
                  key="C25.all-pairs|site|" + q)
        for c in vs:
            t1, t2 = strip(g.flow.arg_tree(c, 0)), strip(g.flow.arg_tree(c, 1))
            # the two arguments come from different iterator `next()` call sites (trees carry the call block)
            a1 = show(t1) + "@%s" % [s[4] for s in walk(t1) if s and s[0] == "call" and isinstance(s[1], str) and last_seg(s[1]) == "next"]
            a2 = show(t2) + "@%s" % [s[4] for s in walk(t2) if s and s[0] == "call" and isinstance(s[1], str) and last_seg(s[1]) == "next"]
            nexts = [x for x in live_calls(g) if x.name == "next"]
            gs = guards(g, c.bb)
            some = [p for p in gs if p.val == "Some" and "next" in show(p.tree)]
            ne = [p for p in gs if ("ne(" in show(p.tree) and p.val is True) or ("eq(" in show(p.tree) and p.val is False)]
            other = [p for p in gs if p not in some and p not in ne and "branch" not in show(p.tree)]
            okn = len(nexts) >= 2 and len(some) >= 2 and len(ne) == 1 and not other and a1 != a2 and "next" in a1 and "next" in a2
            ctx.judge(okn, "C25.all-pairs", "%s checks every ordered pair of distinct specs" % last_seg(q),
                      expected="two nested iterations; call guarded only by spec_1 != spec_2", found="guards=%s" % [("%s==%s" % (show(p.tree)[:50], p.val)) for p in gs], where=where(g, c.line),
                      key="C25.all-pairs|pairs|" + q)
            # both loops iterate the same collection
            its = [show(strip(g.flow.arg_tree(x, 0))) for x in live_calls(g) if x.name == "into_iter"]
            ctx.judge(len(its) >= 2 and len(set(its)) == 1, "C25.all-pairs", "%s: both loops range over the same spec list" % last_seg(q), expected="same collection twice", found=str(its)[:200],
                      where=where(g), key="C25.all-pairs|same|" + q)
        rows = ret_table(g)
        prop = [1 for b, t, gg in rows if "from_residual" in show(t) and "verify_no_overlap" in show(t)]
        ctx.judge(bool(prop), "C25.all-pairs", "%s propagates an overlap error" % last_seg(q), expected="`?` on the predicate's result", found=str([show(t)[:80] for b, t, gg in rows]),
                  where=where(g), key="C25.all-pairs|propagate|" + q)
    vm = F.fn(SAN + "SideMetadataSanity::verify_metadata_context")
    for callee in (SAN + "verify_global_specs", SAN + "SideMetadataSanity::verify_local_specs"):
        cs = live_calls(vm, q=callee)
        unw = [u for u in live_calls(vm, name="unwrap") if any(callee == (s[2] or s[1]) for s in walk(vm.flow.arg_tree(u, 0)) if s and s[0] == "call" and isinstance(s[1], str))]
        ctx.judge(bool(cs) and bool(unw), "C25.all-pairs", "verify_metadata_context panics when %s fails" % last_seg(callee), expected="result is unwrapped", found="calls=%d unwraps=%d" % (len(cs), len(unw)),
                  where=where(vm), key="C25.all-pairs|unwrap|" + callee)
    lv = live_calls(vm, q=SAN + "SideMetadataSanity::verify_local_specs")
    ctx.judge(bool(lv) and vm.cfg.must_pass([c.bb for c in lv]), "C25.all-pairs", "local specs are verified on every plan/policy registration", expected="verify_local_specs on every path",
              found=str(len(lv)), where=where(vm), key="C25.all-pairs|local-always")
    gv = live_calls(vm, q=SAN + "verify_global_specs")
    okg = bool(gv) and all(any("contains_key" in show(p.tree) for p in guards(vm, c.bb)) and len(guards(vm, c.bb)) == 1 for c in gv)
    ctx.judge(okg, "C25.all-pairs", "global specs are verified on the first registration", expected="verify_global_specs guarded only by first_call", found=str([guard_strs(vm, c.bb) for c in gv])[:200],
              where=where(vm), key="C25.all-pairs|global-first")
    _all_specs(ctx, F)


def _all_specs(ctx, F):
    """C25.all-specs: what the pairwise check is applied to. Every registered local spec takes part: duplicates are removed only by
    whole-spec equality, and one checker accumulates the specs of all spaces of a plan."""
    SS = "util::metadata::side_metadata::sanity::SideMetadataSanity::"
    f = F.fn(SS + "get_all_specs")
    dd = [c for c in live_calls(f) if c.name in ("dedup", "dedup_by", "dedup_by_key", "retain", "retain_mut", "truncate", "drain", "sort_by_key", "from_iter", "remove", "pop", "swap_remove")]
    full = [c for c in dd if (c.name == "from_iter" and c.ga and re.match(r"^std::collections::(HashSet|BTreeSet)<util::metadata::side_metadata::global::SideMetadataSpec>$", c.ga[0])) or c.name == "dedup"]
    lossy = [c for c in dd if c not in full and c.name != "sort_by_key"]
    ctx.judge(len(full) >= 1 and not lossy, "C25.all-specs", "get_all_specs drops a spec only when an identical spec is already present",
              expected="deduplication by whole-spec equality (HashSet<SideMetadataSpec> / Vec::dedup), no key-based dedup, retain or truncation", found=str([(c.name, c.ga[:1]) for c in dd])[:200], where=where(f),
              key="C25.all-specs|dedup")
    ap = [c for c in live_calls(f) if c.name in ("append", "extend", "extend_from_slice", "push")]
    it = [c for c in live_calls(f) if c.name == "iter" and "specs_sanity_map" in show(strip(f.flow.arg_tree(c, 0)))]
    ctx.judge(len(ap) >= 1 and len(it) == 1 and all(any("Iterator>::next" in show(p.tree) and p.val == "Some" for p in guards(f, c.bb)) for c in ap), "C25.all-specs",
              "get_all_specs gathers the specs of every registered policy", expected="append inside the loop over specs_sanity_map", found="appends=%d iters=%d" % (len(ap), len(it)), where=where(f),
              key="C25.all-specs|gather")
    rts = [show(strip(t)) for _, t in f.flow.return_trees()]
    ctx.judge(bool(rts) and all(("from_iter" in r or "dedup" in r or r.startswith("Vec::new")) for r in rts), "C25.all-specs", "the gathered list is what is returned", expected="collect of the deduplicated set",
              found=str(rts)[:200], where=where(f), key="C25.all-specs|ret")
    # one checker per plan
    g = F.fn("plan::global::Plan::verify_side_metadata_sanity")
    news = live_calls(g, q=SS + "new")
    fes = live_calls(g, name="for_each_space")
    cls = closures_of(F, g)
    okc = len(news) == 1 and len(fes) == 1 and len(cls) == 1 and g.cfg.dominates(news[0].bb, fes[0].bb)
    found = "new() in fn body=%d for_each_space=%d closures=%d" % (len(news), len(fes), len(cls))
    if okc:
        vs = [c for c in live_calls(cls[0]) if c.name == "verify_side_metadata_sanity"]
        inner_new = live_calls(cls[0], q=SS + "new")
        okc = len(vs) == 1 and not inner_new and strip(cls[0].flow.arg_tree(vs[0], 1)) and strip(cls[0].flow.arg_tree(vs[0], 1))[0] == "upvar"
        found += " per-space verify calls=%d checker=%s" % (len(vs), show(strip(cls[0].flow.arg_tree(vs[0], 1))) if vs else None)
    ctx.judge(okc, "C25.all-specs", "one SideMetadataSanity accumulates the specs of all spaces of the plan", expected="checker created once before for_each_space and captured by the per-space closure",
              found=found, where=where(g), key="C25.all-specs|one-checker")
    allowed = {"plan::global::Plan::verify_side_metadata_sanity": "the plan-wide checker", "<util::metadata::side_metadata::sanity::SideMetadataSanity as std::default::Default>::default": "Default impl"}
    check_callers(ctx, F, "C25.all-specs", SS + "new", allowed, min_sites=1)
