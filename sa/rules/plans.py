"""Shared table extraction for plan / mutator structure (SF-MUT, SF-PLAN of DESIGN.md)."""
import re
from .common import *
from ..engine import AnalysisError, show, strip, short, walk, tree_calls, last_seg

SEM_TY = "plan::global::AllocationSemantics"
SEL_ADT = "util::alloc::allocators::AllocatorSelector"
TLAB_KINDS = {"BumpPointer", "Immix", "MarkCompact", "FreeList"}
RESET_METHODS = {"reset", "rebind", "release"}


def consts_of_type(tree, ty_suffix):
    """Fieldless enum constants of a given type inside a tree (aggregates or evaluated consts)."""
    out = []
    for s in walk(tree):
        if not s:
            continue
        if s[0] == "agg" and s[1][0] == "adt" and s[1][1] and s[1][1].endswith(ty_suffix) and not s[2]:
            out.append(s[1][2])
        elif s[0] == "const" and s[1] and s[1].endswith(ty_suffix) and isinstance(s[2], str):
            out.append(s[2])
    return out


def selector_of(tree):
    """('Immix', 0) for an AllocatorSelector aggregate; ('call', name) for reserved.add_*_allocator()."""
    t = strip(tree)
    if t and t[0] == "agg" and t[1][0] == "adt" and t[1][1] == SEL_ADT:
        idx = None
        if t[2]:
            a = strip(t[2][0])
            if a and a[0] == "const":
                idx = a[2]
        return (t[1][2], idx)
    if t and t[0] == "call" and isinstance(t[1], str) and re.match(r"add_\w+_allocator$", last_seg(t[1])):
        return ("add", last_seg(t[1]))
    if t and t[0] == "phi":
        alts = [selector_of(a) for a in t[1]]
        return ("phi", tuple(alts))
    return None


def index_assignments(fn):
    """`map[K] = V` patterns: (key tree, value tree, bb) for every IndexMut::index_mut whose result is stored through."""
    out = []
    for cs in live_calls(fn, name="index_mut"):
        if not cs.dest or len(cs.dest) != 1:
            continue
        d = cs.dest[0]
        key = fn.flow.arg_tree(cs, 1)
        # find `(*d) = rvalue` or through a copy of d
        aliases = {d}
        for i, b in enumerate(fn.blocks):
            for j, st in enumerate(b["s"]):
                if st[0] == "=" and len(st[1]) == 1 and st[2][0] in ("use", "ref") and isinstance(st[2][-1], list):
                    src = st[2][-1]
                    pl = src[1] if st[2][0] == "use" and src[0] in ("c", "m") else (src if st[2][0] == "ref" else None)
                    if pl and pl[0] in aliases and all(p == "*" for p in pl[1:]):
                        aliases.add(st[1][0])
        for i, b in enumerate(fn.blocks):
            if i not in fn.cfg.live:
                continue
            for j, st in enumerate(b["s"]):
                if st[0] == "=" and st[1][0] in aliases and st[1][1:] == ["*"]:
                    out.append((key, fn.flow.rvalue_tree(st[2], i, j), i))
    return out


def vec_pushes(fn):
    """(tuple element trees, bb) for every Vec::push of a tuple aggregate."""
    out = []
    for cs in live_calls(fn, name="push"):
        if len(cs.args) < 2:
            continue
        t = strip(fn.flow.arg_tree(cs, 1))
        if t and t[0] == "agg" and t[1][0] == "tuple":
            out.append((t[2], cs))
    return out


class MutCfg:
    def __init__(self):
        self.creator = None
        self.prepare = None
        self.release = None
        self.mapping_static = None
        self.space_mapping_tree = None
        self.pushes = []


def mutator_configs(F):
    out = []
    for f in F.fns.values():
        for i, b in enumerate(f.blocks):
            if i not in f.cfg.live:
                continue
            for j, st in enumerate(b["s"]):
                if st[0] == "=" and st[2][0] == "agg" and st[2][1].get("adt", "").endswith("mutator_context::MutatorConfig"):
                    m = MutCfg()
                    m.creator = f
                    names = st[2][1]["fields"]
                    for n, op in zip(names, st[2][2]):
                        t = strip(f.flow.operand_tree(op, i, j))
                        if n in ("prepare_func", "release_func"):
                            fr = [s for s in walk(t) if s and s[0] == "fnref"]
                            q = fr[0][1] if fr else None
                            if n == "prepare_func":
                                m.prepare = q
                            else:
                                m.release = q
                        elif n == "allocator_mapping":
                            # `&ALLOCATOR_MAPPING` is a reference to a lazy_static unit struct: the
                            # constant's type names the static
                            cs = [s for s in walk(t) if s and s[0] == "const" and s[1]]
                            m.mapping_static = (cs[0][3] or cs[0][1].lstrip("&")) if cs else None
                        elif n == "space_mapping":
                            m.space_mapping_tree = t
                    m.pushes = vec_pushes(f)
                    out.append(m)
    return out


def mapping_initializer(F, static_q):
    """The lazy_static initialiser function of an ALLOCATOR_MAPPING static."""
    cands = [f for q, f in F.fns.items() if q.startswith("<%s as " % static_q) and q.endswith("__static_ref_initialize")]
    if len(cands) != 1:
        raise AnalysisError("cannot find lazy_static initialiser of %s (%d candidates)" % (static_q, len(cands)))
    return cands[0]


def common_mapping(F):
    """Rows of create_allocator_mapping on live paths: [(semantics, selector)] in block order, with the guard of include_common_plan."""
    f = F.fn("plan::mutator_context::create_allocator_mapping")
    rows = []
    for key, val, bb in index_assignments(f):
        sems = consts_of_type(key, "AllocationSemantics")
        rows.append((sems[0] if sems else None, selector_of(val), bb, bool(guard_find(f, bb, r"^arg2$", True))))
    rows.sort(key=lambda r: r[2])
    return f, rows


def common_space_mapping(F):
    f = F.fn("plan::mutator_context::create_space_mapping")
    rows = []
    for elems, cs in vec_pushes(f):
        sel = selector_of(elems[0])
        sp = strip(elems[1])
        rows.append((sel, sp, cs.bb, bool(guard_find(f, cs.bb, r"^arg2$", True)), cs))
    rows.sort(key=lambda r: r[2])
    return f, rows


def plan_mapping(F, m):
    """semantics -> selector for one plan: the common rows plus the plan's overrides."""
    init = mapping_initializer(F, m.mapping_static)
    base = [c for c in live_calls(init, name="create_allocator_mapping")]
    include_common = None
    if base:
        include_common = const_arg(init.flow.arg_tree(base[0], 1))
    table = {}
    if base:
        _, rows = common_mapping(F)
        for sem, sel, bb, guarded in rows:
            if guarded and include_common is False:
                continue
            table[sem] = sel
    for key, val, bb in index_assignments(init):
        sems = consts_of_type(key, "AllocationSemantics")
        if sems:
            table[sems[0]] = selector_of(val)
    return table, init, include_common


def local_helper(F, cs):
    """Resolved local callee of a call site when it is a plain (non-trait-dispatched) function with a body."""
    q = cs.res or cs.q
    if q and q in F.fns and not (cs.trait and not cs.res):
        return F.fns[q]
    return None


def reset_summary(F, fn, sem, methods=RESET_METHODS, depth=0, memo=None):
    """(min,max) number of reset/rebind/release calls on the allocator of semantics `sem` along every path of fn,
    following helper functions of the plan::* mutator modules (inlining bound 4)."""
    memo = memo if memo is not None else {}
    key = (fn.q, sem)
    if key in memo:
        return memo[key]
    memo[key] = (0, 0)
    weights = {}
    for cs in live_calls(fn):
        if cs.q is None:
            continue
        if cs.name in methods and cs.args:
            recv = fn.flow.arg_tree(cs, 0)
            if sem in consts_of_type(recv, "AllocationSemantics") and re.search(r"Allocator", cs.q + (cs.res or "")):
                weights[cs.bb] = (1, 1)
                continue
        h = local_helper(F, cs)
        if h is not None and depth < 4 and re.match(r"plan::", h.q) and h.kind != "closure":
            s = reset_summary(F, h, sem, methods, depth + 1, memo)
            if s != (0, 0):
                weights[cs.bb] = s
    r = fn.cfg.weighted_path_counts(weights) if weights else (0, 0)
    memo[key] = r
    return r


def diverges(fn):
    return fn.cfg.noreturn


# ---------------------------------------------------------------- plan structure (SF-PLAN)
def space_types(F):
    return {im["self"] for im in F.impls_of("policy::space::Space")}


def struct_fields(F, adt):
    a = F.adts.get(adt)
    if not a or a["kind"] != "struct":
        return []
    return [(f["name"], f["ty_head"]) for f in a["variants"][0]["fields"]]


def space_paths(F, adt, prefix=(), depth=0, spaces=None):
    """All field paths (tuples of field names) below struct `adt` whose type implements Space,
    descending through non-space structs of the plan:: modules (parents)."""
    spaces = spaces if spaces is not None else space_types(F)
    out = {}
    if depth > 4:
        return out
    for name, head in struct_fields(F, adt):
        if head in spaces:
            out[prefix + (name,)] = head
        elif head.startswith("plan::") and head in F.adts and F.adts[head]["kind"] == "struct":
            out.update(space_paths(F, head, prefix + (name,), depth + 1, spaces))
    return out


def field_chain(t):
    """('a','b') for field(field(arg1,'a'),'b') (after strip); None if not a pure chain from arg1."""
    names = []
    t = strip(t)
    while t and t[0] == "field":
        names.append(t[2])
        t = strip(t[1])
    if t == ("arg", 1):
        return tuple(reversed(names))
    return None


def receiver_paths(F, fn, t, prefix, depth=0):
    """Possible plan-relative field paths of a receiver tree evaluated in fn whose `self` is at `prefix`."""
    t = strip(t)
    ch = field_chain(t)
    if ch is not None:
        return {prefix + ch}
    out = set()
    if t and t[0] == "phi":
        for a in t[1]:
            out |= receiver_paths(F, fn, a, prefix, depth)
        return out
    if t and t[0] == "call" and isinstance(t[1], str) and depth < 3 and t[3]:
        h = F.fns.get(t[2] or t[1])
        if h is not None and h.q.startswith("plan::") and h.kind != "closure":
            inner = receiver_paths(F, fn, t[3][0], prefix, depth + 1)
            for p in inner:
                for r, rt in h.flow.return_trees():
                    out |= receiver_paths(F, h, rt, p, depth + 1)
    return out


def role_calls(F, plan_adt, role, spaces=None):
    """Walk <plan as Plan>::role and the plan-local helpers it calls. Returns
    (covered: {path: [(fn, callsite)]}, wrong_role: [(path, fn, callsite)], visited fns)."""
    spaces = spaces if spaces is not None else space_types(F)
    sp = space_paths(F, plan_adt, spaces=spaces)
    root = F.fns.get("<%s as plan::global::Plan>::%s" % (plan_adt, role))
    if root is None:
        raise AnalysisError("plan %s has no %s body" % (plan_adt, role))
    covered = {}
    wrong = []
    visited = set()
    other = {"prepare": "release", "release": "prepare"}.get(role)

    def visit(fn, prefix, depth):
        if (fn.q, prefix) in visited or depth > 5:
            return
        visited.add((fn.q, prefix))
        for cs in live_calls(fn):
            if cs.q is None or not cs.args or is_transparent_call(cs):
                continue
            paths = receiver_paths(F, fn, fn.flow.arg_tree(cs, 0), prefix)
            if not paths:
                continue
            nm = cs.name
            for p in paths:
                if p in sp:
                    if nm == role or nm.startswith(role + "_"):
                        covered.setdefault(p, []).append((fn, cs))
                    elif other and (nm == other or nm.startswith(other + "_")):
                        wrong.append((p, fn, cs))
                else:
                    h = local_helper(F, cs)
                    if h is not None and h.q.startswith("plan::") and h.kind != "closure":
                        visit(h, p, depth + 1)
    visit(root, (), 0)
    return covered, wrong, sp, root
