"""C40 Revisitable group-by partitions its input into maximal runs: structural clauses (DESIGN.md 8.11)."""
import re
from .common import *
from ..engine import AnalysisError, show, strip, short, last_seg

PROP = "C40"
LEVEL = "other"
QUICK = ["K0"]
THOROUGH = ["K0", "K2"]
LEVEL_NOTE = ("partial: decides the bookkeeping that the loop invariant of RevisitableGroupBy::next rests on - the run counter starts at 1 (the head) and is incremented by exactly 1 exactly for a consumed "
              "item whose key equals the head's key; the first item with a different key is stashed (not dropped) as the next group's head and nothing more is consumed afterwards; the key function is "
              "applied to each consumed item exactly once; the group's iterator is the source iterator cloned after the head was taken and before any further item; the group reports len = remaining = "
              "the counter and its key is the head's key; RevisitableGroup::next yields the head first, then items of the cloned iterator, decrementing `remaining` once per yielded item and stopping at 0. "
              "That these clauses imply the stated partition property (an induction over the input) is the argument of DESIGN.md 8.11, not something the checker derives; the behaviour of the underlying "
              "iterator's clone()/next() is assumed.")
ASSUMPTIONS = ["the source iterator's clone() yields the same remaining sequence as the original (Iterator + Clone contract)",
               "the key function is deterministic for the duration of one grouping"]
EXPLANATION = (
    "Necessary structural conditions of C40. NEW: revisitable_group_by builds {iter: self, get_key, next_group_initial: None}. HEAD: next() takes the stashed head if there is one, otherwise the "
    "next source item (returning None only when both are absent). COUNT: exactly one `+ 1` assignment in next(), on a counter whose other definition is the constant 1, guarded by "
    "iter.next()==Some and key(item)==group_key. STASH: the only store to next_group_initial (besides take()) is Some((item, key(item))) of the item just consumed, guarded by key != group_key, and "
    "no further source item is consumed after it. KEY-ONCE: every call of the key function takes the item consumed on that path. CLONE: the group's iterator is clone(self.iter) taken after the "
    "head acquisition and before the loop's first consumption. GROUP: the returned group has len and remaining equal to the counter, key equal to the head's key, head = Some(head). "
    "GROUP-NEXT: None iff remaining==0; otherwise remaining -= 1 exactly once and the result is the taken head if present else iter.next()."
)
TECHNIQUE = ("static analysis: return-value tables and store census with control-dependence guards over the polymorphic MIR of the two Iterator::next bodies (resolved callees, dominance of the clone "
             "point between the two consumption sites); no code is executed")

GB = "<util::rust_util::rev_group::RevisitableGroupBy as std::iter::Iterator>::next"
GN = "<util::rust_util::rev_group::RevisitableGroup as std::iter::Iterator>::next"
NEW = "<I as util::rust_util::rev_group::RevisitableGroupByForIterator>::revisitable_group_by"
NONE = "option::Option::None{}"


def _rows(f):
    out = []
    for b, t, g in ret_table(f):
        gs = []
        for p in g:
            gt, gv = norm_guard(p)
            gs.append((show(gt), gv))
        out.append((simp(t), gs))
    return out


def _norm_rem(gs):
    """guards on `remaining`: (remaining Eq 0)==False, (remaining Ne 0)==True, (remaining Gt 0)==True are the same fact"""
    out = []
    for s, v in gs:
        m = re.match(r"^\((arg1\.remaining) (Eq|Ne|Gt) 0\)$", s) or re.match(r"^\(0 (Eq|Ne|Lt) (arg1\.remaining)\)$", s)
        if m:
            op = m.group(2) if m.group(1).startswith("arg1") else m.group(1)
            zero = (v is True) if op == "Eq" else (v is False)
            out.append(("remaining==0", zero))
        else:
            out.append((s, v))
    return out


def _only_ones(s):
    """the counter's origin tree mentions nothing but the constant 1, `+ 1` and loop merges: it counts from one in steps of one"""
    return re.sub(r"phi|loop|Add|1|[()| ]", "", s) == ""


def run(ctx, F):
    for q in (GB, GN, NEW):
        if q not in F.fns:
            raise AnalysisError("C40: %s not found" % q)
    # ---- NEW
    f = F.fn(NEW)
    rows = [show(t) for t, g in _rows(f) if not g]
    ctx.judge(rows == ["rev_group::RevisitableGroupBy{arg1, arg2, %s}" % NONE], "C40.new", "a fresh grouping has no stashed head", expected="RevisitableGroupBy { iter: self, get_key, next_group_initial: None }", found=str(rows)[:200],
              where=where(f), key="C40.new")

    # ---- GROUP-NEXT
    g = F.fn(GN)
    rows = [(show(t), _norm_rem(gs)) for t, gs in _rows(g)]
    want = sorted([(NONE, [("remaining==0", True)]),
                   ("option::Option::Some{Option::take(arg1.head) as Some.0}", [("remaining==0", False), ("Option::take(arg1.head)", "Some")]),
                   ("Iterator::next(arg1.iter)", [("remaining==0", False), ("Option::take(arg1.head)", "None")])])
    ctx.judge(sorted(rows) == want, "C40.group-next", "a group yields its head, then items of its iterator, and stops when `remaining` is 0", expected=str(want)[:300], found=str(sorted(rows))[:400], where=where(g),
              key="C40.group-next|rows")
    st = [(bb, place_str(g, pl), show(simp(t)), _norm_rem([(show(simp(p.tree)), p.val) for p in guards(g, bb)])) for (bb, j, pl, t) in stores(g) if place_str(g, pl).endswith(".remaining")]
    okd = len(st) == 1 and st[0][2] == "(arg1.remaining Sub 1)" and st[0][3] == [("remaining==0", False)]
    ctx.judge(okd, "C40.group-next", "`remaining` drops by one for every yielded item", expected="one store remaining -= 1, guarded exactly by remaining != 0 (it dominates both yields)", found=str([(x[2], x[3]) for x in st])[:300], where=where(g),
              key="C40.group-next|decrement")

    # ---- next() of the grouping
    f = F.fn(GB)
    nexts = [c for c in live_calls(f) if c.name == "next" and show(simp(f.flow.arg_tree(c, 0))).endswith("arg1.iter")]
    takes = [c for c in live_calls(f) if c.name == "take" and show(simp(f.flow.arg_tree(c, 0))).endswith("arg1.next_group_initial")]
    clones = [c for c in live_calls(f) if c.name == "clone" and show(simp(f.flow.arg_tree(c, 0))).endswith("arg1.iter")]
    keys = [c for c in live_calls(f) if c.name in ("call_mut", "call") and "get_key" in show(simp(f.flow.arg_tree(c, 0)))]
    ctx.judge(len(nexts) == 2 and len(takes) == 1 and len(clones) == 1 and len(keys) == 2, "C40.head", "next() has one stash read, two consumption sites (head, loop), one clone and a key call per consumption",
              expected="take=1 next=2 clone=1 key=2", found="take=%d next=%d clone=%d key=%d" % (len(takes), len(nexts), len(clones), len(keys)), where=where(f), key="C40.head|census")
    if not (len(nexts) == 2 and len(takes) == 1 and len(clones) == 1 and len(keys) == 2):
        return
    head_next, loop_next = (nexts[0], nexts[1]) if f.cfg.dominates(clones[0].bb, nexts[1].bb) else (nexts[1], nexts[0])
    # HEAD
    okh = bool(guard_find(f, head_next.bb, r"Option::take\(arg1\.next_group_initial\)", "None")) and f.cfg.dominates(takes[0].bb, head_next.bb)
    nonerows = [gs for t, gs in _rows(f) if show(t) == NONE]
    okh = okh and nonerows == [[("Option::take(arg1.next_group_initial)", "None"), ("Iterator::next(arg1.iter)", "None")]]
    ctx.judge(okh, "C40.head", "the group head is the stashed item if any, else the next source item; None only when both are absent", expected="take() first; iter.next() only when it was None; return None only when both are None",
              found="None rows: %s" % str(nonerows)[:300], where=where(f), key="C40.head|source")
    # CLONE
    okc = f.cfg.dominates(takes[0].bb, clones[0].bb) and f.cfg.dominates(clones[0].bb, loop_next.bb) and not f.cfg.dominates(clones[0].bb, head_next.bb) and \
        clones[0].bb not in (f.cfg.reachable_from(f.blocks[loop_next.bb]["t"].get("t")) | set())
    ctx.judge(okc, "C40.clone", "the group's iterator is the source cloned after the head was taken and before anything else is consumed", expected="head acquisition < clone(self.iter) < loop; the clone is not inside the loop",
              found="clone bb=%d head-next bb=%d loop-next bb=%d" % (clones[0].bb, head_next.bb, loop_next.bb), where=where(f, clones[0].line), key="C40.clone")
    # KEY-ONCE
    okk = True
    why = []
    for c in keys:
        a = show(simp(f.flow.arg_tree(c, 1)))
        m = re.match(r"^tuple\{&?(Iterator::next\(arg1\.iter\)) as Some\.0\}$", a)
        okk = okk and m is not None
        why.append(a[:80])
    ctx.judge(okk, "C40.key-once", "the key function is applied to the item just consumed", expected="get_key(&item) with item = iter.next() as Some.0 at both sites", found=str(why), where=where(f), key="C40.key-once")
    # COUNT
    incs, inits = [], []
    for i, b in enumerate(f.blocks):
        if i not in f.cfg.live:
            continue
        for j, s_ in enumerate(b["s"]):
            if s_[0] == "=" and len(s_[1]) == 1 and s_[2][0] == "bin" and s_[2][1] in ("Add", "AddUnchecked", "AddWithOverflow"):
                t = show(simp(f.flow.rvalue_tree(s_[2], i, j)))
                incs.append((i, t))
    EQ = r"PartialEq::eq\(FnMut::call_mut\(arg1\.get_key, tuple\{&?Iterator::next\(arg1\.iter\) as Some\.0\}\), "
    okn = len(incs) == 1 and incs[0][1].endswith(" Add 1)") and _only_ones(incs[0][1])
    if okn:
        gs = [(show(simp(p.tree)), p.val) for p in guards(f, incs[0][0])]
        okn = any(s.startswith("Iterator::next(arg1.iter)") and v == "Some" for s, v in gs) and any((re.match(EQ, s) and v is True) or (re.match(EQ.replace("::eq", "::ne"), s) and v is False) for s, v in gs)
    ctx.judge(okn, "C40.count", "the run counter starts at 1 and grows by 1 exactly for a consumed item with the head's key", expected="group_size = 1; group_size += 1 under iter.next()==Some && key(item)==group_key (the only arithmetic on it)",
              found=str(incs)[:200], where=where(f), key="C40.count")
    # STASH
    st = [(bb, show(simp(t))) for (bb, j, pl, t) in stores(f) if place_str(f, pl).endswith(".next_group_initial")]
    ITEM = "Iterator::next(arg1.iter) as Some.0"
    oks = len(st) == 1 and re.match(r"^option::Option::Some\{tuple\{%s, FnMut::call_mut\(arg1\.get_key, tuple\{&?%s\}\)\}\}$" % (re.escape(ITEM), re.escape(ITEM)), st[0][1]) is not None
    why = str(st)[:300]
    if oks:
        gs = [(show(simp(p.tree)), p.val) for p in guards(f, st[0][0])]
        oks = any((re.match(EQ, s) and v is False) or (re.match(EQ.replace("::eq", "::ne"), s) and v is True) for s, v in gs)
        after = f.cfg.reachable_from(st[0][0])
        if loop_next.bb in after or head_next.bb in after:
            oks, why = False, "a source item is consumed after the stash"
    ctx.judge(oks, "C40.stash", "the first item of the next run is kept, and nothing is consumed after it", expected="next_group_initial = Some((item, key)) under key != group_key, then leave the loop", found=why, where=where(f), key="C40.stash")
    # GROUP
    somes = [t for t, gs in _rows(f) if show(t) != NONE]
    okg = len(somes) == 1 and somes[0][0] == "agg" and somes[0][1][2] == "Some" and len(somes[0][2]) == 1
    why = str([show(t)[:100] for t in somes])
    if okg:
        grp = simp(somes[0][2][0])
        okg = grp[0] == "agg" and last_seg(grp[1][1] or "") == "RevisitableGroup" and len(grp[2]) == 5
        if okg:
            names = list(grp[1][3]) if len(grp[1]) > 3 and grp[1][3] else ["key", "len", "head", "iter", "remaining"]
            fld = dict(zip(names, [simp(x) for x in grp[2]]))
            cnt = show(fld.get("len"))
            okg = cnt == show(fld.get("remaining")) and cnt.startswith("phi(") and " Add 1)" in cnt and _only_ones(cnt)
            okg = okg and show(fld.get("iter")) == "Clone::clone(arg1.iter)" and show(fld.get("head")).startswith("option::Option::Some{phi(")
            hk = show(fld.get("key"))
            okg = okg and hk.startswith("phi(tuple{") and hk.endswith(").1") and "Option::take(arg1.next_group_initial) as Some.0.1" in hk
            why = "len=%s remaining=%s iter=%s key=%s" % (cnt[:60], show(fld.get("remaining"))[:60], show(fld.get("iter"))[:40], hk[:120])
    ctx.judge(okg, "C40.group", "the returned group reports the counter as its length and as what it will yield, and the head's key", expected="RevisitableGroup { key: group_key, len: group_size, head: Some(head), iter: saved clone, remaining: group_size }",
              found=why[:400], where=where(f), key="C40.group")
