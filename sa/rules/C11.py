"""C11 Stop-the-world bracket: structural necessary clauses (DESIGN.md 4/C11)."""
import re
from .common import *
from .bitiso import upvar_tree
from ..engine import AnalysisError, show, strip, short, tree_calls

PROP = "C11"
LEVEL = "other"
QUICK = ["K0", "K1"]
THOROUGH = ALL_CONFIGS
ASSUMPTIONS = ["the binding's stop_all_mutators/resume_mutators/block_for_gc do what their contract says"]
EXPLANATION = (
    "Structural necessary conditions of the stop-the-world bracket decided on the MIR of every analysed configuration: "
    "who may call Collection::stop_all_mutators/resume_mutators/scan_roots_in_mutator_thread (call-graph census); "
    "resume_mutators is the last effect of the function that contains it and that function closes all STW buckets first "
    "(post-dominance); that function is called only from the last-parked callback under 'goal is Gc and no more work'; "
    "root packets and the opening of the first STW stage are ordered after stop_all_mutators returns (dominance); one "
    "ScanMutatorRoots per mutator visit; every block_for_gc follows a successful poll/request (control-dependence "
    "signature). A pass means these clauses hold on every non-panicking path; it does not decide packet interleavings."
)

COLL = "vm::collection::Collection::"
SCAN = "vm::scanning::Scanning::"


def run(ctx, F):
    K = F.config
    # ---- C11.bracket-callers
    stop_sites = check_callers(ctx, F, "C11.bracket-callers", COLL + "stop_all_mutators",
                               {"<scheduler::gc_work::StopMutators as scheduler::work::GCWork>::do_work": "the StopMutators packet"})
    res_sites = callers(F, COLL + "resume_mutators")
    ctx.judge(len(res_sites) == 1, "C11.bracket-callers", "resume_mutators call sites",
              expected="exactly one call site of Collection::resume_mutators in the crate",
              found="%d sites: %s" % (len(res_sites), [c.fn.q for c in res_sites]),
              key="C11.bracket-callers|resume_mutators|count")
    if not res_sites:
        return
    fend = res_sites[0].fn
    rs = res_sites[0]
    cfg = fend.cfg

    # ---- C11.resume-last
    R = rs.bb
    eff = [c for c in effect_calls(fend) if c.bb != R]
    not_pd = [c for c in eff if not cfg.postdominates(R, c.bb)]
    ctx.judge(not not_pd, "C11.resume-last", "%s: resume post-dominates every effect" % fend.q,
              expected="resume_mutators post-dominates every other effectful call of %s" % short(fend.q),
              found="not post-dominated: %s" % [(short(c.target_q or "?"), c.line) for c in not_pd],
              where=where(fend, rs.line), key="C11.resume-last|pdom")
    after = calls_after(fend, R)
    ctx.judge(not after, "C11.resume-last", "%s: nothing follows resume" % fend.q,
              expected="no effectful call after resume_mutators",
              found="calls after resume: %s" % [(short(c.target_q or "?"), c.line) for c in after],
              where=where(fend, rs.line), key="C11.resume-last|after")
    mn, mx = cfg.path_counts([R])
    ctx.judge((mn, mx) == (1, 1), "C11.resume-last", "%s: resume exactly once per path" % fend.q,
              expected="exactly one resume_mutators on every path", found="min=%s max=%s" % (mn, mx),
              where=where(fend, rs.line), key="C11.resume-last|count")
    # effects that must precede: close STW buckets, end_of_gc, set_gc_status
    for nm in ("close_all_stw_buckets", "end_of_gc", "set_gc_status"):
        pre = live_calls(fend, name=nm)
        okp = bool(pre) and all(cfg.dominates(c.bb, R) for c in pre)
        ctx.judge(okp, "C11.resume-last", "%s: %s precedes resume" % (short(fend.q), nm),
                  expected="%s is called on every path before resume_mutators" % nm,
                  found="sites=%s" % [(c.line, cfg.dominates(c.bb, R)) for c in pre],
                  where=where(fend, rs.line), key="C11.resume-last|pre|" + nm)

    # ---- C11.end-only-when-parked
    fe_callers = callers(F, fend.q)
    ctx.judge(len(fe_callers) == 1, "C11.end-only-when-parked", "callers of " + short(fend.q),
              expected="exactly one caller of the GC-finishing function",
              found=str([c.fn.q for c in fe_callers]), key="C11.end-only-when-parked|count")
    # the parked callback: closure passed to WorkerMonitor::park_and_wait
    pw = callers(F, "scheduler::worker_monitor::WorkerMonitor::park_and_wait")
    ctx.require(pw, "C11.end-only-when-parked: no call to WorkerMonitor::park_and_wait")
    cb_roots = set()
    for cs in pw:
        t = strip(cs.fn.flow.arg_tree(cs, 2))
        if t and t[0] == "agg" and t[1][0] == "closure":
            cb_roots.add(t[1][1])
        else:
            ctx.bad("C11.end-only-when-parked", "park_and_wait callback at %s" % where(cs.fn, cs.line),
                    "callback is a closure literal", show(t))
    for c in fe_callers:
        # caller must be reachable only from the callback closures: walk single-caller chain upwards
        chain = [c.fn.q]
        cur = c.fn
        ok_chain = False
        for _ in range(6):
            if cur.q in cb_roots:
                ok_chain = True
                break
            ups = callers(F, cur.q)
            built = [g for g in F.fns.values() if any(cq == cur.q for (_, _, cq, _, _) in g.closures_built())]
            if len(ups) == 1 and not built:
                cur = ups[0].fn
                chain.append(cur.q)
            else:
                break
        ctx.judge(ok_chain, "C11.end-only-when-parked", "%s reached only from the last-parked callback" % short(fend.q),
                  expected="single-caller chain from the on_last_parked closure of park_and_wait",
                  found="chain=%s roots=%s" % (chain, sorted(cb_roots)), where=where(c.fn, c.line),
                  key="C11.end-only-when-parked|chain")
        # guard: current goal == Gc and find_more_work_for_workers() == false
        g1 = sig_find(c.fn, c.bb, r"find_more_work_for_workers", False)
        g2 = sig_find(c.fn, c.bb, r"current", "Gc") or sig_find(c.fn, c.bb, r"WorkerGoals::current", None)
        gc_arm = any(p.val == "Gc" for p in sig_assumed(c.fn, c.bb))
        ctx.judge(bool(g1) and gc_arm, "C11.end-only-when-parked", "guard of the call to " + short(fend.q),
                  expected="control dependent on goal==Gc and find_more_work_for_workers()==false",
                  found=str(sig_strs(c.fn, c.bb) + ['assumed: %r' % p for p in sig_assumed(c.fn, c.bb)]), where=where(c.fn, c.line), key="C11.end-only-when-parked|guard")
    # park_and_wait invokes the callback only when all workers parked, once
    pf = F.fn("scheduler::worker_monitor::WorkerMonitor::park_and_wait")
    inv = [cs for cs in live_calls(pf) if cs.q and cs.name == "call_once"]
    ctx.judge(len(inv) == 1, "C11.end-only-when-parked", "park_and_wait invokes callback once",
              expected="exactly one invocation site of on_last_parked", found=str(len(inv)), key="C11.end-only-when-parked|inv")
    for cs in inv:
        g = sig_find(pf, cs.bb, r"inc_parked_workers", True)
        ctx.judge(bool(g), "C11.end-only-when-parked", "callback guarded by all_parked",
                  expected="callback control dependent on inc_parked_workers()==true", found=str(sig_strs(pf, cs.bb)),
                  where=where(pf, cs.line), key="C11.end-only-when-parked|all_parked")
        locks = live_calls(pf, name="lock")
        ctx.judge(bool(locks) and all(pf.cfg.dominates(l.bb, cs.bb) for l in locks[:1]), "C11.end-only-when-parked",
                  "callback runs after taking the monitor mutex", expected="Mutex::lock dominates the callback invocation",
                  found=str([(l.line) for l in locks]), where=where(pf, cs.line), key="C11.end-only-when-parked|lock")

    # ---- C11.open-after-stop
    for s in stop_sites:
        f = s.fn
        for nm, q in (("Plan::notify_mutators_paused", "plan::global::Plan::notify_mutators_paused"),
                      ("GCWorkScheduler::notify_mutators_paused", "scheduler::scheduler::GCWorkScheduler::notify_mutators_paused")):
            ns = live_calls(f, q=q)
            okn = bool(ns) and all(f.cfg.dominates(s.bb, n.bb) and n.bb != s.bb for n in ns) and f.cfg.must_pass([n.bb for n in ns], start=s.bb, avoid_start=True)
            ctx.judge(okn, "C11.open-after-stop", "%s after stop_all_mutators" % nm,
                      expected="%s is called on every path after stop_all_mutators returns and never before" % nm,
                      found="sites=%s" % [n.line for n in ns], where=where(f, s.line), key="C11.open-after-stop|" + nm)
        # packets added by the packet body itself (not by the visitor closure) come after the stop call
        for a in live_calls(f, qre=r"WorkBucket::(add|bulk_add|add_prioritized)"):
            ctx.judge(f.cfg.dominates(s.bb, a.bb) and a.bb != s.bb, "C11.open-after-stop", "root packet add at line %s" % a.line,
                      expected="packets are added after stop_all_mutators returned", found="not dominated by the stop call",
                      where=where(f, a.line), key="C11.open-after-stop|add")
    # the pending-request flag is dropped only once every mutator has stopped: a mutator still running between the start of
    # StopMutators and the last yield could otherwise file a second request for the collection that is already under way
    check_callers(ctx, F, "C11.open-after-stop", "util::heap::gc_trigger::GCTrigger::clear_request",
                  {"scheduler::scheduler::GCWorkScheduler::notify_mutators_paused": "called after stop_all_mutators returned (previous instances of this rule)"})
    # the only opener of the first STW stage is notify_mutators_paused: see C15.open-callers

    # ---- C11.roots-once
    for s in stop_sites:
        f = s.fn
        t = strip(f.flow.arg_tree(s, 1))
        if not (t and t[0] == "agg" and t[1][0] == "closure"):
            ctx.bad("C11.roots-once", "mutator visitor", "a closure literal", show(t), where(f, s.line))
            continue
        clo = F.fn(t[1][1])
        adds = [c for c in live_calls(clo, qre=r"WorkBucket::add") if any("ScanMutatorRoots" in g for g in c.ga)]
        blocks = [c.bb for c in adds]
        mn, mx = clo.cfg.path_counts(blocks)
        guards = [sig_strs(clo, b) for b in blocks]
        def unroot(p):
            """the single guard says "roots are not skipped": !self.skip_roots, or a captured local holding that value"""
            s_, v = show(simp(p.tree)), p.val
            m = re.match(r"^\*?upvar\((\w+)\)$", s_)
            if m:
                _, ut = upvar_tree(F, clo, m.group(1))
                s_ = show(simp(ut)) if ut is not None else s_
            s_ = re.sub(r"^\*", "", s_)
            if re.match(r"^Not\(.*\.skip_roots\)$", s_):
                return v is True
            return s_.endswith(".skip_roots") and v is False
        okr = len(adds) >= 1 and mx == 1 and all(len(sig(clo, b)) == 1 and unroot(sig(clo, b)[0]) for b in blocks)
        ctx.judge(okr, "C11.roots-once", "visitor adds one ScanMutatorRoots per mutator",
                  expected="at most one ScanMutatorRoots add per visitor invocation, guarded exactly by !skip_roots",
                  found="adds=%d max-per-path=%s guards=%s" % (len(adds), mx, guards), where=where(clo), key="C11.roots-once|visitor")
        for c in adds:
            at = strip(clo.flow.arg_tree(c, 1))
            ctx.judge(at and at[0] == "agg" and at[2] and at[2][0] == ("arg", 2), "C11.roots-once", "ScanMutatorRoots wraps the visited mutator",
                      expected="packet constructed from the closure's mutator argument", found=show(at), where=where(clo, c.line),
                      key="C11.roots-once|arg")
            st = strip(clo.flow.arg_tree(c, 0))
            stage = [x for x in tree_calls(st, name="index")]
            sts = show(st)
            m = re.match(r"^\*?upvar\((\w+)\)$", sts)
            if m:
                _, ut = upvar_tree(F, clo, m.group(1))
                sts = show(simp(ut)) if ut is not None else sts
            ctx.judge("Prepare" in sts, "C11.roots-once", "ScanMutatorRoots stage", expected="added to a STW stage (Prepare)",
                      found=sts, where=where(clo, c.line), key="C11.roots-once|stage")
    # first root round: the per-collection counter of scanned stacks is reset before the first ScanMutatorRoots packet can exist
    for s in stop_sites:
        f = s.fn
        prep = live_calls(f, name="prepare_for_stack_scanning")
        ctx.judge(bool(prep) and any(f.cfg.dominates(p.bb, s.bb) for p in prep), "C11.roots-once", "the scanned-stack counter is reset before mutators are visited (%s)" % short(f.q),
                  expected="GlobalState::prepare_for_stack_scanning dominates stop_all_mutators (it is the only per-collection reset of scanned_stacks)", found="prepare sites=%s" % [p.line for p in prep],
                  where=where(f, s.line), key="C11.roots-once|first-reset|" + f.q)
    pf = F.fn("global_state::GlobalState::prepare_for_stack_scanning")
    st0 = [c for c in live_calls(pf, name="store") if show(strip(pf.flow.arg_tree(c, 0))).endswith(".scanned_stacks") and const_arg(pf.flow.arg_tree(c, 1)) == 0]
    ctx.judge(len(st0) == 1 and pf.cfg.must_pass([st0[0].bb]), "C11.roots-once", "prepare_for_stack_scanning zeroes the scanned-stack counter", expected="scanned_stacks.store(0) on every path", found=str(len(st0)), where=where(pf),
              key="C11.roots-once|reset-value")
    check_callers(ctx, F, "C11.roots-once", SCAN + "scan_roots_in_mutator_thread",
                  {"<scheduler::gc_work::ScanMutatorRoots as scheduler::work::GCWork>::do_work": "the per-mutator root packet"})
    smr = F.fn("<scheduler::gc_work::ScanMutatorRoots as scheduler::work::GCWork>::do_work")
    sc = live_calls(smr, q=SCAN + "scan_roots_in_mutator_thread")
    mn, mx = smr.cfg.path_counts([c.bb for c in sc])
    ctx.judge((mn, mx) == (1, 1), "C11.roots-once", "scan_roots_in_mutator_thread once per packet",
              expected="exactly one scan per ScanMutatorRoots::do_work path", found="min=%s max=%s" % (mn, mx), where=where(smr),
              key="C11.roots-once|scan-count")
    # second root-scanning round of the compacting plans: per-mutator packets created after prepare_for_stack_scanning
    second = []
    for f in F.fns.values():
        if f.q.startswith("<scheduler::gc_work::StopMutators"):
            continue
        for c in live_calls(f, qre=r"WorkBucket::(add|bulk_add)"):
            if any("ScanMutatorRoots" in g for g in c.ga):
                second.append((f, c))
        for (bb, j, cq, ops, _) in f.closures_built():
            pass
    for (f, c) in second:
        top = outermost(F, f)
        prep = live_calls(top, name="prepare_for_stack_scanning")
        okp = bool(prep) and (f is not top or all(top.cfg.dominates(p.bb, c.bb) for p in prep))
        ctx.judge(okp, "C11.roots-once", "second root round in %s" % short(top.q),
                  expected="prepare_for_stack_scanning dominates the creation of a further round of ScanMutatorRoots packets",
                  found="prepare sites=%s" % [p.line for p in prep], where=where(f, c.line), key="C11.roots-once|second|" + top.q)

    # ---- C11.no-stw-work-after-resume: the GC is declared finished (and mutators resumed) only when no worker still holds
    # designated STW packets (PrepareCollector / ReleaseCollector)
    from .sched import check_has_designated_work
    check_has_designated_work(ctx, F, "C11.no-stw-work-after-resume")

    # ---- C11.block-after-request
    # whoever makes (or joins) a GC request reports `true`, so that its caller blocks: the result must not depend on
    # whether this particular call was the one that flipped the request flag
    rq = "util::heap::gc_trigger::GCTrigger::request"
    rsites = check_callers(ctx, F, "C11.block-after-request", rq, {
        "util::heap::gc_trigger::GCTrigger::poll": "allocation-triggered GC", "util::heap::gc_trigger::GCTrigger::handle_user_collection_request": "user-requested GC",
        "util::heap::gc_trigger::GCTrigger::trigger_internal_collection_request": "internal (concurrent plan) request; returns nothing, the caller does not block"}, min_sites=2)
    for cs in rsites:
        f = cs.fn
        if f.meta.get("output") != "bool":
            continue
        rows = [(b, t, g) for b, t, g in ret_table(f) if f.cfg.dominates(cs.bb, b) and b != cs.bb or b == cs.bb]
        okr = bool(rows) and all(const_arg(t) is True for b, t, g in rows)
        ctx.judge(okr, "C11.block-after-request", "%s reports true whenever it requested a GC" % short(f.q), expected="every return after request() is the constant true (also when a GC was already pending)",
                  found=str([show(t)[:60] for b, t, g in rows]), where=where(f, cs.line), key="C11.block-after-request|reports|" + f.q)
    bsites = callers(F, COLL + "block_for_gc")
    ctx.floor("C11.block-after-request", len(bsites), 3, "block_for_gc call sites")
    table = {
        "mmtk::MMTK::handle_user_collection_request": (r"handle_user_collection_request", True),
        "memory_manager::gc_poll": (r"GCTrigger::poll", True),
    }
    for cs in bsites:
        f = cs.fn
        if f.q in table:
            rx, v = table[f.q]
            g = sig_find(f, cs.bb, rx, v)
            ctx.judge(bool(g), "C11.block-after-request", "%s blocks only after a successful request" % short(f.q),
                      expected="block_for_gc control dependent on %s == %s" % (rx, v), found=str(sig_strs(f, cs.bb)),
                      where=where(f, cs.line), key="C11.block-after-request|" + f.q)
            # and on that arm it always blocks
            sw = g[0].bb if g else None
            if sw is not None:
                arm = [s for s, lab in f.cfg.succ[sw] if lab == g[0].label]
                okm = arm and f.cfg.must_pass([cs.bb], start=arm[0])
                ctx.judge(bool(okm), "C11.block-after-request", "%s always blocks after a successful request" % short(f.q),
                          expected="every path after a successful request reaches block_for_gc", found="some path skips it",
                          where=where(f, cs.line), key="C11.block-after-request|must|" + f.q)
        elif f.q == "policy::space::Space::not_acquiring":
            # reached only when GC was triggered (callers) and at a safepoint
            g = sig_find(f, cs.bb, r"at_safepoint", True)
            ctx.judge(bool(g), "C11.block-after-request", "not_acquiring blocks only at a safepoint",
                      expected="control dependent on alloc_options.at_safepoint", found=str(sig_strs(f, cs.bb)), where=where(f, cs.line),
                      key="C11.block-after-request|not_acquiring")
        elif f.q == "policy::marksweepspace::malloc_ms::global::MallocSpace::alloc":
            g = sig_find(f, cs.bb, r"GCTrigger::poll", True)
            ctx.judge(bool(g), "C11.block-after-request", "MallocSpace::alloc blocks only after poll()==true",
                      expected="control dependent on poll", found=str(sig_strs(f, cs.bb)), where=where(f, cs.line),
                      key="C11.block-after-request|malloc")
        else:
            ctx.bad("C11.block-after-request", "block_for_gc <- " + f.q, "caller in the reviewed table", "new caller", where(f, cs.line))
