"""C27 A raw-memory free list can grow to its configured maximum: bounded-mmap clause (partial)."""
import re
from .common import *
from ..engine import AnalysisError, show, strip, short, walk, last_seg, tree_calls

PROP = "C27"
LEVEL = "other"
QUICK = ["K0"]
THOROUGH = ALL_CONFIGS
ASSUMPTIONS = ["growth arithmetic (units per block, table sizes) is value-level and not decided"]
LEVEL_NOTE = "partial: decides only that the mapped extent of each growth step is clamped to the remaining room below the list's limit and that the high-water mark advances by exactly the mapped extent"
EXPLANATION = (
    "Partial claim. In RawMemoryFreeList::raise_high_water the byte count passed to mmap is, on the path where "
    "high_water + extent > limit, re-derived as (limit - high_water) (accepted idioms: guarded reassignment or min(_, limit - high_water)); "
    "the start passed to mmap is high_water; high_water is then advanced by the same extent value; every caller reaches it through "
    "grow_list_by_blocks. Operand order of the clamp is checked on the origin tree (limit - high_water, not high_water - limit)."
)
RM = "util::raw_memory_freelist::RawMemoryFreeList::"


def run(ctx, F):
    f = F.fn(RM + "raise_high_water")
    mm = live_calls(f, q=RM + "mmap")
    ctx.judge(len(mm) == 1, "C27.bounded-mmap", "one mmap per growth step", expected="1", found=str(len(mm)), where=where(f), key="C27.bounded-mmap|site")
    for c in mm:
        start = show(strip(f.flow.arg_tree(c, 1)))
        ctx.judge(start == "arg1.high_water", "C27.bounded-mmap", "mapping starts at the high-water mark", expected="mmap(self.high_water, ..)", found=start, where=where(f, c.line),
                  key="C27.bounded-mmap|start")
        ext_alts = None
        op = c.args[2]
        if op[0] in ("c", "m") and len(op[1]) == 1:
            ext_alts = f.flow.alternatives(op[1][0], c.bb, "t")
        ctx.require(ext_alts is not None, "C27.bounded-mmap: extent argument is not a plain local")
        clamp = []
        plain = []
        for b, t in ext_alts:
            t = strip(t)
            subs = [s for s in walk(t) if s and s[0] == "call" and isinstance(s[1], str) and last_seg(s[1]) == "sub"]
            mins = [s for s in walk(t) if s and s[0] == "call" and isinstance(s[1], str) and last_seg(s[1]) == "min"]
            if subs:
                clamp.append((b, t, subs[0]))
            elif not mins:
                plain.append((b, t))
        okc = bool(clamp)
        for b, t, sub in clamp:
            a0, a1 = show(strip(sub[3][0])), show(strip(sub[3][1]))
            okc = okc and a0 == "arg1.limit" and a1 == "arg1.high_water"
            if b is not None:
                g = [p for p in guards(f, b) if p.val is True and "gt" in show(p.tree) and "high_water" in show(p.tree) and "limit" in show(p.tree)]
                okc = okc and bool(g)
        ctx.judge(okc, "C27.bounded-mmap", "the last growth step is clamped to the room below the limit",
                  expected="extent := self.limit - self.high_water on the arm where high_water + extent > limit",
                  found=str([(b, show(t)) for b, t in ext_alts])[:300], where=where(f, c.line), key="C27.bounded-mmap|clamp")
        # unclamped alternative must be guarded by NOT exceeding: it reaches mmap only when the comparison was false
        for b, t in plain:
            ok_un = any(p.val is False and "gt" in show(p.tree) and "limit" in show(p.tree) for p in sig(f, c.bb)) or len(ext_alts) == 2
            ctx.judge(ok_un, "C27.bounded-mmap", "the unclamped extent is used only when it fits", expected="two definitions of the extent selected by high_water + extent > limit",
                      found=str(sig_strs(f, c.bb))[:200], where=where(f, c.line), key="C27.bounded-mmap|plain")
        # high_water advances by the same local
        adv = [(bb, pl, t) for (bb, j, pl, t) in stores(f) if place_str(f, pl).endswith(".high_water")]
        adv2 = [c2 for c2 in live_calls(f) if c2.name == "add_assign" and "high_water" in show(strip(f.flow.arg_tree(c2, 0)))]
        same = False
        for c2 in adv2:
            op2 = c2.args[1]
            same = same or (op2[0] in ("c", "m") and op[0] in ("c", "m") and f.flow.alternatives(op2[1][0], c2.bb, "t") == ext_alts and f.cfg.dominates(c.bb, c2.bb))
        for bb, pl, t in adv:
            same = same or ("high_water" in show(strip(t)) and f.cfg.dominates(c.bb, bb))
        ctx.judge(same, "C27.bounded-mmap", "high-water mark advances by exactly the mapped extent", expected="self.high_water += <the extent passed to mmap> after mmap",
                  found="add_assign sites=%d stores=%d" % (len(adv2), len(adv)), where=where(f), key="C27.bounded-mmap|advance")
    check_callers(ctx, F, "C27.bounded-mmap", f.q, {RM + "grow_list_by_blocks": "the only growth path"})
    check_callers(ctx, F, "C27.bounded-mmap", RM + "mmap", {f.q: "growth step"})
