"""C27 A raw-memory free list can grow to its configured maximum: bounded-mmap clause (partial)."""
import re
from .common import *
from ..engine import AnalysisError, show, strip, short, walk, last_seg, tree_calls

PROP = "C27"
LEVEL = "other"
QUICK = ["K0"]
THOROUGH = ALL_CONFIGS
ASSUMPTIONS = ["callers grow the list in multiples of the grain (debug-asserted precondition of grow_list_by_blocks)",
               "the limit handed to RawMemoryFreeList::new is base + size_in_pages(units, heads) pages (Map64::create_parent_freelist; checked)"]
LEVEL_NOTE = ("partial: decides (a) that the mapped extent of each growth step is clamped to the remaining room below the list's limit and the high-water mark "
              "advances by exactly the mapped extent, and (b) that the sibling size formulas agree algebraically (linear normal forms): capacity(mapped extent of a "
              "table sized by size_in_pages(units, heads)) == units, with no truncating division or special-cased branch; not decided: i32 overflow, page rounding")
EXPLANATION = (
    "Partial claim. In RawMemoryFreeList::raise_high_water the byte count passed to mmap is, on the path where "
    "high_water + extent > limit, re-derived as (limit - high_water) (accepted idioms: guarded reassignment or min(_, limit - high_water)); "
    "the start passed to mmap is high_water; high_water is then advanced by the same extent value; every caller reaches it through "
    "grow_list_by_blocks. Operand order of the clamp is checked on the origin tree (limit - high_water, not high_water - limit). "
    "Formula agreement: the result trees of size_in_pages, current_capacity (with units_in_first_block/units_per_block inlined) and the block count in "
    "grow_freelist are normalised to linear polynomials over named atoms; the table holds units+heads+1 entries, the capacity of a mapped extent of E "
    "entries is E-heads-1 (single definition, division-free, so a partial last block counts), both use the same LOG_BYTES_IN_UNIT, and the number of blocks "
    "requested is ceil((required - capacity) / units_per_block). grow_list_by_blocks frees [old_max, new_max) in regions of min(grain, new_max - old_max) "
    "with old_max read before current_units is overwritten."
)
RM = "util::raw_memory_freelist::RawMemoryFreeList::"


def run(ctx, F):
    f = F.fn(RM + "raise_high_water")
    mm = live_calls(f, q=RM + "mmap")
    ctx.judge(len(mm) == 1, "C27.bounded-mmap", "one mmap per growth step", expected="1", found=str(len(mm)), where=where(f), key="C27.bounded-mmap|site")
    for c in mm:
        start = show(strip(f.flow.arg_tree(c, 1)))
        ctx.judge(start == "arg1.high_water", "C27.bounded-mmap", "mapping starts at the high-water mark", expected="mmap(self.high_water, ..)", found=start, where=where(f, c.line),
                  key="C27.bounded-mmap|start")
        ext_alts = None
        op = c.args[2]
        if op[0] in ("c", "m") and len(op[1]) == 1:
            ext_alts = f.flow.alternatives(op[1][0], c.bb, "t")
        ctx.require(ext_alts is not None, "C27.bounded-mmap: extent argument is not a plain local")
        clamp = []
        plain = []
        for b, t in ext_alts:
            t = strip(t)
            subs = [s for s in walk(t) if s and s[0] == "call" and isinstance(s[1], str) and last_seg(s[1]) == "sub"]
            mins = [s for s in walk(t) if s and s[0] == "call" and isinstance(s[1], str) and last_seg(s[1]) == "min"]
            if subs:
                clamp.append((b, t, subs[0]))
            elif not mins:
                plain.append((b, t))
        okc = bool(clamp)
        for b, t, sub in clamp:
            a0, a1 = show(strip(sub[3][0])), show(strip(sub[3][1]))
            okc = okc and a0 == "arg1.limit" and a1 == "arg1.high_water"
            if b is not None:
                g = [p for p in guards(f, b) if p.val is True and "gt" in show(p.tree) and "high_water" in show(p.tree) and "limit" in show(p.tree)]
                okc = okc and bool(g)
        ctx.judge(okc, "C27.bounded-mmap", "the last growth step is clamped to the room below the limit",
                  expected="extent := self.limit - self.high_water on the arm where high_water + extent > limit",
                  found=str([(b, show(t)) for b, t in ext_alts])[:300], where=where(f, c.line), key="C27.bounded-mmap|clamp")
        # unclamped alternative must be guarded by NOT exceeding: it reaches mmap only when the comparison was false
        for b, t in plain:
            ok_un = any(p.val is False and "gt" in show(p.tree) and "limit" in show(p.tree) for p in sig(f, c.bb)) or len(ext_alts) == 2
            ctx.judge(ok_un, "C27.bounded-mmap", "the unclamped extent is used only when it fits", expected="two definitions of the extent selected by high_water + extent > limit",
                      found=str(sig_strs(f, c.bb))[:200], where=where(f, c.line), key="C27.bounded-mmap|plain")
        # high_water advances by the same local
        adv = [(bb, pl, t) for (bb, j, pl, t) in stores(f) if place_str(f, pl).endswith(".high_water")]
        adv2 = [c2 for c2 in live_calls(f) if c2.name == "add_assign" and "high_water" in show(strip(f.flow.arg_tree(c2, 0)))]
        same = False
        for c2 in adv2:
            op2 = c2.args[1]
            same = same or (op2[0] in ("c", "m") and op[0] in ("c", "m") and f.flow.alternatives(op2[1][0], c2.bb, "t") == ext_alts and f.cfg.dominates(c.bb, c2.bb))
        for bb, pl, t in adv:
            same = same or ("high_water" in show(strip(t)) and f.cfg.dominates(c.bb, bb))
        ctx.judge(same, "C27.bounded-mmap", "high-water mark advances by exactly the mapped extent", expected="self.high_water += <the extent passed to mmap> after mmap",
                  found="add_assign sites=%d stores=%d" % (len(adv2), len(adv)), where=where(f), key="C27.bounded-mmap|advance")
    check_callers(ctx, F, "C27.bounded-mmap", f.q, {RM + "grow_list_by_blocks": "the only growth path"})
    check_callers(ctx, F, "C27.bounded-mmap", RM + "mmap", {f.q: "growth step"})

    # ---- C27.formula-agreement (linear normal forms; see rules/lin.py)
    from . import lin
    RULE = "C27.formula-agreement"
    sp = F.fn(RM + "size_in_pages")
    cap = F.fn(RM + "current_capacity")
    shifts = {}

    def atoms(t):
        if t and t[0] == "field" and strip(t[1]) == ("arg", 1) and t[2] in ("heads", "current_units", "max_units", "grain", "pages_per_block"):
            return t[2]
        if t and t[0] == "bin" and t[1] == "Shr" and lin.const_val(strip(t[3])) is not None and show(strip(t[2])) == "<Address as Sub<util::address::Address>>::sub(arg1.high_water, arg1.base)":
            shifts["shr"] = lin.const_val(strip(t[3]))
            return "mapped_entries"
        return None
    # table size in bytes
    tb = None
    why = ""
    rts = [strip(t) for _, t in sp.flow.return_trees()]
    pg = [x for x in walk(rts[0]) if x and x[0] == "call" and isinstance(x[1], str) and last_seg(x[1]) == "bytes_to_pages_up"] if len(rts) == 1 else []
    if len(pg) == 1:
        try:
            tb = lin.poly(F, sp, pg[0][3][0])
        except lin.NonLinear as e:
            why = e.why
    ctx.judge(tb is not None and set(tb) == {"units", "heads", "1"} and tb["units"] == tb["heads"] == tb["1"] and tb["units"] in (2, 4, 8, 16), RULE,
              "the table holds units + heads + 1 entries (one per unit, per head, plus the bottom sentinel)", expected="size_in_pages = pages_up((units + heads + 1) << LOG_BYTES_IN_UNIT)",
              found=(lin.p_show(tb) if tb is not None else "not linear: " + why), where=where(sp), key=RULE + "|table-size")
    cp = None
    why = ""
    rts = [strip(t) for _, t in cap.flow.return_trees()]
    try:
        if len(rts) != 1:
            raise lin.NonLinear("%d return definitions" % len(rts))
        cp = lin.poly(F, cap, rts[0], atoms=atoms, inline={RM + "units_in_first_block"})
    except lin.NonLinear as e:
        why = e.why
    ctx.judge(cp is not None and cp == {"mapped_entries": 1, "heads": -1, "1": -1}, RULE, "capacity = mapped entries - heads - 1, counted from the mapped extent",
              expected="one division-free definition: ((high_water - base) >> LOG_BYTES_IN_UNIT) - heads - 1 (a partial last block counts; an unmapped list has capacity -(heads+1))",
              found=(lin.p_show(cp) if cp is not None else "not an exact linear function of the mapped extent: " + why), where=where(cap), key=RULE + "|capacity")
    if cp is not None and tb is not None and set(tb) == {"units", "heads", "1"}:
        k = shifts.get("shr")
        okk = k is not None and all(v % (1 << k) == 0 for v in tb.values())
        comp = None
        if okk:
            entries = {a: v >> k for a, v in tb.items()}
            comp = lin.p_add({a: v for a, v in cp.items() if a != "mapped_entries"}, lin.p_scale(entries, cp.get("mapped_entries", 0)))
        ctx.judge(okk and comp == {"units": 1}, RULE, "a fully mapped table of size_in_pages(units, heads) has capacity exactly `units`",
                  expected="capacity o table-size == units (same LOG_BYTES_IN_UNIT on both sides)", found="shift=%s composed=%s" % (k, lin.p_show(comp) if comp is not None else None),
                  where=where(cap), key=RULE + "|compose")
    # units_in_first_block = units_per_block - heads - 1
    ufb = F.fn(RM + "units_in_first_block")
    try:
        u = lin.poly(F, ufb, [strip(t) for _, t in ufb.flow.return_trees()][0], atoms=atoms)
        up = [a for a in u if "units_per_block" in a]
        oku = len(up) == 1 and u == {up[0]: 1, "heads": -1, "1": -1}
        fu = lin.p_show(u)
    except lin.NonLinear as e:
        oku, fu = False, e.why
    ctx.judge(oku, RULE, "first block loses heads + 1 entries to the head and sentinel slots", expected="units_per_block - heads - 1", found=fu, where=where(ufb), key=RULE + "|first-block")
    # blocks requested by grow_freelist
    gf = F.fn(RM + "grow_freelist")
    gl = live_calls(gf, q=RM + "grow_list_by_blocks")
    ctx.judge(len(gl) == 1, RULE, "grow_freelist grows through grow_list_by_blocks", expected="1 call", found=str(len(gl)), where=where(gf), key=RULE + "|grow-site")
    for c in gl:
        bt = strip(gf.flow.arg_tree(c, 1))
        alts = list(bt[1]) if bt and bt[0] == "phi" else [bt]
        divs = [a for a in alts if a and a[0] == "bin" and a[1] == "Div"]
        zeros = [a for a in alts if lin.const_val(a) == 0]
        okb = len(divs) == 1 and len(zeros) + len(divs) == len(alts)
        fb = str([show(a)[:120] for a in alts])
        if okb:
            try:
                num = lin.poly(F, gf, divs[0][2], atoms=atoms)
                den = lin.poly(F, gf, divs[0][3], atoms=atoms)
                capa = [a for a in num if "current_capacity" in a]
                upb = [a for a in den]
                okb = len(capa) == 1 and len(upb) == 1 and den == {upb[0]: 1} and "units_per_block" in upb[0] and \
                    num == {"units": 1, "current_units": 1, capa[0]: -1, upb[0]: 1, "1": -1}
                fb = "(%s) / (%s)" % (lin.p_show(num), lin.p_show(den))
            except lin.NonLinear as e:
                okb, fb = False, e.why
        ctx.judge(okb, RULE, "blocks requested = ceil((required - capacity) / units_per_block)", expected="(units + current_units - capacity + units_per_block - 1) / units_per_block, or 0",
                  found=fb, where=where(gf, c.line), key=RULE + "|blocks")
        nm = gf.flow.arg_tree(c, 2)
        try:
            okn = lin.poly(F, gf, nm, atoms=atoms) == {"units": 1, "current_units": 1}
        except lin.NonLinear:
            okn = False
        ctx.judge(okn, RULE, "the new maximum is current_units + units", expected="required_units", found=show(strip(nm))[:100], where=where(gf, c.line), key=RULE + "|new-max")
    falses = [(b, t, g) for b, t, g in ret_table(gf) if const_arg(t) is False]
    def exceeds_max(p):
        # (units + current_units) > max_units, in any operand order / direction / polarity
        t = strip(p.tree)
        if not (t and t[0] == "bin" and t[1] in ("Gt", "Lt", "Ge", "Le")) or not isinstance(p.val, bool):
            return False
        try:
            a, b = lin.poly(F, gf, t[2], atoms=atoms), lin.poly(F, gf, t[3], atoms=atoms)
        except lin.NonLinear:
            return False
        op = t[1]
        if not p.val:   # negate
            op = {"Gt": "Le", "Le": "Gt", "Lt": "Ge", "Ge": "Lt"}[op]
        if op == "Lt":
            a, b, op = b, a, "Gt"
        return op == "Gt" and lin.p_add(a, b, -1) == {"units": 1, "current_units": 1, "max_units": -1}
    okf = len(falses) == 1 and any(exceeds_max(p) for p in falses[0][2])
    ctx.judge(okf, RULE, "growth is refused only beyond the configured maximum", expected="return false iff units + current_units > max_units",
              found=str([[(show(p.tree)[:80], p.val) for p in g] for b, t, g in falses]), where=where(gf), key=RULE + "|refuse")
    # grain of the freed regions
    gb = F.fn(RM + "grow_list_by_blocks")
    mins = [c for c in live_calls(gb) if c.name == "min"]
    cu_store = [(bb, j) for (bb, j, pl, t) in stores(gb) if place_str(gb, pl).endswith(".current_units")]
    old_def = None
    for i, b in enumerate(gb.blocks):
        if i not in gb.cfg.live:
            continue
        for j, st in enumerate(b["s"]):
            if st[0] == "=" and len(st[1]) == 1 and gb.local_name(st[1][0]) and st[2][0] == "use" and st[2][1][0] in ("c", "m") and st[2][1][1] == [1, "*", ".current_units"]:
                old_def = (i, j, st[1][0])
    okg = len(mins) == 1 and len(cu_store) == 1 and old_def is not None
    fg = "min sites=%d current_units stores=%d old value saved=%s" % (len(mins), len(cu_store), old_def is not None)
    if okg:
        c = mins[0]
        a0 = show(strip(gb.flow.arg_tree(c, 0)))
        try:
            a1 = lin.poly(F, gb, gb.flow.arg_tree(c, 1), atoms=atoms)
        except lin.NonLinear as e:
            a1 = {"?": 1}
        before = gb.cfg.dominates(old_def[0], cu_store[0][0]) and (old_def[0] != cu_store[0][0] or old_def[1] < cu_store[0][1])
        # the subtrahend operand is the saved local, not a fresh read of the (already overwritten) field
        sub = [x for x in walk(gb.flow.arg_tree(c, 1)) if x and x[0] == "bin" and x[1].startswith("Sub")]
        okg = a0 == "arg1.grain" and a1 == {"new_max": 1, "current_units": -1} and before and gb.cfg.dominates(cu_store[0][0], c.bb)
        fg = "min(%s, %s); old_max saved before the store: %s" % (a0, lin.p_show(a1), before)
    ctx.judge(okg, RULE, "new units are freed in regions of min(grain, new_max - old_max)", expected="min(self.grain, new_max - old_max) with old_max = current_units before the update",
              found=fg, where=where(gb), key=RULE + "|grain")
    # the limit given by Map64 is base + size_in_pages(units, heads)
    m64 = [f2 for q, f2 in F.fns.items() if "Map64 as " in q and q.endswith("VMMap>::create_parent_freelist")]
    ctx.judge(len(m64) == 1, RULE, "Map64::create_parent_freelist found", expected="1", found=str(len(m64)), key=RULE + "|map64-site")
    if m64:
        g2 = m64[0]
        news = live_calls(g2, q=RM + "new")
        okm = len(news) == 1
        fm = "%d RawMemoryFreeList::new calls" % len(news)
        if okm:
            c = news[0]
            lim = show(strip(g2.flow.arg_tree(c, 1)))
            ppb = show(strip(g2.flow.arg_tree(c, 2)))
            okm = "size_in_pages" in lim and "default_block_size" in ppb
            fm = "limit=%s pages_per_block=%s" % (lim[:140], ppb[:80])
        ctx.judge(okm, RULE, "Map64 sizes the list's address range with size_in_pages and its blocks with default_block_size", expected="limit = base + pages_to_bytes(size_in_pages(units, heads))",
                  found=fm, where=where(g2), key=RULE + "|map64")
