"""C38 Dynamic heap size stays within its bounds (DESIGN.md 4/C38)."""
import re
from .common import *
from ..engine import AnalysisError, show, strip, short, walk, last_seg, tree_calls

strip = simp   # fold projections of in-place tuples (`let (lo, hi) = (self.min, self.max)`) before comparing trees

PROP = "C38"
LEVEL = "proof"
QUICK = ["K0"]
THOROUGH = ALL_CONFIGS
ASSUMPTIONS = ["min <= max is established by option validation / GCTrigger::new (checked: the constructor is only called with (min,max) from the DynamicHeapSize option)",
               "Ord::clamp(lo, hi) returns a value in [lo, hi] when lo <= hi (std)"]
LEVEL_NOTE = ("the clause is the property over all histories: the reported size is a field whose only writers store either the constructor's min argument or the result of "
              "clamp(min_heap_pages, max_heap_pages); trusted base: rustc MIR/type tables, Ord::clamp, absence of unsafe writers (scanned), min<=max from option validation")
TECHNIQUE = "static analysis: who-writes census + origin-tree (reaching definitions) pattern of every stored value over rustc MIR"
EXPLANATION = (
    "Every write to MemBalancerTrigger.current_heap_pages in the crate is either the constructor (value = the min_heap_pages argument) "
    "or a store whose value's origin tree is Ord::clamp(_, self.min_heap_pages, self.max_heap_pages) (accepted: max(lo).min(hi) / "
    "min(hi).max(lo)); min_heap_pages / max_heap_pages are never written after construction; get_current_heap_size_in_pages returns a "
    "load of that field; FixedHeapSizeTrigger.total_pages has no writer after construction and is what the fixed trigger reports. "
    "Hence for any history of GC events the reported dynamic size lies in [min, max] and the fixed size never changes."
)
GT = "util::heap::gc_trigger::"
MB = GT + "MemBalancerTrigger"
FX = GT + "FixedHeapSizeTrigger"


def clamped(t):
    """The OUTERMOST operation producing the value is the clamp (anything applied after the clamp -- an addition, a cast to a
    wider value, a second definition on another path -- could leave [min, max])."""
    t = strip(t)
    if not t or t[0] != "call" or not isinstance(t[1], str):
        return False
    nm = last_seg(t[2] or t[1])
    a = [strip(x) for x in t[3]]
    if nm == "clamp" and len(a) == 3:
        return show(a[1]).endswith(".min_heap_pages") and show(a[2]).endswith(".max_heap_pages") and re.match(r"^arg1\.", show(a[1])) is not None
    # x.max(lo).min(hi)  /  x.min(hi).max(lo): sound when lo <= hi
    if nm == "min" and len(a) == 2 and show(a[1]) == "arg1.max_heap_pages" and a[0] and a[0][0] == "call" and last_seg(a[0][2] or a[0][1]) == "max":
        return show(strip(a[0][3][1])) == "arg1.min_heap_pages"
    if nm == "max" and len(a) == 2 and show(a[1]) == "arg1.min_heap_pages" and a[0] and a[0][0] == "call" and last_seg(a[0][2] or a[0][1]) == "min":
        return show(strip(a[0][3][1])) == "arg1.max_heap_pages"
    return False


def run(ctx, F):
    ctx.require(MB in F.adts and FX in F.adts, "C38: trigger structs not found")
    # writers of current_heap_pages: atomic stores/RMWs whose receiver is the field, and aggregate construction
    n = 0
    for f in F.fns.values():
        for c in live_calls(f):
            if c.name in ("store", "swap", "fetch_add", "fetch_sub", "fetch_update", "compare_exchange", "fetch_max", "fetch_min") and c.args:
                r = show(strip(f.flow.arg_tree(c, 0)))
                if r.endswith(".current_heap_pages"):
                    n += 1
                    v = f.flow.arg_tree(c, 1)
                    ctx.judge(c.name == "store" and clamped(v), "C38.writers", "write to current_heap_pages in %s" % short(f.q),
                              expected="store of clamp(_, self.min_heap_pages, self.max_heap_pages)", found="%s(%s)" % (c.name, show(strip(v))[:160]), where=where(f, c.line),
                              key="C38.writers|store|" + f.q)
        for i, b in enumerate(f.blocks):
            if i not in f.cfg.live:
                continue
            for j, st in enumerate(b["s"]):
                if st[0] == "=" and st[2][0] == "agg" and st[2][1].get("adt") == MB:
                    n += 1
                    names = st[2][1]["fields"]
                    vals = {nm: strip(f.flow.operand_tree(op, i, j)) for nm, op in zip(names, st[2][2])}
                    cur, mn, mx = show(vals.get("current_heap_pages")), vals.get("min_heap_pages"), vals.get("max_heap_pages")
                    okc = mn is not None and mn[0] == "arg" and bool(re.fullmatch(r"\w*(Atomic\w*)::new\(%s\)" % re.escape(show(mn)), cur))
                    ctx.judge(okc, "C38.writers", "MemBalancerTrigger constructed in %s starts at min" % short(f.q), expected="current_heap_pages = AtomicUsize::new(min_heap_pages)", found=cur[:120],
                              where=where(f, st[-1]), key="C38.writers|ctor|" + f.q)
    ctx.floor("C38.writers", n, 2, "writes to current_heap_pages")
    for fld in ("min_heap_pages", "max_heap_pages"):
        w = field_mutators(F, MB, fld)
        ctx.judge(not w, "C38.writers", "MemBalancerTrigger.%s is never written after construction" % fld, expected="no store / &mut borrow of the field", found=str(sorted(w)), key="C38.writers|bounds|" + fld)
    w = field_mutators(F, MB, "current_heap_pages")
    ctx.judge(not w, "C38.writers", "current_heap_pages is only changed through its atomic API", expected="no direct store / &mut borrow", found=str(sorted(w)), key="C38.writers|direct")
    w = field_mutators(F, FX, "total_pages")
    ctx.judge(not w, "C38.writers", "FixedHeapSizeTrigger.total_pages is never written after construction", expected="no writer", found=str(sorted(w)), key="C38.writers|fixed")
    # what is reported
    for ty, fld in ((MB, "current_heap_pages"), (FX, "total_pages")):
        q = "<%s as util::heap::gc_trigger::GCTriggerPolicy>::get_current_heap_size_in_pages" % ty
        f = F.fn(q)
        rt = [show(strip(t)) for r, t in f.flow.return_trees()]
        ctx.judge(bool(rt) and all(fld in r and "arg1" in r for r in rt), "C38.reported", "%s reports its %s" % (last_seg(ty), fld), expected="returns self.%s" % fld, found=str(rt), where=where(f),
                  key="C38.reported|" + ty)
    # the constructor receives (min, max) in this order from the DynamicHeapSize option
    for cs in callers(F, MB + "::new"):
        a0, a1 = show(strip(cs.fn.flow.arg_tree(cs, 0))), show(strip(cs.fn.flow.arg_tree(cs, 1)))
        ctx.judge("min" in a0.lower() or ".0" in a0 or "bytes_to_pages" in a0, "C38.writers", "MemBalancerTrigger::new(min, max) call in %s" % short(cs.fn.q), expected="first argument derives from the option's minimum", found="(%s, %s)" % (a0[:60], a1[:60]),
                  where=where(cs.fn, cs.line), key="C38.writers|new-args|" + cs.fn.q)

    # ---- C38.units: what the option gives in bytes reaches the triggers in pages, min as min and max as max
    gn = F.fn(GT + "GCTrigger::new")
    nfx = 0
    for i, b in enumerate(gn.blocks):
        if i not in gn.cfg.live:
            continue
        for j, st in enumerate(b["s"]):
            if st[0] == "=" and st[2][0] == "agg" and st[2][1].get("adt") == FX:
                nfx += 1
                v = show(strip(gn.flow.operand_tree(st[2][2][0], i, j)))
                gs = [show(p.tree) + "==" + str(p.val) for p in guards(gn, i)]
                dyn = any("== DynamicHeapSize" in x.replace("==", " == ") or "==DynamicHeapSize" in x for x in gs)
                want = "conversions::bytes_to_pages_up(arg1.gc_trigger as DynamicHeapSize.1)" if dyn else "conversions::bytes_to_pages_up(arg1.gc_trigger as FixedHeapSize.0)"
                ctx.judge(v == want, "C38.units", "FixedHeapSizeTrigger built in GCTrigger::new gets the configured size in pages (%s arm)" % ("DynamicHeapSize/NoGC" if dyn else "FixedHeapSize"),
                          expected="total_pages = " + want, found=v[:160], where=where(gn, st[-1]), key="C38.units|fixed|" + ("dyn" if dyn else "fixed"))
    ctx.floor("C38.units", nfx, 2, "FixedHeapSizeTrigger constructions in GCTrigger::new")
    mbn = live_calls(gn, q=MB + "::new")
    ctx.judge(len(mbn) == 1, "C38.units", "GCTrigger::new builds one MemBalancerTrigger", expected="1", found=str(len(mbn)), where=where(gn), key="C38.units|mb-site")
    for c in mbn:
        a0, a1 = show(strip(gn.flow.arg_tree(c, 0))), show(strip(gn.flow.arg_tree(c, 1)))
        ctx.judge(a0 == "conversions::bytes_to_pages_up(arg1.gc_trigger as DynamicHeapSize.0)" and a1 == "conversions::bytes_to_pages_up(arg1.gc_trigger as DynamicHeapSize.1)",
                  "C38.units", "MemBalancerTrigger::new receives (min, max) of the option converted to pages", expected="(pages_up(min_bytes), pages_up(max_bytes))", found="(%s, %s)" % (a0[:90], a1[:90]),
                  where=where(gn, c.line), key="C38.units|mb-args")
    mn = F.fn(MB + "::new")
    names = [mn.local_name(i) for i in range(1, mn.argc + 1)]
    ctx.judge(names[:2] == ["min_heap_pages", "max_heap_pages"], "C38.units", "MemBalancerTrigger::new takes (min_heap_pages, max_heap_pages)", expected="parameter order (min, max)", found=str(names),
              where=where(mn), key="C38.units|mb-params")
    for cs in callers(F, MB + "::new"):
        ctx.judge(cs.fn.q == gn.q, "C38.units", "MemBalancerTrigger::new <- %s" % short(cs.fn.q), expected="constructed only by GCTrigger::new", found=cs.fn.q, where=where(cs.fn, cs.line),
                  key="C38.units|mb-caller|" + cs.fn.q)
