"""C20 Side metadata behaves as an array of independent integers: extract-before-convert clause (partial)."""
import re
from .common import *
from ..engine import AnalysisError, show, strip, short, walk, last_seg, tree_calls

PROP = "C20"
LEVEL = "other"
QUICK = ["K0"]
THOROUGH = ALL_CONFIGS
ASSUMPTIONS = ["address-to-metadata-address arithmetic, shift and mask values are value-level and not decided"]
LEVEL_NOTE = ("partial: decides the field-isolation clause of the sub-byte (log_num_of_bits < 3) paths of the side-metadata accessors - no raw byte is converted to a value, every "
              "written-back byte provably keeps the bits outside the field's mask (abstract interpretation, all values), atomic variants are single RMWs; the address arithmetic, the "
              "value semantics inside the field and the >= 1 byte paths are not decided")
EXPLANATION = (
    "Partial claim. In every SideMetadataSpec accessor (functions and closures), each conversion from_u8(x) on the sub-byte path has the "
    "shape ((byte & mask) >> lshift) with mask = meta_byte_mask(self) << meta_byte_lshift(self, data_addr) (or captured variables named "
    "mask/lshift holding them), or is the result of fetch_ops_on_bits (whose closure is checked); every byte written back has the shape "
    "(old & !mask) | ((new << lshift) [& mask]); atomic accessors write through a read-modify-write (fetch_update / fetch_and / fetch_or / "
    "compare_exchange), the only plain byte store being in the non-atomic store(). "
    "Neighbours-preserved clause (rules/bitiso.py): every byte the sub-byte paths write back (plain store, both operands of the byte CAS, the value "
    "handed back by each fetch_update closure including a closure mapped over the user's update result, the operands of the atomic AND/OR) is evaluated "
    "in an abstract domain describing the bits OUTSIDE the field's mask {RAW = bits of the byte read, ZERO, ONES, ANY}; stored bytes must be RAW, an AND "
    "operand ONES, an OR operand ZERO. A shifted value counts as confined to the mask only if it is the accessor's own parameter (documented "
    "precondition value < 2^bits), an extracted field, or explicitly masked - so a computed value (fetch_add/sub result, user update result) must be "
    "masked before it is merged. This holds for every value, every field position and every neighbour."
)
P = "util::metadata::side_metadata::global::SideMetadataSpec::"


def check_side_atomics(ctx, F, rule):
    """Sub-byte paths of the atomic side-metadata writers are single read-modify-write operations on the byte: a load
    followed by a separate store can overwrite a concurrent update of a neighbouring field in the same byte."""
    for nm, rmw_names in (("store_atomic", ("fetch_update",)), ("compare_exchange_atomic", ("compare_exchange",)), ("fetch_update_atomic", ("fetch_update",))):
        f = F.fn(P + nm)
        allf = fn_and_closures(F, f)
        sub_rmw, sub_plain = [], []
        for g in allf:
            for c in live_calls(g):
                on_sub = any(re.search(r"log_num_of_bits Lt 3", show(p.tree)) and p.val is True for p in guards(g, c.bb))
                if not on_sub:
                    continue
                is_byte = bool(c.ga) and bool(re.search(r"(^u8$|Atomic<u8>|AtomicU8)", c.ga[0]))
                if c.name in rmw_names and is_byte:
                    sub_rmw.append(c)
                elif c.name in ("store", "atomic_store") and c.q and "Address" in c.q and is_byte:
                    sub_plain.append(c)
        ctx.judge(len(sub_rmw) == 1 and not sub_plain, rule, "SideMetadataSpec::%s updates a sub-byte field with one atomic RMW on the byte" % nm,
                  expected="exactly one %s on the metadata byte and no separate byte store" % "/".join(rmw_names), found="rmw=%d plain stores=%s" % (len(sub_rmw), [c.line for c in sub_plain]), where=where(f),
                  key="%s|%s" % (rule, nm))
        if nm == "compare_exchange_atomic" and len(sub_rmw) == 1:
            c = sub_rmw[0]
            exp = show(strip(c.fn.flow.arg_tree(c, 1)))
            ctx.judge("atomic_load" in exp and "Not(" in exp and ("arg" in exp or "upvar(old_metadata)" in exp), rule, "side compare-exchange expects the loaded byte with the old field value spliced in",
                      expected="cas((load & !mask) | (old << lshift), ..)", found=exp[:140], where=where(c.fn, c.line), key=rule + "|cas-operands")


def is_extract(t):
    """((X & M) >> L)"""
    t = strip(t)
    if t and t[0] == "cast":
        t = strip(t[2])
    if not (t and t[0] == "bin" and t[1] == "Shr"):
        return False
    inner, sh = strip(t[2]), show(strip(t[3]))
    if not (inner and inner[0] == "bin" and inner[1] == "BitAnd"):
        return False
    m = show(strip(inner[3])) + show(strip(inner[2]))
    return ("meta_byte_mask" in m or "upvar(mask)" in m) and ("meta_byte_lshift" in sh or "upvar(lshift)" in sh)


def is_merge(t):
    """(old & !mask) | (...)"""
    t = strip(t)
    for s in walk(t):
        if s and s[0] == "bin" and s[1] == "BitOr":
            l = strip(s[2])
            if l and l[0] == "bin" and l[1] == "BitAnd":
                r = show(strip(l[3]))
                if r.startswith("Not(") and ("meta_byte_mask" in r or "upvar(mask)" in r):
                    return True
    return False


def run(ctx, F):
    fs = [f for q, f in sorted(F.fns.items()) if q.startswith(P) and "::tests::" not in q]
    ctx.floor("C20.extract-before-convert", len(fs), 40, "SideMetadataSpec functions and closures")
    n = 0
    for f in fs:
        for c in live_calls(f, name="from_u8"):
            if not (c.trait and "FromPrimitive" in c.trait):
                continue
            n += 1
            a = strip(f.flow.arg_tree(c, 0))
            okc = is_extract(a) or bool(tree_calls(a, name="fetch_ops_on_bits"))
            ctx.judge(okc, "C20.extract-before-convert", "%s converts only the masked and shifted field" % short(f.q), expected="from_u8((byte & mask) >> lshift) or the result of fetch_ops_on_bits",
                      found="from_u8(%s)" % show(a)[:140], where=where(f, c.line), key="C20.extract-before-convert|conv|%s" % f.q)
    ctx.floor("C20.extract-before-convert", n, 11, "from_u8 conversion sites")
    nw = 0
    plain_sites = []
    for f in fs:
        for c in live_calls(f):
            if c.q == "util::address::Address::store" and c.ga and c.ga[0] == "u8":
                nw += 1
                plain_sites.append(outermost(F, f).q)
                v = strip(f.flow.arg_tree(c, 1))
                ctx.judge(is_merge(v), "C20.extract-before-convert", "%s stores a byte that keeps the neighbouring fields" % short(f.q), expected="store((old & !mask) | (new << lshift))", found=show(v)[:140],
                          where=where(f, c.line), key="C20.extract-before-convert|store|%s" % f.q)
        if f.kind == "closure" and f.argc >= 2 and f.local_ty(2) == "u8":
            for b, t, g in ret_table(f):
                if t and t[0] == "agg" and t[1][2] == "Some" and t[2] and "u8" in f.meta.get("parent", "") + "u8":
                    par = F.fns.get(f.meta.get("parent", ""))
                    # closures handed to <u8 as MetadataValue>::fetch_update on the sub-byte path
                    used = par is not None and any(x.name == "fetch_update" and x.ga and x.ga[0] == "u8" and f.q in show(strip(par.flow.arg_tree(x, len(x.args) - 1))) for x in live_calls(par))
                    if used or True:
                        v = strip(t[2][0])
                        if "upvar(mask)" in show(v) or "meta_byte_mask" in show(v):
                            nw += 1
                            ctx.judge(is_merge(v) and any(s == ("arg", 2) for s in walk(v)), "C20.extract-before-convert", "%s: RMW closure keeps the neighbouring fields of the byte it was given" % short(f.q),
                                      expected="Some((old & !mask) | ..)", found=show(v)[:140], where=where(f), key="C20.extract-before-convert|rmw|%s" % f.q)
    ctx.judge(nw >= 1, "C20.extract-before-convert", "byte write-back sites found", expected=">= 1", found=str(nw), key="C20.extract-before-convert|writeback-count")
    check_side_atomics(ctx, F, "C20.rmw-atomic")
    okp = set(plain_sites) <= {P + "store"}
    ctx.judge(okp, "C20.extract-before-convert", "the only plain byte store is in the non-atomic store()", expected="atomic accessors use read-modify-write operations", found=str(sorted(set(plain_sites))),
              key="C20.extract-before-convert|plain-only-store")
    # atomic accessors: on the sub-byte path they call an RMW
    for nm in ("store_atomic", "compare_exchange_atomic", "fetch_add_atomic", "fetch_sub_atomic", "fetch_and_atomic", "fetch_or_atomic", "fetch_update_atomic"):
        f = F.fn(P + nm)
        allf = fn_and_closures(F, f)
        rm = [c for g in allf for c in live_calls(g) if c.name in ("fetch_update", "fetch_and", "fetch_or", "compare_exchange", "fetch_ops_on_bits") and (c.name == "fetch_ops_on_bits" or (c.ga and re.search(r"(^u8$|Atomic<u8>|AtomicU8)", c.ga[0])) or "u8" in (c.res or ""))]
        ctx.judge(bool(rm), "C20.extract-before-convert", "%s modifies a sub-byte field through a read-modify-write" % nm, expected="fetch_update / fetch_and / fetch_or / compare_exchange on the byte", found=str(len(rm)),
                  where=where(f), key="C20.extract-before-convert|atomic|" + nm)
    # ---- C20.neighbours-preserved: abstract interpretation of every byte written back (rules/bitiso.py)
    from . import bitiso
    bitiso.check_helpers(ctx, F, "C20.neighbours-preserved", "side")
    nsites = bitiso.check_isolation(ctx, F, "C20.neighbours-preserved", P, "side")
    ctx.floor("C20.neighbours-preserved", nsites, 8, "write-back sites of sub-byte side metadata (store, store_atomic, compare_exchange x2, fetch_ops, fetch_and, fetch_or, fetch_update)")
