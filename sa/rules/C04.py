"""C04 Non-moving / immortal / pinned objects never move; immortal never die (DESIGN.md 4/C04)."""
import re
from .common import *
from . import plans
from ..engine import AnalysisError, show, strip, short, walk, last_seg

PROP = "C04"
LEVEL = "other"
QUICK = ["K0", "K1"]
THOROUGH = ALL_CONFIGS
ASSUMPTIONS = ["the binding's ObjectModel::copy is only reached through the functions listed as copy primitives",
               "which objects end up in which space (allocation semantics -> space) is decided under C03"]
EXPLANATION = (
    "no-copy-reach: from every trace_object entry point (PolicyTraceObject, SFT::sft_trace_object and inherent) of the non-moving policies "
    "(ImmortalSpace, LargeObjectSpace, MarkSweepSpace, MallocSpace, VMSpace, LockFreeImmortalSpace) and from ImmixSpace::trace_object_without_moving, "
    "no copy primitive (ObjectModel::copy/copy_to/get_reference_when_copied_to, object_forwarding::forward_object, GCWorkerCopyContext::alloc_copy) is "
    "reachable in the resolved call graph; their may_move_objects / is_movable return the constant false. pin-guard: in "
    "ImmixSpace::trace_object_with_opportunistic_copy the forward_object call is dominated by is_pinned(object)==false on every path (whatever the "
    "nursery flag), and is_pinned is the pin bit under object_pinning. pin-writers: the only code that clears pin bits in bulk is Block::sweep for "
    "lines found unmarked; every other writer of LOCAL_PINNING_BIT_SPEC is the pin/unpin API. never-dies: ImmortalSpace / VMSpace report is_live = true "
    "unconditionally, have no page-release call reachable from prepare/release, and the liveness query used to decide finalization and weak-reference "
    "clearing is is_live (not is_reachable). nonmoving-args: the non-moving Immix space is created with never_move_objects = true, which disables "
    "defragmentation and nursery copying (is_defrag_enabled / is_nursery_copy_enabled are !never_move_objects) and the immix_non_moving feature forces it."
)

COPY = ("vm::object_model::ObjectModel::copy", "vm::object_model::ObjectModel::copy_to", "vm::object_model::ObjectModel::get_reference_when_copied_to",
        "util::object_forwarding::forward_object", "util::copy::GCWorkerCopyContext::alloc_copy")
NONMOVING = {
    "policy::immortalspace::ImmortalSpace": None,
    "policy::largeobjectspace::LargeObjectSpace": None,
    "policy::marksweepspace::native_ms::global::MarkSweepSpace": None,
    "policy::marksweepspace::malloc_ms::global::MallocSpace": "malloc_mark_sweep",
    "policy::vmspace::VMSpace": "vm_space",
    "policy::lockfreeimmortalspace::LockFreeImmortalSpace": None,
}
IMMIX = "policy::immix::immixspace::ImmixSpace"


def run(ctx, F):
    # ---- C04.no-copy-reach
    nroots = 0
    for ty, feat in NONMOVING.items():
        if ty not in F.adts:
            if feat is None:
                raise AnalysisError("C04: policy type %s not found" % ty)
            continue
        roots = [q for q in ("<%s as policy::gc_work::PolicyTraceObject>::trace_object" % ty, "<%s as policy::sft::SFT>::sft_trace_object" % ty, ty + "::trace_object") if q in F.fns]
        ctx.judge(len(roots) >= 2, "C04.no-copy-reach", "%s has its trace entry points" % last_seg(ty), expected="PolicyTraceObject::trace_object and SFT::sft_trace_object", found=str(roots), key="C04.no-copy-reach|roots|" + ty)
        par = F.cg.reach(roots)
        hit = [q for q in COPY if q in par]
        nroots += len(roots)
        ctx.judge(not hit, "C04.no-copy-reach", "tracing an object of %s never reaches a copy primitive" % last_seg(ty), expected="none of %s reachable" % [last_seg(x) for x in COPY],
                  found=" -> ".join(short(x) for x in F.cg.path_to(par, hit[0])) if hit else "", where=where(F.fns[roots[0]]) if roots else "", key="C04.no-copy-reach|" + ty)
        mm = F.fns.get("<%s as policy::gc_work::PolicyTraceObject>::may_move_objects" % ty)
        if mm is not None and not mm.cfg.noreturn:
            rc = [c for _, c, _ in ret_consts(mm)]
            ctx.judge(rc == [False], "C04.no-copy-reach", "%s::may_move_objects is false" % last_seg(ty), expected="constant false", found=str(rc), where=where(mm), key="C04.no-copy-reach|may-move|" + ty)
        im = F.fns.get("<%s as policy::sft::SFT>::is_movable" % ty)
        if im is not None and not im.cfg.noreturn:
            rc = [c for _, c, _ in ret_consts(im)]
            ctx.judge(rc == [False], "C04.no-copy-reach", "%s::is_movable is false" % last_seg(ty), expected="constant false", found=str(rc), where=where(im), key="C04.no-copy-reach|movable|" + ty)
    wm = IMMIX + "::trace_object_without_moving"
    par = F.cg.reach([wm])
    hit = [q for q in COPY if q in par]
    ctx.judge(not hit, "C04.no-copy-reach", "ImmixSpace::trace_object_without_moving never reaches a copy primitive", expected="no copy primitive reachable",
              found=" -> ".join(short(x) for x in F.cg.path_to(par, hit[0])) if hit else "", where=where(F.fn(wm)), key="C04.no-copy-reach|immix-without-moving")
    ctx.floor("C04.no-copy-reach", nroots, 8, "trace entry points of non-moving policies")
    # positive control: the copying entry point does reach forward_object
    oc = IMMIX + "::trace_object_with_opportunistic_copy"
    ctx.judge("util::object_forwarding::forward_object" in F.cg.reach([oc]), "C04.no-copy-reach", "control: the opportunistic-copy path is seen to reach forward_object", expected="reachable", found="not reachable",
              key="C04.no-copy-reach|control")

    # ---- C04.pin-guard
    f = F.fn(oc)
    fw = live_calls(f, name="forward_object")
    ctx.judge(len(fw) == 1, "C04.pin-guard", "one forward_object site in trace_object_with_opportunistic_copy", expected="1", found=str(len(fw)), where=where(f), key="C04.pin-guard|site")
    for c in fw:
        gs = guards(f, c.bb)
        okp = any(show(p.tree) == "ImmixSpace::is_pinned(arg1, arg3)" and p.val is False for p in gs)
        ctx.judge(okp, "C04.pin-guard", "an object is copied only if it is not pinned", expected="forward_object dominated by is_pinned(object) == false on every path (nursery or not)",
                  found=str(guard_strs(f, c.bb))[:300], where=where(f, c.line), key="C04.pin-guard|forward")
    ip = F.fn(IMMIX + "::is_pinned")
    rt = [show(strip(t)) for _, t in ip.flow.return_trees()]
    if "object_pinning" in F.features:
        iop = F.fn("<%s as policy::sft::SFT>::is_object_pinned" % IMMIX)
        rt2 = [show(strip(t)) for _, t in iop.flow.return_trees()]
        ctx.judge(rt == ["<ImmixSpace as SFT>::is_object_pinned(arg1, arg2)"] and rt2 == ["VMLocalPinningBitSpec::is_object_pinned(ObjectModel::LOCAL_PINNING_BIT_SPEC, arg2)"], "C04.pin-guard",
                  "ImmixSpace::is_pinned reads the pin bit of that object", expected="LOCAL_PINNING_BIT_SPEC.is_object_pinned(object)", found="%s ; %s" % (rt, rt2), where=where(ip), key="C04.pin-guard|is-pinned")
    # in-place handling of a pinned object marks it (it stays live where it is)
    am = [c for c in live_calls(f, name="attempt_mark")]
    ctx.judge(any(not any("is_pinned" in show(p.tree) and p.val is False for p in guards(f, c.bb)) for c in am), "C04.pin-guard", "a pinned object is marked in place", expected="attempt_mark on the not-copied arm",
              found=str([guard_strs(f, c.bb) for c in am])[:300], where=where(f), key="C04.pin-guard|mark-in-place")

    # ---- C04.pin-writers
    if "object_pinning" in F.features:
        MUT = re.compile(r"^(bzero_metadata|bset_metadata|bcopy_metadata_contiguous|store|store_atomic|fetch_\w+|compare_exchange\w*|set_zero\w*|set_raw_byte\w*|unpin_object|pin_object|zero_meta_bits|set_meta_bits)$")
        allowed = {
            "policy::immix::block::Block::sweep": "clears the pin bits of lines found unmarked (their objects are dead)",
            "<policy::immix::immixspace::ImmixSpace as policy::sft::SFT>::pin_object": "pin API",
            "<policy::immix::immixspace::ImmixSpace as policy::sft::SFT>::unpin_object": "unpin API",
            "util::metadata::pin_bit::<impl vm::object_model::specs::VMLocalPinningBitSpec>::pin_object": "pin primitive",
            "util::metadata::pin_bit::<impl vm::object_model::specs::VMLocalPinningBitSpec>::unpin_object": "unpin primitive",
        }
        n = 0
        for q, g in sorted(F.fns.items()):
            for c in live_calls(g):
                if not c.name or not MUT.match(c.name) or not c.args:
                    continue
                r = show(strip(g.flow.arg_tree(c, 0)))
                if "LOCAL_PINNING_BIT_SPEC" not in r:
                    continue
                n += 1
                top = outermost(F, g).q
                ctx.judge(top in allowed or any(top.endswith(last_seg(a)) and "pin_bit" in top for a in allowed), "C04.pin-writers", "%s writes pin bits (%s)" % (short(q), c.name),
                          expected="only the pin/unpin API and Block::sweep (dead lines) write LOCAL_PINNING_BIT_SPEC", found=top, detail=allowed.get(top, ""), where=where(g, c.line),
                          key="C04.pin-writers|%s|%s" % (top, c.name))
        ctx.floor("C04.pin-writers", n, 3, "writers of LOCAL_PINNING_BIT_SPEC")
        bs = F.fn("policy::immix::block::Block::sweep")
        for c in [c for c in live_calls(bs, name="bzero_metadata") if "LOCAL_PINNING_BIT_SPEC" in show(strip(bs.flow.arg_tree(c, 0)))]:
            okl = any("is_marked" in show(p.tree) and p.val is False for p in guards(bs, c.bb))
            a1 = show(strip(bs.flow.arg_tree(c, 1)))
            ctx.judge(okl and "Line" in a1, "C04.pin-writers", "Block::sweep clears pin bits only of lines that are not marked", expected="bzero(line.start(), Line::BYTES) under !line.is_marked(state)",
                      found="%s under %s" % (a1[:80], guard_strs(bs, c.bb)), where=where(bs, c.line), key="C04.pin-writers|sweep-guard")

    # ---- C04.never-dies
    for ty in ("policy::immortalspace::ImmortalSpace", "policy::vmspace::VMSpace"):
        il = F.fns.get("<%s as policy::sft::SFT>::is_live" % ty)
        if il is None:
            if ty.endswith("ImmortalSpace"):
                raise AnalysisError("C04: ImmortalSpace::is_live missing")
            continue
        rc = [c for _, c, _ in ret_consts(il)]
        ctx.judge(rc == [True], "C04.never-dies", "%s::is_live is unconditionally true" % last_seg(ty), expected="constant true", found=str([show(strip(t))[:80] for _, t in il.flow.return_trees()]), where=where(il),
                  key="C04.never-dies|is-live|" + ty)
        RELEASE = re.compile(r"::(release_pages|release_block|release_all_chunks|reset|reset_cursor|release_multiple_pages|free_contiguous_chunks\w*)$")
        for m in ("prepare", "release", "end_of_gc"):
            r = F.fns.get("%s::%s" % (ty, m)) or F.fns.get("<%s as policy::space::Space>::%s" % (ty, m))
            if r is None:
                continue
            par = F.cg.reach([r.q])
            hit = [q for q in par if RELEASE.search(q) and "PageResource" in q]
            ctx.judge(not hit, "C04.never-dies", "%s::%s gives no memory back" % (last_seg(ty), m), expected="no page-resource release reachable", found=str([short(h) for h in hit])[:200], where=where(r),
                      key="C04.never-dies|release|%s|%s" % (ty, m))
    # consumers of liveness decide with is_live
    fp = F.fn("util::finalizable_processor::FinalizableProcessor::scan")
    lv = [c.name for c in live_calls(fp) if c.name in ("is_live", "is_reachable")]
    ctx.judge(lv == ["is_live"], "C04.never-dies", "finalization candidates are kept while is_live", expected="reff.is_live()", found=str(lv), where=where(fp), key="C04.never-dies|finalizer")
    for q, g in sorted(F.fns.items()):
        if q.startswith("util::reference_processor::") and g.kind != "closure":
            for c in live_calls(g):
                if c.name == "is_reachable":
                    ctx.bad("C04.never-dies", "%s decides with is_reachable" % short(q), expected="weak-reference processing asks is_live (immortal objects are live even when unreached)", found="is_reachable", where=where(g, c.line),
                            key="C04.never-dies|refproc|" + q)
    nl = sum(1 for q, g in F.fns.items() if q.startswith("util::reference_processor::") for c in live_calls(g) if c.name == "is_live")
    ctx.judge(nl >= 3, "C04.never-dies", "reference processing consults is_live", expected=">= 3 is_live call sites", found=str(nl), key="C04.never-dies|refproc-sites")
    # ObjectReference::is_live goes to the SFT of the object's space
    ol = F.fn("util::address::ObjectReference::is_live")
    rt = [show(strip(t)) for _, t in ol.flow.return_trees()]
    ctx.judge(bool(rt) and all("SFT::is_live" in r and "get_unchecked" in r for r in rt), "C04.never-dies", "ObjectReference::is_live asks the object's own space", expected="SFT_MAP.get_unchecked(addr).is_live(self)", found=str(rt)[:160],
              where=where(ol), key="C04.never-dies|objref")

    # ---- C04.nonmoving-args
    for nm, want in (("is_defrag_enabled", r"^Not\(arg1\.space_args\.never_move_objects\)$"),):
        g = F.fn(IMMIX + "::" + nm)
        rt = [show(strip(t)) for _, t in g.flow.return_trees()]
        ctx.judge(bool(rt) and all(re.match(want, r) for r in rt), "C04.nonmoving-args", "ImmixSpace::%s is !never_move_objects" % nm, expected=want, found=str(rt), where=where(g), key="C04.nonmoving-args|" + nm)
    g = F.fn(IMMIX + "::is_nursery_copy_enabled")
    rows = [(show(strip(t)), [(show(p.tree), p.val) for p in gg]) for b, t, gg in ret_table(g)]
    okn = all((r == "False") or any(s == "arg1.space_args.never_move_objects" and v is False for s, v in gs) or r == "Not(arg1.space_args.never_move_objects)" for r, gs in rows) and bool(rows)
    ctx.judge(okn, "C04.nonmoving-args", "nursery copying is enabled only when never_move_objects is false", expected="true only under !never_move_objects", found=str(rows)[:200], where=where(g),
              key="C04.nonmoving-args|nursery-copy")
    # who may turn an Immix trace into a copying one: the callers choose by is_defrag / prefer_copy_on_nursery_gc
    for cs in callers(F, oc):
        h = cs.fn
        gs = guards(h, cs.bb)
        okc = any(re.search(r"in_defrag|is_defrag_source|prefer_copy_on_nursery_gc|is_nursery_copy_enabled|KIND|TRACE_KIND|trace_kind|is_defrag_enabled", show(p.tree)) for p in gs) or "TRACE_KIND" in " ".join(cs.ga) or \
            bool(re.search(r"trace_object$", h.q))
        ctx.judge(okc, "C04.nonmoving-args", "%s selects the copying trace deliberately" % short(h.q), expected="guarded by trace kind / defrag state", found=str(guard_strs(h, cs.bb))[:200], where=where(h, cs.line),
                  key="C04.nonmoving-args|caller|" + h.q)
    sds = callers(F, "policy::immix::block::Block::set_as_defrag_source")
    for cs in sds:
        h = cs.fn
        v = const_arg(h.flow.arg_tree(cs, 1))
        if v is False:
            continue
        top = outermost(F, h)
        op = cs.args[1]
        alts = h.flow.alternatives(op[1][0], cs.bb, "t") if op[0] in ("c", "m") and len(op[1]) == 1 else None
        okd = alts is not None
        found = "value is not a plain local"
        if okd:
            bad = []
            for b, t in alts:
                if const_arg(t) is False:
                    continue
                gs = guards(h, b) if b is not None else []
                if not any(show(p.tree) == "ImmixSpace::is_defrag_enabled(arg1.space)" and p.val is True for p in gs):
                    bad.append((b, show(strip(t))[:80]))
            okd = not bad
            found = "alternatives not under is_defrag_enabled(): %s" % bad if bad else "%d alternatives" % len(alts)
        ctx.judge(okd, "C04.nonmoving-args", "%s marks a block as defrag source only if the space may move objects" % short(top.q), expected="every non-false value is chosen under self.space.is_defrag_enabled()",
                  found=found, where=where(h, cs.line), key="C04.nonmoving-args|defrag-source|" + top.q)
    # the selection packet is scheduled only when defrag is decided, and defrag is decided only if enabled
    dd = F.fn("policy::immix::defrag::Defrag::decide_whether_to_defrag")
    decide_callers = callers(F, dd.q)
    for cs in decide_callers:
        a1 = show(strip(cs.fn.flow.arg_tree(cs, 1)))
        ctx.judge("is_defrag_enabled" in a1, "C04.nonmoving-args", "%s: defrag is considered only if the space may move objects" % short(cs.fn.q), expected="decide_whether_to_defrag(self.is_defrag_enabled(), ..)", found=a1[:120],
                  where=where(cs.fn, cs.line), key="C04.nonmoving-args|decide|" + cs.fn.q)
    ctx.judge(len(decide_callers) >= 1, "C04.nonmoving-args", "defrag decision site found", expected=">= 1", found=str(len(decide_callers)), key="C04.nonmoving-args|decide-site")
    st = [(bb, t) for (bb, j, pl, t) in stores(dd) if False]
    indef = [c for c in live_calls(dd) if c.name == "store" and "in_defrag_collection" in show(strip(dd.flow.arg_tree(c, 0)))]
    for c in indef:
        v = show(strip(dd.flow.arg_tree(c, 1)))
        ctx.judge(v.startswith("phi(") and "False" in v or "arg2" in v or "BitAnd" in v or "defrag_enabled" in v, "C04.nonmoving-args", "in_defrag_collection can be true only when defrag is enabled", expected="defrag_enabled && (...)",
                  found=v[:160], where=where(dd, c.line), key="C04.nonmoving-args|in-defrag")
    # the non-moving space of CommonPlan
    nn = F.fns.get("plan::global::CommonPlan::new_nonmoving_space")
    if nn is not None:
        aggs = []
        for i, b in enumerate(nn.blocks):
            if i not in nn.cfg.live:
                continue
            for j, stt in enumerate(b["s"]):
                if stt[0] == "=" and stt[2][0] == "agg" and stt[2][1].get("adt", "").endswith("ImmixSpaceArgs"):
                    vals = {n2: const_arg(nn.flow.operand_tree(op, i, j)) for n2, op in zip(stt[2][1]["fields"], stt[2][2])}
                    aggs.append(vals)
        cp = F.adts.get("plan::global::CommonPlan")
        fty = [fld["ty"] for fld in cp["variants"][0]["fields"] if fld["name"] == "nonmoving"][0] if cp else ""
        if "ImmixSpace" in fty:
            ctx.judge(len(aggs) == 1 and aggs[0].get("never_move_objects") is True, "C04.nonmoving-args", "the non-moving Immix space is created with never_move_objects = true", expected="ImmixSpaceArgs { never_move_objects: true, .. }",
                      found=str(aggs), where=where(nn), key="C04.nonmoving-args|common")
        else:
            ctx.ok("C04.nonmoving-args", "non-moving space policy is %s (not Immix) in this configuration" % fty[:60], "is_movable checked under no-copy-reach")
