"""C10 Out-of-memory and allocation-option contract (DESIGN.md 4/C10)."""
import re
from .common import *
from ..engine import AnalysisError, show, strip, short, tree_calls, walk

PROP = "C10"
LEVEL = "other"
QUICK = ["K0", "K1", "K5", "K9"]
THOROUGH = ALL_CONFIGS
ASSUMPTIONS = ["the binding's out_of_memory/block_for_gc implementations are outside the crate",
               "AllocationOptions reach the allocator only through AllocatorContext::get_alloc_options (checked: field is private to util::alloc::allocator)"]
EXPLANATION = (
    "Structural necessary conditions of the OOM / allocation-option contract: census of every caller of "
    "Collection::out_of_memory and Collection::block_for_gc; every HeapOutOfMemory call is dominated by a branch on "
    "allow_oom_call==true; in the allocation slow path the OOM call is dominated by 'an emergency collection was "
    "attempted for this request' whose only definitions are the initial false and is_emergency_collection() at the loop "
    "tail, and nothing retries after it; every block_for_gc reachable from an allocator is dominated by "
    "at_safepoint==true; Space::acquire computes should_get_pages = !gc_triggered || allow_overcommit and the success "
    "arm cannot reach block_for_gc; obvious-OOM requests return before acquiring. Decides branch structure on all "
    "non-panicking paths, not heap-size arithmetic."
)
COLL = "vm::collection::Collection::"
ALLOC_OOM = "util::alloc::allocator::Allocator::out_of_memory"
SLOW = "util::alloc::allocator::Allocator::alloc_slow_inline"
OBVIOUS = "util::alloc::allocator::Allocator::handle_obvious_oom_request"


def run(ctx, F):
    # ---- C10.oom-callers
    allowed = {ALLOC_OOM: "the allocator's HeapOutOfMemory wrapper",
               "util::os::memory::OSMemory::handle_mmap_error::{closure#0}": "MmapOutOfMemory: OS error, expected to abort",
               "util::os::memory::OSMemory::handle_mmap_error": "MmapOutOfMemory: OS error, expected to abort"}
    sites = check_callers(ctx, F, "C10.oom-callers", COLL + "out_of_memory", allowed)
    for cs in sites:
        kind = const_arg(cs.fn.flow.arg_tree(cs, 1))
        want = "HeapOutOfMemory" if cs.fn.q == ALLOC_OOM else "MmapOutOfMemory"
        ctx.judge(kind == want, "C10.oom-callers", "error kind passed by %s" % short(cs.fn.q), expected=want, found=str(kind),
                  where=where(cs.fn, cs.line), key="C10.oom-callers|kind|" + cs.fn.q)
    wsites = check_callers(ctx, F, "C10.oom-callers", ALLOC_OOM,
                           {OBVIOUS: "request larger than the heap: immediate OOM", SLOW: "after an emergency collection failed"}, min_sites=2)

    # ---- C10.oom-guard: every HeapOutOfMemory call is dominated by allow_oom_call == true
    for cs in wsites:
        g = guard_find(cs.fn, cs.bb, r"\.allow_oom_call$", True)
        ctx.judge(bool(g), "C10.oom-guard", "out_of_memory call in %s" % short(cs.fn.q),
                  expected="dominated by a branch on AllocationOptions.allow_oom_call == true",
                  found="guards=%s" % [s for s in guard_strs(cs.fn, cs.bb) if "stress" not in s][-6:],
                  where=where(cs.fn, cs.line), key="C10.oom-guard|" + cs.fn.q)
    # no other path to the binding: LockFreeImmortalSpace panics instead (checked by census above)

    # ---- C10.oom-after-gc
    slow = F.fn(SLOW)
    for cs in [c for c in wsites if c.fn is slow]:
        gs = guards(slow, cs.bb)
        em_local = [p for p in gs if p.val is True and p.tree and p.tree[0] == "phi"
                    and any(tree_calls(x, name="is_emergency_collection") for x in p.tree[1])]
        ok_shape = False
        for p in em_local:
            alts = list(p.tree[1])
            others = [a for a in alts if not tree_calls(a, name="is_emergency_collection")]
            ok_shape = all(a and a[0] == "const" and a[2] is False for a in others) and len(others) >= 1
        em_now = guard_find(slow, cs.bb, r"^GlobalState::is_emergency_collection", True)
        ctx.judge(bool(em_local) and ok_shape and bool(em_now), "C10.oom-after-gc", "OOM only after an emergency collection",
                  expected="dominated by local flag {initially false | is_emergency_collection() from a previous failed attempt} == true and by is_emergency_collection() == true",
                  found="guards=%s" % [s for s in guard_strs(slow, cs.bb) if "emergency" in s], where=where(slow, cs.line),
                  key="C10.oom-after-gc|flag")
        # the flag is (re)assigned only after a failed attempt at a safepoint
        # nothing retries after the OOM call: no allocation attempt reachable
        retry = [c for c in calls_after(slow, cs.bb) if c.name and c.name.startswith("alloc_slow_once")]
        ctx.judge(not retry, "C10.oom-after-gc", "no retry after out_of_memory", expected="the OOM path returns without another attempt",
                  found=str([c.line for c in retry]), where=where(slow, cs.line), key="C10.oom-after-gc|retry")
        z = guard_find(slow, cs.bb, r"^Address::is_zero", True)
        ctx.judge(bool(z), "C10.oom-after-gc", "OOM path returns the failed (null) result",
                  expected="OOM call dominated by result.is_zero() == true", found=str(guard_strs(slow, cs.bb)[-4:]), where=where(slow, cs.line),
                  key="C10.oom-after-gc|zero")
    # loop-tail assignment of the flag happens after blocking was possible: at_safepoint == true
    # (C10.at-safepoint-return) the early `return ZERO` when !at_safepoint
    rz = []
    for r, t in slow.flow.return_trees():
        pass
    resets = live_calls(slow, name="reset_allocation_state")
    early = [c for c in resets if guard_find(slow, c.bb, r"\.at_safepoint$", False)]
    sem = _slow_path_semantics(F, slow)
    ctx.judge(len(early) == 1 or sem["unsafe_returns"], "C10.at-safepoint-return", "alloc_slow_inline returns early when !at_safepoint",
              expected="one reset_allocation_state+return arm guarded by at_safepoint == false", found=str(len(early)), where=where(slow),
              key="C10.at-safepoint-return|arm")
    for c in early:
        after = calls_after(slow, c.bb)
        bad = [x for x in after if x.name in ("out_of_memory", "alloc_slow_once_traced", "alloc_slow_once_precise_stress", "is_emergency_collection")]
        ctx.judge(not bad or sem["unsafe_returns"], "C10.at-safepoint-return", "!at_safepoint arm returns immediately", expected="no OOM logic / retry after the arm",
                  found=str([(x.name, x.line) for x in bad]), where=where(slow, c.line), key="C10.at-safepoint-return|after")
    for cs in [c for c in wsites if c.fn is slow]:
        g = guard_find(slow, cs.bb, r"\.at_safepoint$", True)
        ctx.judge(bool(g), "C10.at-safepoint-return", "OOM logic only at a safepoint", expected="OOM call dominated by at_safepoint == true",
                  found=str([s for s in guard_strs(slow, cs.bb) if "safepoint" in s]), where=where(slow, cs.line), key="C10.at-safepoint-return|oom")

    # ---- C10.obvious-oom: callers return ZERO before acquiring pages
    obv = callers(F, OBVIOUS)
    ctx.floor("C10.oom-after-gc", len(obv), 2, "callers of handle_obvious_oom_request")
    for cs in obv:
        f = cs.fn
        acq = [c for c in live_calls(f) if c.name in ("acquire", "allocate_pages", "acquire_block", "alloc_slow_once") and c.bb != cs.bb]
        acq = [c for c in acq if c.name != "alloc_slow_once"]
        okd = all(guard_find(f, c.bb, r"handle_obvious_oom_request", False) for c in acq) and bool(acq)
        ctx.judge(okd, "C10.oom-after-gc", "%s acquires pages only when the request is not an obvious OOM" % short(f.q),
                  expected="page acquisition dominated by handle_obvious_oom_request() == false",
                  found=str([(c.name, c.line, guard_strs(f, c.bb)) for c in acq])[:300], where=where(f, cs.line), key="C10.obvious|" + f.q)
        # the true arm returns Address::ZERO
        zero_rets = [r for r, v, t in ret_consts(f) if True]
        tr = strip(f.flow.origin_local(0, f.cfg.live_rets[0], "t")) if f.cfg.live_rets else None
        has_zero = tr is not None and any(s and s[0] == "const" and (s[3] or "").endswith("Address::ZERO") for s in walk(tr))
        ctx.judge(has_zero, "C10.oom-after-gc", "%s returns Address::ZERO for an obvious OOM" % short(f.q),
                  expected="a returned value is the constant Address::ZERO", found=show(tr)[:200], where=where(f), key="C10.obvious-zero|" + f.q)
    of = F.fn(OBVIOUS)
    rets = ret_consts(of)
    for cs in [c for c in wsites if c.fn is of]:
        g = guard_find(of, cs.bb, r"will_oom_on_alloc", True)
        ctx.judge(bool(g), "C10.oom-after-gc", "immediate OOM only for requests larger than the heap",
                  expected="dominated by will_oom_on_alloc(size) == true", found=str(guard_strs(of, cs.bb)), where=where(of, cs.line),
                  key="C10.obvious|guard")

    wo = F.fn("util::heap::gc_trigger::GCTrigger::will_oom_on_alloc")
    rt = " ".join(show(strip(t)) for r, t in wo.flow.return_trees())
    names = {c.name for c in live_calls(wo)}
    cmp_ok = False
    for r, t in wo.flow.return_trees():
        t = strip(t)
        if t and t[0] == "bin" and t[1] in ("Gt", "Lt"):
            big, small = (t[2], t[3]) if t[1] == "Gt" else (t[3], t[2])   # big > small
            cmp_ok = "get_max_heap_size_in_pages" in show(strip(small)) and "get_max_heap_size_in_pages" not in show(strip(big)) and "arg2" in show(strip(big))
    ctx.judge("get_max_heap_size_in_pages" in names and "get_current_heap_size_in_pages" not in names and cmp_ok, "C10.oom-after-gc",
              "only requests larger than the *maximum* heap fail without a collection", expected="will_oom_on_alloc compares the request with policy.get_max_heap_size_in_pages()", found=rt[:200], where=where(wo),
              key="C10.obvious|max-heap")
    # the slow path retries until thrown_oom is set: an obvious OOM must mark the request as failed on every path,
    # whether or not it may call the binding (otherwise alloc_slow_inline loops forever without ever collecting)
    marks = [c.bb for c in live_calls(of, q=ALLOC_OOM)]
    marks += [c.bb for c in live_calls(of, name="store") if show(strip(of.flow.arg_tree(c, 0))).endswith(".thrown_oom") and const_arg(of.flow.arg_tree(c, 1)) is True]
    edges = branch_edges(of, r"will_oom_on_alloc", True)
    okt = bool(edges) and bool(marks) and all(of.cfg.must_pass(marks, start=s) for a, s in edges)
    ctx.judge(okt, "C10.obvious-oom-terminates", "an obvious OOM always ends the request", expected="on the will_oom_on_alloc()==true arm every path sets thrown_oom (directly or through out_of_memory)",
              found="marking blocks=%s" % marks, where=where(of), key="C10.obvious-oom-terminates|mark")
    oom_w = F.fn(ALLOC_OOM)
    st_ = [c for c in live_calls(oom_w, name="store") if show(strip(oom_w.flow.arg_tree(c, 0))).endswith(".thrown_oom") and const_arg(oom_w.flow.arg_tree(c, 1)) is True]
    ctx.judge(bool(st_) and oom_w.cfg.must_pass([c.bb for c in st_]), "C10.obvious-oom-terminates", "Allocator::out_of_memory records that the request failed", expected="thrown_oom.store(true) on every path",
              found=str(len(st_)), where=where(oom_w), key="C10.obvious-oom-terminates|wrapper")
    thr = [c for c in live_calls(slow, name="load") if show(strip(slow.flow.arg_tree(c, 0))).endswith(".thrown_oom")]
    giveup = [c for c in resets if guard_find(slow, c.bb, r"\.thrown_oom", True)]
    ctx.judge((bool(thr) and len(giveup) >= 1 and not [x for g_ in giveup for x in calls_after(slow, g_.bb) if x.name and x.name.startswith("alloc_slow_once")]) or (bool(thr) and sem["thrown_returns"]), "C10.obvious-oom-terminates",
              "the slow path gives up once the request is marked failed", expected="thrown_oom == true -> reset state and return without retrying", found="loads=%d give-up arms=%d" % (len(thr), len(giveup)),
              where=where(slow), key="C10.obvious-oom-terminates|giveup")

    # ---- C10.no-block-when-not-safepoint
    bsites = callers(F, COLL + "block_for_gc")
    ctx.floor("C10.no-block-when-not-safepoint", len(bsites), 3, "block_for_gc call sites")
    # functions from which block_for_gc is reachable and that are reachable from allocators
    alloc_roots = [q for q in F.fns if re.search(r"Allocator.*::(alloc|alloc_slow_once|alloc_slow_once_precise_stress)$", q) or q.endswith("Allocator::alloc_slow_inline")]
    reach = F.cg.reach(alloc_roots, stop=lambda q: "GCWork" in q or q.startswith("<scheduler::") or "::do_work" in q)
    user_api = {"mmtk::MMTK::handle_user_collection_request": "explicit GC request by the binding, not an allocation",
                "memory_manager::gc_poll": "explicit poll by the binding, not an allocation"}
    for cs in bsites:
        f = cs.fn
        if f.q in user_api and f.q not in reach:
            ctx.ok("C10.no-block-when-not-safepoint", "block_for_gc in %s not reachable from allocators" % short(f.q), user_api[f.q], where(f, cs.line))
            continue
        g = guard_find(f, cs.bb, r"\.at_safepoint$", True)
        ctx.judge(bool(g), "C10.no-block-when-not-safepoint", "block_for_gc in %s" % short(f.q),
                  expected="dominated by a branch on AllocationOptions.at_safepoint == true (reachable from an allocator: %s)" % (" <- ".join(short(x) for x in F.cg.path_to(reach, f.q)[-3:]) if f.q in reach else "n/a"),
                  found="guards=%s" % guard_strs(f, cs.bb), where=where(f, cs.line), key="C10.no-block-when-not-safepoint|" + f.q)

    # ---- C10.overcommit
    acq = F.fn("policy::space::Space::acquire")
    getp = live_calls(acq, name="get_new_pages_and_initialize")
    ctx.require(len(getp) == 1, "C10.overcommit: expected one get_new_pages_and_initialize call in Space::acquire")
    gp = getp[0]
    gs = guards(acq, gp.bb)
    # the dominating predicate must be (!gc_triggered || allow_overcommit): a phi/or over poll-result and allow_overcommit
    txt = " ; ".join("%s == %s" % (show(p.tree), p.val) for p in gs)
    ok_over = False
    for p in gs:
        if "allow_overcommit" not in show(p.tree) or p.val is not True:
            continue
        # `!gc_triggered || allow_overcommit` is lowered to a temp with two definitions:
        # `true` on the arm gc_triggered == false, and `alloc_options.allow_overcommit` otherwise
        alts = acq.flow.switch_alternatives(p.bb)
        t_alt = [(b, t) for b, t in alts if _is_true(t)]
        o_alt = [(b, t) for b, t in alts if show(strip(t)).endswith(".allow_overcommit")]
        if len(alts) == 2 and len(t_alt) == 1 and len(o_alt) == 1 and t_alt[0][0] is not None:
            gt = guards(acq, t_alt[0][0])
            if any("GCTrigger::poll" in show(g.tree) and g.val is False for g in gt):
                ok_over = True
        txt = "alternatives=%s" % [(b, show(strip(t))) for b, t in alts]
    if not ok_over and not any("allow_overcommit" in show(p.tree) for p in gs):
        # branch form: `if !gc_triggered || allow_overcommit` as two edges into the same block
        strs = sig_strs(acq, gp.bb)
        ok_over = any("allow_overcommit == True" in s for s in strs) and any("GCTrigger::poll" in s and s.endswith("False") for s in strs)
        txt = str(strs)
    ok_over = ok_over or _overcommit_semantics(acq, gp)
    ctx.judge(ok_over, "C10.overcommit", "Space::acquire tries to get pages iff !gc_triggered || allow_overcommit",
              expected="get_new_pages_and_initialize guarded by poll result and allow_overcommit", found=txt[:400], where=where(acq, gp.line),
              key="C10.overcommit|guard")
    # success arm does not reach not_acquiring / block_for_gc
    na = live_calls(acq, name="not_acquiring")
    ctx.judge(len(na) >= 1, "C10.overcommit", "failure arms resolve through not_acquiring", expected="at least one not_acquiring call", found=str(len(na)),
              where=where(acq), key="C10.overcommit|arms")
    some_ok = [c for c in na if not (guard_find(acq, c.bb, r"get_new_pages_and_initialize", "None") or not acq.cfg.dominates(gp.bb, c.bb))]
    ctx.judge(not some_ok, "C10.overcommit", "successful page acquisition never blocks",
              expected="not_acquiring after get_new_pages_and_initialize only on its None arm",
              found=str([(c.line, guard_strs(acq, c.bb)) for c in some_ok])[:300], where=where(acq), key="C10.overcommit|success")
    for c in na:
        failed = const_arg(acq.flow.arg_tree(c, 5))
        dom = acq.cfg.dominates(gp.bb, c.bb)
        ctx.judge(failed == dom, "C10.overcommit", "attempted_allocation_and_failed flag at line %s" % c.line,
                  expected="true exactly on the arm after a failed attempt", found="flag=%s after-attempt=%s" % (failed, dom), where=where(acq, c.line),
                  key="C10.overcommit|flag|%s" % dom)


def _is_true(t):
    t = strip(t)
    return bool(t) and t[0] == "const" and t[2] is True



def _slow_path_semantics(F, slow):
    """Path-sensitive form of the slow-path give-up rules (rules/paths.py): after the first failed attempt, with at_safepoint = false
    (resp. thrown_oom = true) neither a retry nor the OOM call nor the emergency test can be reached; with at_safepoint = true and
    thrown_oom = false they can (positive control)."""
    from .paths import PathEval
    firsts = [c for c in live_calls(slow) if c.name and c.name.startswith("alloc_slow_once")]
    out = {"unsafe_returns": False, "thrown_returns": False}
    if not firsts:
        return out
    pe = PathEval(slow, {"safe": r"\.at_safepoint$", "thrown": r"thrown_oom"})
    BAD = lambda c: c.name in ("out_of_memory", "is_emergency_collection") or (c.name or "").startswith("alloc_slow_once")
    def bad_after(assign):
        res = []
        for f0 in firsts:
            blocks = pe.after_call(f0, assign)
            res += [c for c in slow.calls if c.bb in blocks and c.bb in slow.cfg.live and BAD(c)]
        return res
    control = bad_after({"safe": True, "thrown": False})
    if any(c.name == "out_of_memory" for c in control) and any((c.name or "").startswith("alloc_slow_once") for c in control):
        out["unsafe_returns"] = not bad_after({"safe": False})
        out["thrown_returns"] = not bad_after({"safe": True, "thrown": True})
    return out


def _overcommit_semantics(acq, gp):
    """Space::acquire reaches get_new_pages_and_initialize after the GC-trigger poll exactly when !triggered || allow_overcommit."""
    from .paths import PathEval
    polls = [c for c in live_calls(acq) if c.name == "poll" and c.q and "GCTrigger" in c.q]
    if len(polls) != 1:
        return False
    pe = PathEval(acq, {"over": r"allow_overcommit$"})
    P = polls[0]
    return (gp.bb not in pe.after_call(P, {"over": False}, result=True) and gp.bb in pe.after_call(P, {"over": True}, result=True)
            and gp.bb in pe.after_call(P, {"over": False}, result=False) and gp.bb in pe.after_call(P, {"over": True}, result=False))
