"""C08 Interior-pointer and conservative lookups resolve to the right object: structural clauses (DESIGN.md 8.8)."""
import re
from .common import *
from ..engine import AnalysisError, show, strip, short, walk, last_seg

PROP = "C08"
LEVEL = "other"
QUICK = ["K1"]
THOROUGH = ["K1", "K2"]
LEVEL_NOTE = ("partial: decides the delegation discipline - the two API entries resolve the address through the checked SFT lookup and pass address and search limit through unchanged; every "
              "space answers is_mmtk_object with the valid-object bit of exactly that address (read only where the bit table is mapped, compared with the set value, and turned into the "
              "reference of that same address) and answers the interior-pointer query only with an object that passed the bounds test internal_ptr < object_start + size against the "
              "caller's pointer, searching no further than the caller's limit; the empty space answers None. The correctness of the backwards bit search itself "
              "(find_prev_non_zero_value, C22) and of the VO-bit table contents (C07) is not decided here.")
ASSUMPTIONS = ["find_prev_non_zero_value returns the nearest non-zero VO bit at or below the start within the limit (C22, value-level, not decided)",
               "the VO bit table is exactly the set of valid objects (C07)",
               "facts are extracted with debug assertions off: debug_assert! bodies are not part of the analysed code"]
EXPLANATION = (
    "Necessary structural conditions of C08 in the vo_bit configurations. ENTRY: memory_manager::is_mmtk_object / find_object_from_internal_pointer return the result of "
    "SFT_MAP.get_checked(addr).<method>(addr[, limit]) unchanged. SIBLINGS: every implementation of SFT::is_mmtk_object returns either None or the value of "
    "vo_bit::is_vo_bit_set_for_addr(addr) for the queried address (MallocSpace additionally requires its own metadata to be mapped), and every space but the empty one has such a row; "
    "every implementation of SFT::find_object_from_internal_pointer returns None or vo_bit::find_object_from_internal_pointer(ptr, L) with L the caller's limit or min(const, limit), or "
    "(LargeObjectSpace) an is_internal_ptr_from_vo_bit(candidate, ptr) result for a candidate whose VO bit was tested, in a loop bounded below by ptr - limit. VO-CHECK: "
    "is_vo_bit_set_inner yields Some only where VO_BIT.is_mapped(addr) held, only if the loaded bit of addr equals 1, and the reference is built from addr itself. INTERNAL: the generic "
    "search starts at the pointer with the caller's limit, is attempted only for a mapped pointer, and its hit is returned only through is_internal_ptr_from_vo_bit(hit, ptr), which "
    "returns Some(obj) exactly when ptr < obj.to_object_start() + current_size(obj). NO-PANIC: none of these bodies contains a live diverging block (LargeObjectSpace's "
    "unreachable! after a non-zero word is the one frozen exception). SCAN-MAPPED: in the backwards byte/word scan behind find_prev_non_zero_value every path from the "
    "cursor step to a load passes the mapped-grain test (cur < mapped_grain => cur.is_mapped(), else UnmappedMetadata), so a foreign address below the first object never faults."
)
TECHNIQUE = ("static analysis: return-value tables (origin tree of every returned value with the control-dependence guards of its return site) over rustc MIR with resolved callees; sibling "
             "agreement over all impls of policy::sft::SFT taken from rustc's impl table; diverging-block census on the abort-free CFG")

SFT = "policy::sft::SFT"
VO = "util::metadata::vo_bit::"
NONE = "option::Option::None{}"


def _rows(f):
    """Return table as strings, with the `?` desugaring folded (simp / norm_guard) and `c.then_some(v)` expanded into its two rows."""
    out = []
    for b, t, g in ret_table(f):
        t = simp(t)
        gs = []
        for p in g:
            gt, gv = norm_guard(p)
            gs.append((show(gt), gv))
        if t and t[0] == "call" and isinstance(t[2] or t[1], str) and last_seg(t[2] or t[1]) == "then_some" and len(t[3]) == 2:
            c, v = show(simp(t[3][0])), show(simp(t[3][1]))
            out.append(("option::Option::Some{%s}" % v, gs + [(c, True)]))
            out.append((NONE, gs + [(c, False)]))
        else:
            out.append((show(t), gs))
    return out


def _selected_by_is_vo_addr(F, f):
    """The candidate handed to is_internal_ptr_from_vo_bit is the result of `iter.find(|a| is_vo_addr(*a))` (the for-loop with an
    early return written as an iterator adaptor): every such call's first argument contains a `find` whose predicate closure
    returns is_vo_addr of its own argument."""
    cs = [c for c in live_calls(f) if c.name == "is_internal_ptr_from_vo_bit"]
    if not cs:
        return False
    for c in cs:
        cand = simp(f.flow.arg_tree(c, 0))
        okc = False
        for s in walk(cand):
            if s and s[0] == "call" and isinstance(s[2] or s[1], str) and last_seg(s[2] or s[1]) == "find" and len(s[3]) == 2:
                cl = [x for x in walk(s[3][1]) if x and x[0] == "agg" and x[1][0] == "closure" and x[1][1] in F.fns]
                if len(cl) == 1:
                    rts = [show(simp(t2)) for _, t2 in F.fns[cl[0][1][1]].flow.return_trees()]
                    okc = bool(rts) and all(re.match(r"^vo_bit::is_vo_addr\(\**arg2\)$", r) for r in rts)
        if not okc:
            return False
    return True


def _diverging(f):
    """live blocks from which control can leave through a panic: a diverging call, or an edge into a block that the abort-free CFG dropped
    (edges into a bare `unreachable` terminator are compiler-proved impossible and do not count)"""
    dead = set()
    for a in f.cfg.live:
        t = f.blocks[a]["t"]
        if t["k"] == "call" and t.get("div"):
            dead.add(a)
        for (s, lab) in f.cfg.raw[a]:
            if s not in f.cfg.live and t["k"] != "call" and f.blocks[s]["t"].get("k") != "unreachable":
                dead.add(a)
    return sorted(dead | {a for a in f.cfg.assertlike if a in f.cfg.live})


def _has(F, feat):
    return feat in (F.features or [])


def run(ctx, F):
    if not _has(F, "vo_bit"):
        raise AnalysisError("C08: configuration %s was built without the vo_bit feature; the anchored functions are not compiled" % F.config)
    # ---- C08.entry
    pairs = [("memory_manager::is_mmtk_object", "is_mmtk_object::check_object_reference(arg1)"),
             ("memory_manager::find_object_from_internal_pointer", "is_mmtk_object::check_internal_reference(arg1, arg2)"),
             ("util::is_mmtk_object::check_object_reference", None), ("util::is_mmtk_object::check_internal_reference", None)]
    for q, want in pairs:
        f = F.fn(q)
        rows = _rows(f)
        if want is None:
            m = "is_mmtk_object" if q.endswith("check_object_reference") else "find_object_from_internal_pointer"
            rx = r"^SFT::%s\(SFTMap::get_checked\([^()]*SFTMap[^()]*, arg1\), arg1%s\)$" % (m, "" if m == "is_mmtk_object" else ", arg2")
            ok = len(rows) == 1 and re.match(rx, rows[0][0]) is not None and not rows[0][1]
            exp = "SFT_MAP.get_checked(addr).%s(addr%s), returned unchanged" % (m, "" if m == "is_mmtk_object" else ", max_search_bytes")
        else:
            ok = rows == [(want, [])]
            exp = want + " returned unchanged"
        ctx.judge(ok, "C08.entry", "%s forwards the address (and limit) to the checked SFT lookup" % short(q), expected=exp, found=str(rows)[:300], where=where(f), key="C08.entry|%s" % q)
        dv = _diverging(f)
        ctx.judge(not dv, "C08.no-panic", "%s has no diverging block" % short(q), expected="no panic / assertion in the compiled body", found=str(dv), where=where(f), key="C08.no-panic|%s" % q)

    # ---- C08.sibling
    impls = sorted(im["self"] for im in F.impls_of(SFT))
    n1 = n2 = 0
    for ty in impls:
        empty = ty.endswith("EmptySpaceSFT")
        f = F.fns.get("<%s as %s>::is_mmtk_object" % (ty, SFT))
        if f is not None:
            n1 += 1
            rows = _rows(f)
            some = [r for r in rows if r[0] != NONE]
            if empty:
                ok, exp = not some and bool(rows), "None (an address outside every space is no object)"
            else:
                ok = bool(some)
                for v, g in some:
                    if v == "vo_bit::is_vo_bit_set_for_addr(arg2)":
                        continue
                    m = re.match(r"^(\w+::\w+)\(arg1, arg2\)$", v)
                    h = None
                    if m:
                        cs = [c for c in live_calls(f) if c.q and short(c.q) == m.group(1)]
                        h = F.fns.get(cs[0].q) if cs else None
                    if h is None:
                        ok = False
                        continue
                    hr = _rows(h)
                    hs = [r for r in hr if r[0] != NONE]
                    ok = ok and bool(hs) and all(x[0] == "vo_bit::is_vo_bit_set_for_addr(arg2)" for x in hs)
                exp = "every non-None result is vo_bit::is_vo_bit_set_for_addr(addr) for the queried address (directly or through one helper taking (self, addr))"
            ctx.judge(ok, "C08.sibling", "%s::is_mmtk_object answers with the VO bit of the queried address" % last_seg(ty), expected=exp, found=str(rows)[:300], where=where(f), key="C08.sibling|is|%s" % ty)
            ctx.judge(not _diverging(f), "C08.no-panic", "%s::is_mmtk_object has no diverging block" % last_seg(ty), expected="no panic / assertion in the compiled body", found=str(_diverging(f)), where=where(f),
                      key="C08.no-panic|is|%s" % ty)
        f = F.fns.get("<%s as %s>::find_object_from_internal_pointer" % (ty, SFT))
        if f is not None:
            n2 += 1
            rows = _rows(f)
            some = [r for r in rows if r[0] != NONE]
            los = ty.endswith("LargeObjectSpace")
            if empty:
                ok, exp = not some and bool(rows), "None"
            elif los:
                exp = ("every non-None result is is_internal_ptr_from_vo_bit(candidate, ptr) with is_vo_addr(candidate) tested true on the path, inside a loop that continues only while "
                       "cur_page >= align_down(ptr.saturating_sub(max_search_bytes), PAGE)")
                ok = bool(some)
                for v, g in some:
                    m = re.match(r"^vo_bit::is_internal_ptr_from_vo_bit\((.*), arg2\)$", v)
                    tested = m is not None and any(s == "vo_bit::is_vo_addr(%s)" % m.group(1) and val is True for s, val in g)
                    if m is not None and not tested:
                        tested = _selected_by_is_vo_addr(F, f)
                    ok = ok and tested
                    ok = ok and any("saturating_sub(arg2, arg3)" in s and s.startswith("PartialOrd::ge(") and val is True for s, val in g)
                    ok = ok and any(s.startswith("(vo_bit::get_raw_vo_bit_word(") and " Ne 0)" in s and val is True for s, val in g)
            else:
                exp = "every non-None result is vo_bit::find_object_from_internal_pointer(ptr, L), L = max_search_bytes or min(<const>, max_search_bytes)"
                ok = bool(some) and all(re.match(r"^vo_bit::find_object_from_internal_pointer\(arg2, (arg3|Ord::min\([\w:]+=\d+, arg3\)|Ord::min\(arg3, [\w:]+=\d+\))\)$", v) for v, g in some)
            ctx.judge(ok, "C08.sibling", "%s::find_object_from_internal_pointer searches from the pointer within the caller's limit" % last_seg(ty), expected=exp, found=str(rows)[:400], where=where(f),
                      key="C08.sibling|find|%s" % ty)
            if not los:
                ctx.judge(not _diverging(f), "C08.no-panic", "%s::find_object_from_internal_pointer has no diverging block" % last_seg(ty), expected="no panic / assertion in the compiled body",
                          found=str(_diverging(f)), where=where(f), key="C08.no-panic|find|%s" % ty)
            else:
                dv = [d for d in _diverging(f)]
                ctx.judge(len(dv) <= 1, "C08.no-panic", "LargeObjectSpace::find_object_from_internal_pointer diverges only after a non-zero VO word without a set bit", expected="at most the one unreachable!()",
                          found=str(dv), where=where(f), key="C08.no-panic|find|%s" % ty)
    ctx.floor("C08.sibling", n1, 10, "SFT::is_mmtk_object implementations")
    ctx.floor("C08.sibling", n2, 10, "SFT::find_object_from_internal_pointer implementations")

    # ---- C08.vo-check
    f = F.fn(VO + "is_vo_bit_set_for_addr")
    ctx.judge(_rows(f) == [("vo_bit::is_vo_bit_set_inner(arg1)", [])], "C08.vo-check", "is_vo_bit_set_for_addr checks the given address", expected="is_vo_bit_set_inner::<true>(address)", found=str(_rows(f))[:200],
              where=where(f), key="C08.vo-check|for-addr")
    cands = [q for q in F.fns if q.startswith(VO + "is_vo_bit_set_inner") and F.fns[q].kind != "closure"]
    ctx.floor("C08.vo-check", len(cands), 1, "is_vo_bit_set_inner bodies")
    MAPPED = "SideMetadataSpec::is_mapped(vo_bit::VO_BIT_SIDE_METADATA_SPEC, arg1)"
    LOAD = r"(?:phi\()?SideMetadataSpec::load(?:_atomic)?\(vo_bit::VO_BIT_SIDE_METADATA_SPEC, arg1(?:, [^()]*)?\)(?: \| SideMetadataSpec::load(?:_atomic)?\(vo_bit::VO_BIT_SIDE_METADATA_SPEC, arg1(?:, [^()]*)?\)\))?"
    for q in cands:
        f = F.fns[q]
        rows = _rows(f)
        some = [r for r in rows if r[0] != NONE]
        ok = bool(some) and any(r[0] == NONE and (MAPPED, False) in r[1] for r in rows)
        for v, g in some:
            okm = (MAPPED, True) in g
            m = re.match(r"^bool::then\(\((%s) Eq 1\), ([\w:]+::\{closure#\d+\})\{arg1\}\)$" % LOAD, v)
            if m:
                cq = [k for k in F.fns if k.startswith(q.split("::<")[0]) and F.fns[k].kind == "closure" and short(k).endswith(m.group(2).split("::")[-1])]
                cr = _rows(F.fns[cq[0]]) if cq else []
                okv = bool(cr) and all(re.match(r"^vo_bit::get_object_ref_for_vo_addr\(upvar\(\w+\)\)$", x[0]) for x in cr)
            else:
                okv = v == "option::Option::Some{vo_bit::get_object_ref_for_vo_addr(arg1)}" and any(re.match(r"^\(%s Eq 1\)$" % LOAD, s) and val is True for s, val in g)
            ok = ok and okm and okv
        ctx.judge(ok, "C08.vo-check", "is_vo_bit_set_inner returns Some(reference of addr) exactly where the table is mapped and the bit of addr is 1", expected="None if !VO_BIT.is_mapped(addr); (load(addr) == 1).then(|| get_object_ref_for_vo_addr(addr))",
                  found=str(rows)[:400], where=where(f), key="C08.vo-check|inner")
        ld = [c for c in live_calls(f) if c.name in ("load", "load_atomic")]
        okd = bool(ld) and all(sig_find(f, c.bb, r"^SideMetadataSpec::is_mapped\(vo_bit::VO_BIT_SIDE_METADATA_SPEC, arg1\)$", True) for c in ld)
        ctx.judge(okd, "C08.vo-check", "the VO bit is loaded only where the VO table is mapped", expected="every load of the bit control dependent on is_mapped(addr) == true (no fault on foreign addresses)",
                  found=str([sig_strs(f, c.bb) for c in ld])[:300], where=where(f), key="C08.vo-check|mapped-before-load")
        ctx.judge(not _diverging(f), "C08.no-panic", "is_vo_bit_set_inner has no diverging block", expected="no panic / assertion in the compiled body", found=str(_diverging(f)), where=where(f), key="C08.no-panic|inner")
    f = F.fn(VO + "get_object_ref_for_vo_addr")
    ctx.judge(_rows(f) == [("ObjectReference::from_raw_address_unchecked(arg1)", [])], "C08.vo-check", "the reference of a VO address is that address", expected="ObjectReference::from_raw_address_unchecked(vo_addr)",
              found=str(_rows(f))[:200], where=where(f), key="C08.vo-check|ref")

    # ---- C08.internal
    cands = [q for q in F.fns if re.match(r"^%sfind_object_from_internal_pointer(::<.*>)?$" % re.escape(VO), q)]
    ctx.floor("C08.internal", len(cands), 1, "vo_bit::find_object_from_internal_pointer bodies")
    for q in cands:
        f = F.fns[q]
        rows = _rows(f)
        some = [r for r in rows if r[0] != NONE]
        want = "vo_bit::is_internal_ptr_from_vo_bit(SideMetadataSpec::find_prev_non_zero_value(vo_bit::VO_BIT_SIDE_METADATA_SPEC, arg1, arg2) as Some.0, arg1)"
        ok = bool(some) and all(v == want and ("Address::is_mapped(arg1)", True) in g for v, g in some) and any(r[0] == NONE and ("Address::is_mapped(arg1)", False) in r[1] for r in rows)
        ctx.judge(ok, "C08.internal", "the generic interior-pointer search starts at the pointer with the caller's limit and validates the hit against the pointer",
                  expected="None if !start.is_mapped(); is_internal_ptr_from_vo_bit(find_prev_non_zero_value(start, limit)?, start)", found=str(rows)[:400], where=where(f), key="C08.internal|search")
        ctx.judge(not _diverging(f), "C08.no-panic", "vo_bit::find_object_from_internal_pointer has no diverging block", expected="no panic / assertion in the compiled body", found=str(_diverging(f)), where=where(f),
                  key="C08.no-panic|search")
    # ---- C08.scan-mapped: the backwards byte/word scan behind find_prev_non_zero_value never reads a metadata address it has not
    # tested (or inherited from the same mapping grain) as mapped: on every path from the cursor step to a load the
    # `cur < mapped_grain` test is passed, and no load sits on the is_mapped()==false side.
    sf = F.fn("util::metadata::side_metadata::helpers::find_last_non_zero_bit_in_metadata_bytes")
    steps = [c for c in live_calls(sf) if c.name in ("sub_assign", "sub") and "Address" in (c.res or c.q or "")]
    chks = [c for c in live_calls(sf) if c.name == "lt" and "Address::MAX" in show(simp(sf.flow.arg_tree(c, 1)))]
    loads = [c for c in live_calls(sf) if c.name == "load"]
    im = [c for c in live_calls(sf) if c.name == "is_mapped"]
    oks = len(steps) >= 1 and len(chks) == 1 and len(loads) >= 1 and len(im) == 1
    why = "cursor steps=%d grain tests=%d loads=%d is_mapped=%d" % (len(steps), len(chks), len(loads), len(im))
    if oks:
        for s_ in steps:
            nxt = sf.blocks[s_.bb]["t"].get("t")
            if nxt == chks[0].bb:
                continue
            reach =sf.cfg.reachable_from(nxt, avoid={chks[0].bb}) | {nxt}
            bad = [l.line for l in loads if l.bb in reach and l.bb != chks[0].bb]
            if bad:
                oks, why = False, "load at line %s reachable from the cursor step at line %s without passing the mapped-grain test" % (bad, s_.line)
        gim = guard_strs(sf, im[0].bb)
        if oks and not (any(x.startswith("PartialOrd::lt(") and x.endswith("== True") for x in gim) and all(x.startswith("PartialOrd::lt(") or x.startswith("PartialOrd::gt(") for x in gim)):
            oks, why = False, "is_mapped is not evaluated exactly when cur < mapped_grain (inside the loop): dominating guards %s" % gim
        if oks and any(guard_find(sf, l.bb, r"is_mapped", False) for l in loads):
            oks, why = False, "a load is reachable on the is_mapped()==false side"
    ctx.judge(oks, "C08.scan-mapped", "the backwards metadata scan loads only addresses known to be mapped", expected="step the cursor, then test cur < mapped_grain => cur.is_mapped() (else UnmappedMetadata), then load",
              found=why, where=where(sf), key="C08.scan-mapped|prev")

    cands = [q for q in F.fns if re.match(r"^%sis_internal_ptr_from_vo_bit(::<.*>)?$" % re.escape(VO), q)]
    ctx.floor("C08.internal", len(cands), 1, "is_internal_ptr_from_vo_bit bodies")
    TEST = "vo_bit::is_internal_ptr(vo_bit::get_object_ref_for_vo_addr(arg1), arg2)"
    for q in cands[:1]:
        f = F.fns[q]
        rows = _rows(f)
        ok = sorted(rows) == sorted([(NONE, [(TEST, False)]), ("option::Option::Some{vo_bit::get_object_ref_for_vo_addr(arg1)}", [(TEST, True)])])
        ctx.judge(ok, "C08.internal", "is_internal_ptr_from_vo_bit returns the object exactly when the pointer is inside it", expected="Some(obj) iff is_internal_ptr(obj, internal_ptr), obj = get_object_ref_for_vo_addr(vo_addr)",
                  found=str(rows)[:400], where=where(f), key="C08.internal|from-vo-bit")
    cands = [q for q in F.fns if re.match(r"^%sis_internal_ptr(::<.*>)?$" % re.escape(VO), q)]
    ctx.floor("C08.internal", len(cands), 1, "is_internal_ptr bodies")
    END = r"<Address as Add<usize>>::add\(ObjectReference::to_object_start\(arg1\), ObjectModel::get_current_size\(arg1\)\)"
    for q in cands[:1]:
        f = F.fns[q]
        rows = _rows(f)
        ok = len(rows) == 1 and not rows[0][1] and (re.match(r"^PartialOrd::lt\(arg2, %s\)$" % END, rows[0][0]) or re.match(r"^PartialOrd::gt\(%s, arg2\)$" % END, rows[0][0])) is not None
        ctx.judge(ok, "C08.internal", "is_internal_ptr tests internal_ptr < object_start + current_size", expected="internal_ptr < obj.to_object_start() + get_current_size(obj)", found=str(rows)[:300], where=where(f),
                  key="C08.internal|bounds")
