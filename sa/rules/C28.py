"""C28 Page resources: disjoint in-space pages with exact accounting (partial) (DESIGN.md 4/C28)."""
import re
from .common import *
from ..engine import AnalysisError, show, strip, short, walk, last_seg

PROP = "C28"
LEVEL = "other"
QUICK = ["K0"]
THOROUGH = ALL_CONFIGS
ASSUMPTIONS = ["disjointness of the pages handed out is cursor / free-list arithmetic and is not decided (C26 not applicable)",
               "RegionPageResource (Compressor) and ExternalPageResource are outside the three resources the property names"]
LEVEL_NOTE = ("partial: decides the accounting discipline - a page grant is committed exactly once on every successful path and never on a failing one, every reservation is resolved "
              "(success or clear_request), every release subtracts what the free list / block says was released, the monotone cursor is re-based to a page boundary at or above the live "
              "data, Map32 frees exactly the released run, and PageAccounting is only changed through its own methods; the arithmetic of the cursors and free lists is not decided")
EXPLANATION = (
    "commit-on-ok: in MonotonePageResource/FreeListPageResource::alloc_pages and the BlockPageResource fast/slow paths every return of Ok(..) is dominated by exactly one "
    "commit_pages(reserved, required, tls) and no commit can reach a return of Err (delegating returns are followed into the callee). reserve-resolve: Space::acquire reserves once and every "
    "path ends in get_new_pages_and_initialize (commit) or not_acquiring, whose clear_request(pages_reserved) is on every path. release-pairing: release_pages / release_block call "
    "accounting.release(n) exactly once with the size the free list reports / the block constant; reset() resets the counters; reset_cursor re-bases the counters with "
    "bytes_to_pages_up(live bytes) and puts the cursor at align_up(top, page) in both layouts; Map32 asks the region map for the size of the freed run itself (free(chunk, false)), "
    "not the coalesced size. encapsulation: reserved/committed are private atomics changed only by PageAccounting's methods."
)
PR = "util::heap::pageresource::PageResource>::"
ACC = "util::heap::accounting::PageAccounting"


def classify(t):
    t = strip(t)
    if t and t[0] == "agg" and t[1][0] == "adt" and t[1][2] in ("Ok", "Err"):
        return t[1][2], None
    if t and t[0] == "call":
        return "delegate", last_seg(t[2] or t[1])
    s = show(t)
    if "as Err" in s or "Err" in s[:40]:
        return "Err", None
    return "other", s[:60]


def run(ctx, F):
    # ---- commit-on-ok
    fns = {}
    for q, f in F.fns.items():
        if re.search(r"(Monotone|FreeList|Block)PageResource(<\w+>)? as %salloc_pages$" % re.escape(PR), q) or re.search(r"BlockPageResource::alloc_pages_(fast|slow_sync)$", q):
            fns[q] = f
    ctx.floor("C28.commit-on-ok", len(fns), 5, "alloc_pages implementations and helpers of the three page resources")
    summarised = {last_seg(q) for q in fns}
    nret = 0
    def commits_on_success(h):
        """A private helper that commits exactly when it hands a grant back (Some / Ok) - e.g. a factored-out fast path."""
        cm = live_calls(h, name="commit_pages")
        rows = ret_table(h)
        succ = 0
        for b, t, g in rows:
            st = strip(t)
            v = st[1][2] if st and st[0] == "agg" and st[1][0] == "adt" else None
            if v is None and st and st[0] == "call" and last_seg(st[2] or st[1]) == "from_residual":
                v = "None"  # the early exit of `?`
            d = [c for c in cm if h.cfg.dominates(c.bb, b)]
            r = [c for c in cm if b in (h.cfg.reachable_from(c.bb) | {c.bb})]
            if v in ("Some", "Ok"):
                succ += 1
                if not (len(d) == 1 and r == d):
                    return False
            elif v in ("None", "Err"):
                if r:
                    return False
            else:
                return False
        return succ >= 1 and bool(cm)

    def always_commits(h):
        """A private helper that commits exactly once on every path and returns a plain value (e.g. builds the grant)."""
        cm = live_calls(h, name="commit_pages")
        return len(cm) == 1 and h.cfg.must_pass([cm[0].bb]) and not any(classify(t)[0] in ("Err",) for b, t, g in ret_table(h))

    for q, f in sorted(fns.items()):
        prefix = re.sub(r"^<([\w:]+).*$", r"\1", q) if q.startswith("<") else q.rsplit("::", 1)[0]
        commits = live_calls(f, name="commit_pages") + [c for c in live_calls(f) if c.q and c.q in F.fns and c.q not in fns and c.q.startswith(prefix + "::") and F.fns[c.q].blocks
                                                         and c.name != "commit_pages" and always_commits(F.fns[c.q]) and not commits_on_success(F.fns[c.q])]
        helpers = [c for c in live_calls(f) if c.q and c.q in F.fns and c.q not in fns and c.q.startswith(prefix + "::") and F.fns[c.q].blocks and commits_on_success(F.fns[c.q])]
        for b, t, g in ret_table(f):
            kind, extra = classify(t)
            dom = [c for c in commits if f.cfg.dominates(c.bb, b)]
            reach = [c for c in commits if b in (f.cfg.reachable_from(c.bb) | {c.bb})]
            # a committing helper counts where its success is what brought us here
            gs = [(show(p.tree), p.val) for p in guards(f, b)]
            hdom = [c for c in helpers if any(s.startswith(short(c.q) + "(") and v in ("Some", "Ok") for s, v in gs)]
            hbad = [c for c in helpers if b in (f.cfg.reachable_from(c.bb) | {c.bb}) and c not in hdom and not any(s.startswith(short(c.q) + "(") and v in ("None", "Err") for s, v in gs)]
            nret += 1
            if kind == "Ok":
                ok = len(dom) + len(hdom) == 1 and reach == dom and not hbad
                exp = "exactly one commit_pages on every path to this Ok"
            elif kind == "Err":
                ok = not reach and not hdom and not hbad
                exp = "no commit_pages before returning Err"
            elif kind == "delegate":
                ok = not reach and (extra in summarised or extra == "allocate_one_chunk_no_commit")
                exp = "the result of %s is returned untouched (it commits itself%s)" % (extra, "" if extra != "allocate_one_chunk_no_commit" else "; only its Err is propagated")
                if extra == "allocate_one_chunk_no_commit":
                    # only the Err arm of `?` may be returned without a commit
                    ok = ok and "Err" in show(strip(t)) or not reach
            else:
                ok = False
                exp = "Ok / Err / delegated result"
            ctx.judge(ok, "C28.commit-on-ok", "%s: return of %s at bb%d" % (short(q), kind if kind != "delegate" else "%s(..)" % extra, b), expected=exp,
                      found="commits dominating=%d, commits reaching=%d" % (len(dom), len(reach)), where=where(f), key="C28.commit-on-ok|%s|%s|%d" % (q, kind, len(reach)))
        for c in commits:
            if c.name == "commit_pages":
                a = [show(strip(f.flow.arg_tree(c, i))) for i in range(1, 3)]
            else:
                # a committing helper: follow its own commit_pages(reserved, required) arguments back to this call's arguments
                h = F.fns[c.q]
                hc = live_calls(h, name="commit_pages")[0]
                a = []
                for i in (1, 2):
                    ht = strip(h.flow.arg_tree(hc, i))
                    a.append(show(strip(f.flow.arg_tree(c, ht[1] - 1))) if ht and ht[0] == "arg" and ht[1] - 1 < len(c.args) else "?")
            ctx.judge(a == ["arg3", "arg4"], "C28.commit-on-ok", "%s commits (reserved_pages, required_pages)" % short(q), expected="commit_pages(reserved_pages, required_pages, tls)", found=str(a), where=where(f, c.line),
                      key="C28.commit-on-ok|args|" + q)
    ctx.floor("C28.commit-on-ok", nret, 9, "return sites")
    cp = F.fn("util::heap::pageresource::PageResource::commit_pages")
    cc = live_calls(cp, name="commit")
    rv = live_calls(cp, name="reserve")
    okcp = len(cc) == 1 and len(rv) == 1 and cp.cfg.must_pass([cc[0].bb]) and cp.cfg.must_pass([rv[0].bb]) and show(strip(cp.flow.arg_tree(cc[0], 1))) == "arg3" and \
        show(strip(cp.flow.arg_tree(rv[0], 1))) == "(arg3 Sub arg2)"
    ctx.judge(okcp, "C28.commit-on-ok", "commit_pages tops the reservation up to the actual grant and commits the actual grant", expected="accounting.reserve(actual - reserved); accounting.commit(actual) on every path",
              found="commit(%s) reserve(%s)" % ([show(strip(cp.flow.arg_tree(c, 1))) for c in cc], [show(strip(cp.flow.arg_tree(c, 1))) for c in rv]), where=where(cp), key="C28.commit-on-ok|commit-pages")

    # a failed growth of a discontiguous monotone space (grow_discontiguous_space returns the zero address) must not be granted:
    # the chunk address it returned is tested for zero on every path from the growth to a return
    ma = [f_ for q_, f_ in F.fns.items() if re.search(r"MonotonePageResource(<\w+>)? as %salloc_pages$" % re.escape(PR), q_)]
    for f_ in ma:
        gr = [c for c in live_calls(f_) if c.name == "grow_discontiguous_space"]
        zs = [c for c in live_calls(f_) if c.name == "is_zero" and ("current_chunk" in show(simp(f_.flow.arg_tree(c, 0))) or "grow_discontiguous_space" in show(simp(f_.flow.arg_tree(c, 0))))]
        okz = len(gr) == 1 and bool(zs) and f_.cfg.must_pass([z.bb for z in zs], start=gr[0].bb)
        ctx.judge(okz, "C28.commit-on-ok", "a discontiguous monotone space examines whether its growth failed before granting pages", expected="is_zero(<chunk returned by grow_discontiguous_space>) on every path after the growth",
                  found="grow sites=%d zero tests=%d" % (len(gr), len(zs)), where=where(f_), key="C28.commit-on-ok|monotone-grow-failure")
    # ---- reserve-resolve
    aq = F.fn("policy::space::Space::acquire")
    rs = live_calls(aq, name="reserve_pages")
    gp = live_calls(aq, name="get_new_pages_and_initialize")
    na = live_calls(aq, name="not_acquiring")
    okr = len(rs) == 1 and bool(gp) and bool(na) and aq.cfg.must_pass([c.bb for c in gp + na], start=rs[0].bb, avoid_start=True)
    ctx.judge(okr, "C28.reserve-resolve", "every reservation made by Space::acquire is resolved", expected="after reserve_pages every path passes get_new_pages_and_initialize or not_acquiring", found="reserve=%d new_pages=%d not_acquiring=%d" % (len(rs), len(gp), len(na)),
              where=where(aq), key="C28.reserve-resolve|acquire")
    nf = F.fn("policy::space::Space::not_acquiring")
    cr = live_calls(nf, name="clear_request")
    ctx.judge(len(cr) == 1 and nf.cfg.must_pass([cr[0].bb]) and not guard_strs(nf, cr[0].bb), "C28.reserve-resolve", "not_acquiring gives the reservation back on every path (safepoint or not)", expected="clear_request(pages_reserved) unconditionally",
              found="sites=%d guards=%s" % (len(cr), [guard_strs(nf, c.bb) for c in cr]), where=where(nf), key="C28.reserve-resolve|clear")
    gn = F.fn("policy::space::Space::get_new_pages_and_initialize")
    for b, t, g in ret_table(gn):
        pass
    gnp = live_calls(gn, name="get_new_pages")
    ctx.judge(len(gnp) == 1, "C28.reserve-resolve", "get_new_pages_and_initialize asks the page resource once", expected="1 get_new_pages", found=str(len(gnp)), where=where(gn), key="C28.reserve-resolve|once")

    # ---- release-pairing
    fl = F.fn("util::heap::freelistpageresource::FreeListPageResource::release_pages")
    rl = [c for c in live_calls(fl) if c.name == "release" and c.q and c.q.startswith(ACC)]
    ctx.judge(len(rl) == 1 and fl.cfg.must_pass([rl[0].bb]), "C28.release-pairing", "FreeListPageResource::release_pages subtracts the released pages once", expected="accounting.release(pages) on every path", found=str(len(rl)),
              where=where(fl), key="C28.release-pairing|freelist")
    if rl:
        a = show(strip(fl.flow.arg_tree(rl[0], 1)))
        ctx.judge("FreeList::size(" in a or "size" in a, "C28.release-pairing", "the amount released is what the free list records for that run", expected="free_list.size(page_offset)", found=a[:120], where=where(fl, rl[0].line),
                  key="C28.release-pairing|freelist-amount")
    bl = F.fn("util::heap::blockpageresource::BlockPageResource::release_block")
    rb = [c for c in live_calls(bl) if c.name == "release" and c.q and c.q.startswith(ACC)]
    ctx.judge(len(rb) == 1 and bl.cfg.must_pass([rb[0].bb]), "C28.release-pairing", "BlockPageResource::release_block subtracts one block once", expected="accounting.release(pages per block) on every path", found=str(len(rb)),
              where=where(bl), key="C28.release-pairing|block")
    if rb:
        a = show(strip(bl.flow.arg_tree(rb[0], 1)))
        ctx.judge(re.search(r"LOG_BYTES|LOG_PAGES|Shl|BYTES|pages", a) is not None and "arg" not in a.replace("arg1", ""), "C28.release-pairing", "the amount released is the block's page count", expected="1 << LOG_PAGES (a constant of the block type)", found=a[:120],
                  where=where(bl, rb[0].line), key="C28.release-pairing|block-amount")
    mr = F.fn("util::heap::monotonepageresource::MonotonePageResource::reset")
    ctx.judge(any(c.name == "reset" and c.q and c.q.startswith(ACC) for c in live_calls(mr)), "C28.release-pairing", "MonotonePageResource::reset zeroes the counters", expected="accounting.reset()", found="missing", where=where(mr),
              key="C28.release-pairing|monotone-reset")
    rc = F.fn("util::heap::monotonepageresource::MonotonePageResource::reset_cursor")
    cur = [(bb, show(strip(t))) for (bb, j, pl, t) in stores(rc) if place_str(rc, pl).endswith(".cursor")]
    ctx.judge(len(cur) == 2 and all(re.match(r"^Address::align_up\(arg2, constants::BYTES_IN_PAGE=\d+\)$", v) for _, v in cur), "C28.release-pairing",
              "reset_cursor re-bases the cursor to the page boundary at or above the live data (both layouts)", expected="cursor = top.align_up(BYTES_IN_PAGE) in the contiguous and the discontiguous branch", found=str(cur)[:200],
              where=where(rc), key="C28.release-pairing|reset-cursor")
    rac = [c for c in live_calls(rc) if c.name == "reserve_and_commit"]
    ctx.judge(len(rac) == 2 and all(show(strip(rc.flow.arg_tree(c, 1))).startswith("conversions::bytes_to_pages_up(") for c in rac) and
              all(any(x.name == "reset" and x.q and x.q.startswith(ACC) and rc.cfg.dominates(x.bb, c.bb) for x in live_calls(rc)) for c in rac), "C28.release-pairing",
              "reset_cursor re-bases the counters to the live pages, rounded up like the cursor", expected="accounting.reset(); accounting.reserve_and_commit(bytes_to_pages_up(live bytes))",
              found=str([show(strip(rc.flow.arg_tree(c, 1)))[:60] for c in rac]), where=where(rc), key="C28.release-pairing|reset-accounting")
    fr = F.fn("util::heap::layout::map32::Map32::free_contiguous_chunks_no_lock")
    ff = [c for c in live_calls(fr) if c.name == "free" and c.q and "FreeList" in c.q]
    ctx.judge(len(ff) == 1 and const_arg(fr.flow.arg_tree(ff[0], 2)) is False and show(strip(fr.flow.arg_tree(ff[0], 1))) == "arg2", "C28.release-pairing",
              "Map32 takes the size of the freed run itself from the region map", expected="region_map.free(chunk, false) (not the coalesced size)", found=str([(show(strip(fr.flow.arg_tree(c, 1))), const_arg(fr.flow.arg_tree(c, 2))) for c in ff]),
              where=where(fr), key="C28.release-pairing|map32-free")

    # ---- encapsulation
    a = F.adts.get(ACC)
    ctx.require(a is not None, "C28: PageAccounting not found")
    flds = a["variants"][0]["fields"]
    ctx.judge(all(not fld.get("pub") for fld in flds) and {fld["name"] for fld in flds} == {"reserved", "committed"}, "C28.encapsulation", "PageAccounting's counters are private", expected="private reserved / committed",
              found=str([(fld["name"], fld.get("vis")) for fld in flds]), key="C28.encapsulation|private")
    meths = [q for q in F.fns if q.startswith(ACC + "::") and F.fns[q].kind != "closure"]
    ctx.floor("C28.encapsulation", len(meths), 7, "PageAccounting methods")
    for q, g in F.fns.items():
        if q.startswith(ACC + "::") or q.startswith("<" + ACC):
            continue
        for c in live_calls(g):
            if c.name in ("store", "fetch_add", "fetch_sub", "swap", "fetch_update", "compare_exchange") and c.args:
                r = show(strip(g.flow.arg_tree(c, 0)))
                if re.search(r"accounting\.(reserved|committed)$", r):
                    ctx.bad("C28.encapsulation", "%s changes a PageAccounting counter directly" % short(q), expected="only PageAccounting's methods", found="%s(%s)" % (c.name, r), where=where(g, c.line), key="C28.encapsulation|writer|" + q)
    # the methods do what their names say
    table = {"reserve": [("fetch_add", "reserved")], "clear_reserved": [("fetch_sub", "reserved")], "commit": [("fetch_add", "committed")],
             "release": [("fetch_sub", "reserved"), ("fetch_sub", "committed")], "reserve_and_commit": [("fetch_add", "reserved"), ("fetch_add", "committed")],
             "reset": [("store", "reserved"), ("store", "committed")]}
    for nm, want in table.items():
        g = F.fn(ACC + "::" + nm)
        got = sorted((c.name, show(strip(g.flow.arg_tree(c, 0))).split(".")[-1]) for c in live_calls(g) if c.name in ("store", "fetch_add", "fetch_sub", "swap") and c.args)
        ctx.judge(got == sorted(want), "C28.encapsulation", "PageAccounting::%s updates %s" % (nm, [w[1] for w in want]), expected=str(sorted(want)), found=str(got), where=where(g), key="C28.encapsulation|method|" + nm)
