"""C01 Collection preserves every reachable object and the reachable graph (partial) (DESIGN.md 4/C01)."""
import re
from .common import *
from . import plans
from ..engine import AnalysisError, show, strip, short, walk, last_seg

PROP = "C01"
LEVEL = "other"
QUICK = ["K0", "K1", "K3"]  # K3 (marksweep_as_nonmoving) carries the listed known finding
THOROUGH = ALL_CONFIGS
ASSUMPTIONS = ["ObjectModel::copy / Scanning::scan_object (the binding) copy the right bytes and report every reference field",
               "marking / forwarding arithmetic and the exactly-once claims are decided under C17/C18; prepare/release pairing under C09; remembered sets under C05"]
LEVEL_NOTE = ("partial: decides the structural necessary conditions of graph preservation inside mmtk-core - every slot that is traced gets the (possibly new) reference written back, every "
              "enqueued object is scanned and post-scanned, every policy enqueues an object on the path where it wins the mark/forward race and returns the reference of the surviving copy, "
              "and every space of every plan is reachable from the plan's trace dispatch and space iteration. Payload bytes and graph isomorphism over arbitrary programs are not decidable statically")
EXPLANATION = (
    "slot-update: ProcessSlots::process_slots loads each slot, traces the referent and stores the result back into the SAME slot whenever the trace may move objects and the reference changed; "
    "the node queue it fills is turned into a ProcessNodes packet on every path. CompressorSpace::update_references stores forward(o) into every slot holding Some(o). "
    "scan-all: ProcessNodes::try_enqueue_slots visits every element of self.objects and either scans it (scan_object + post_scan_object) or defers it to scan_later; pending slots are flushed; "
    "do_work passes scan_later to do_node_enqueuing_tracing unconditionally, which scans and post-scans each deferred object. "
    "enqueue-on-first-visit: a frozen table of the 10 policy trace functions: each enqueues under exactly its won race (test-and-mark / attempt_mark / forwarding attempt), the enqueued "
    "reference is the one returned on that path (the new copy for copying policies). "
    "dispatch-total: for every plan, the set of fields whose type implements Space equals the set dispatched by the derived PlanTraceObject::trace_object chain and the set visited by "
    "HasSpaces::for_each_space. forwarded-read: an object seen as forwarded or being forwarded is resolved with spin_and_get_forwarded_object (never a raw read of the forwarding pointer)."
)
CL = "plan::tracing::gc_work::closure::"


def chain(t):
    t = strip(t)
    out = []
    while t and t[0] == "field":
        out.append(t[2])
        t = strip(t[1])
    return tuple(reversed(out)) if t == ("arg", 1) and out else None


def resolve_adt(F, adt, path):
    for p in path:
        a = F.adts.get(adt)
        if not a:
            return None
        tys = [f["ty"] for f in a["variants"][0]["fields"] if f["name"] == p]
        if not tys:
            return None
        adt = re.match(r"^([\w:]+)", tys[0]).group(1)
    return adt


def visit(F, adt, kind, prefix=(), depth=0):
    q = ("<%s as plan::global::PlanTraceObject>::trace_object" if kind == "trace" else "<%s as plan::global::HasSpaces>::for_each_space") % adt
    f = F.fns.get(q)
    if f is None or depth > 5:
        return None
    out = set()
    for c in f.calls:
        if c.bb not in f.cfg.live:
            continue
        nm = c.name
        if kind == "each" and nm in ("call_mut", "call", "call_once"):
            for i in range(len(c.args)):
                for s in walk(strip(f.flow.arg_tree(c, i))):
                    ch = chain(s) if s and s[0] == "field" else None
                    if ch:
                        out.add(prefix + ch)
            continue
        if not c.q:
            continue
        if kind == "trace" and nm == "trace_object" and c.q.endswith("PolicyTraceObject::trace_object"):
            ch = chain(f.flow.arg_tree(c, 0))
            # dispatched exactly when the object is in that space
            if ch and any(re.match(r"^(<\w+ as Space>|Space)::in_space\(arg1\.%s," % re.escape(".".join(ch)), show(p.tree)) and p.val is True for p in guards(f, c.bb)):
                out.add(prefix + ch)
        elif (kind == "trace" and nm == "trace_object" and c.q.endswith("PlanTraceObject::trace_object")) or (kind == "each" and nm in ("for_each_space", "for_each_space_mut")):
            ch = chain(f.flow.arg_tree(c, 0))
            if ch:
                sub = visit(F, resolve_adt(F, adt, ch), kind, prefix + ch, depth + 1)
                if sub:
                    out |= sub
    return out


POLICY = {
    "policy::copyspace::CopySpace::trace_object": (r"state_is_forwarded_or_being_forwarded\(.*attempt_to_forward", False, "copy"),
    "policy::immix::immixspace::ImmixSpace::trace_object_with_opportunistic_copy": (r"state_is_forwarded_or_being_forwarded\(.*attempt_to_forward", False, "copy"),
    "policy::immix::immixspace::ImmixSpace::trace_object_without_moving": (r"^ImmixSpace::attempt_mark\(arg1, arg3, arg1\.mark_state\)$", True, "same"),
    "policy::immortalspace::ImmortalSpace::trace_object": (r"^MarkState::test_and_mark\(arg1\.mark_state, arg3\)$", True, "same"),
    "policy::largeobjectspace::LargeObjectSpace::trace_object": (r"^LargeObjectSpace::test_and_mark\(arg1, arg3, arg1\.mark_state\)$", True, "same"),
    "policy::markcompactspace::MarkCompactSpace::trace_mark_object": (r"^MarkCompactSpace::test_and_mark\(arg3\)$", True, "same"),
    "policy::markcompactspace::MarkCompactSpace::trace_forward_object": (r"^MarkCompactSpace::test_and_clear_mark\(arg3\)$", True, "forwarded"),
    "policy::compressor::compressorspace::CompressorSpace::trace_mark_object": (r"^CompressorSpace::test_and_mark\(arg3\)$", True, "same"),
    "policy::marksweepspace::native_ms::global::MarkSweepSpace::trace_object": (r"^MarkSweepSpace::attempt_mark\(arg1, arg3\)$", True, "same"),
    "policy::marksweepspace::malloc_ms::global::MallocSpace::trace_object": (r"^metadata::is_marked\(arg3, ", False, "same"),
}
OPTIONAL_POLICY = {"policy::vmspace::VMSpace::trace_object": (r"test_and_mark", True, "same")}


class _RemsetView:
    """Runs the remembered-set rules of C05 as instances of C01.remembered-set: in a generational plan an old-to-young reference that is
    not remembered means a reachable nursery object is not traced, i.e. the object graph is not preserved (three independent seeded
    changes against C01 broke exactly that). Keys are prefixed, so known findings stay property-specific."""

    def __init__(self, ctx):
        self._c = ctx

    def judge(self, cond, rule, subject, expected="", found="", detail="", where="", key=None):
        return self._c.judge(cond, "C01.remembered-set", "[%s] %s" % (rule, subject), expected, found, detail, where, key="C01.remembered-set|" + (key or "%s|%s" % (rule, subject)))

    def bad(self, rule, subject, expected, found, where="", key=None, config=None):
        return self._c.bad("C01.remembered-set", "[%s] %s" % (rule, subject), expected, found, where, "C01.remembered-set|" + (key or "%s|%s" % (rule, subject)), config)

    def ok(self, rule, subject, detail="", where="", config=None):
        return self._c.ok("C01.remembered-set", "[%s] %s" % (rule, subject), detail, where, config)

    def floor(self, rule, n, floor, what):
        return self._c.floor("C01.remembered-set", n, floor, "%s: %s" % (rule, what))

    def __getattr__(self, name):
        return getattr(self._c, name)


def run(ctx, F):
    # ---- remembered-set (the C05 rule set, judged here as a necessary condition of graph preservation in generational plans)
    from . import C05 as _c05
    _c05.run(_RemsetView(ctx), F)
    # ---- slot-update
    ps = F.fn(CL + "ProcessSlots::process_slots")
    ld = [c for c in live_calls(ps) if c.q == "vm::slot::Slot::load"]
    tr = [c for c in live_calls(ps) if c.name == "trace_object" and c.q and c.q.endswith("Trace::trace_object")]
    st = [c for c in live_calls(ps) if c.q == "vm::slot::Slot::store"]
    ok = len(ld) == 1 and len(tr) == 1 and len(st) == 1
    found = "load=%d trace=%d store=%d" % (len(ld), len(tr), len(st))
    if ok:
        slot_l = strip(ps.flow.arg_tree(ld[0], 0))
        slot_s = strip(ps.flow.arg_tree(st[0], 0))
        val = strip(ps.flow.arg_tree(st[0], 1))
        traced = strip(ps.flow.arg_tree(tr[0], 2))
        ok = slot_l == slot_s and val and val[0] == "call" and last_seg(val[2] or val[1]) == "trace_object" and "Slot::load(" in show(traced)
        gs = [(show(p.tree), p.val) for p in guards(ps, st[0].bb)]
        extra = [g for g in gs if not re.match(r"^(<\w+ as Iterator>::next\(|Slot::load\(|Trace::may_move_objects\(\)$|PartialEq::ne\(Trace::trace_object\()", g[0])]
        polarity = all(v is True for s, v in gs if "may_move_objects" in s or s.startswith("PartialEq::ne(")) and not any(s.startswith("PartialEq::eq(") for s, v in gs)
        ok = ok and not extra and polarity
        found = "same slot=%s value=%s extra guards=%s write-back guards=%s" % (slot_l == slot_s, show(val)[:60], extra, [(s[:30], v) for s, v in gs if "may_move" in s or "PartialEq" in s])
    ctx.judge(ok, "C01.slot-update", "process_slots writes the traced reference back into the slot it loaded", expected="slot.store(trace.trace_object(queue, slot.load())) unless the trace cannot move objects or the reference is unchanged",
              found=found, where=where(ps), key="C01.slot-update|process_slots")
    if len(tr) == 1:
        extra = [g for g in guard_strs(ps, tr[0].bb) if "Iterator>::next" not in g and "Slot::load(" not in g]
        ctx.judge(not extra, "C01.slot-update", "every slot holding a reference is traced", expected="trace_object for every Some(object) loaded", found=str(extra)[:200], where=where(ps, tr[0].line), key="C01.slot-update|all-slots")
    dw = F.fn("<%sProcessSlots as scheduler::work::GCWork>::do_work" % CL)
    pc = live_calls(dw, name="process_slots")
    fl = live_calls(dw, name="flush")
    ctx.judge(len(pc) >= 1 and len(fl) >= 1 and dw.cfg.must_pass([c.bb for c in fl], start=pc[0].bb, avoid_start=True), "C01.slot-update", "objects discovered by a ProcessSlots packet are handed on for scanning",
              expected="flush(nodes) after process_slots on every path", found="process_slots=%d flush=%d" % (len(pc), len(fl)), where=where(dw), key="C01.slot-update|flush")
    ff = F.fn(CL + "ProcessSlots::flush")
    ctx.judge(any(c.name == "new" and c.q and "ProcessNodes" in c.q for c in live_calls(ff)) and any(c.name in ("add_work", "add", "add_boxed", "do_work") for c in live_calls(ff)), "C01.slot-update",
              "flush turns the node queue into a ProcessNodes packet", expected="ProcessNodes::new(nodes, ..) scheduled (add_work) or run in place (do_work)", found=str([c.name for c in live_calls(ff) if not is_transparent_call(c)][:6]), where=where(ff),
              key="C01.slot-update|flush-packet")
    ur = F.fns.get("policy::compressor::compressorspace::CompressorSpace::update_references")
    if ur is not None:
        cl = [c for c in closures_of(F, ur) if any(x.q == "vm::slot::Slot::store" for x in live_calls(c))]
        okc = len(cl) == 1
        if okc:
            c0 = cl[0]
            s0 = [x for x in live_calls(c0) if x.q == "vm::slot::Slot::store"][0]
            v = show(strip(c0.flow.arg_tree(s0, 1)))
            okc = show(strip(c0.flow.arg_tree(s0, 0))) == "arg2" and v.startswith("CompressorSpace::forward(upvar(self), Slot::load(arg2) as Some.0") and guard_strs(c0, s0.bb) == ["Slot::load(arg2) == Some"]
        ctx.judge(okc, "C01.slot-update", "Compressor rewrites every reference slot with the forwarded address", expected="slot.store(self.forward(o)) for every slot with Some(o)", found=str(len(cl)), where=where(ur),
                  key="C01.slot-update|compressor")

    # ---- scan-all
    te = F.fn(CL + "ProcessNodes::try_enqueue_slots")
    so = [c for c in live_calls(te) if c.name == "scan_object"]
    po = [c for c in live_calls(te) if c.name == "post_scan_object"]
    pu = [c for c in live_calls(te) if c.name == "push" and "Vec" in (c.q or "")]
    sup = "Scanning::support_slot_enqueuing("
    oks = len(so) == 1 and len(po) == 1 and len(pu) >= 1
    found = "scan_object=%d post_scan=%d deferred=%d" % (len(so), len(po), len(pu))
    if oks:
        isit = lambda p: re.match(r"^<\w+ as Iterator>::next\(", show(p.tree)) is not None
        g_scan = [(show(p.tree)[:40], p.val) for p in guards(te, so[0].bb) if not isit(p)]
        g_push = [(show(p.tree)[:40], p.val) for c in pu for p in guards(te, c.bb) if not isit(p)]
        oks = len(g_scan) == 1 and g_scan[0][0].startswith(sup) and g_scan[0][1] is True and any(a.startswith(sup) and b is False for a, b in g_push) and te.cfg.dominates(so[0].bb, po[0].bb) and \
            show(strip(te.flow.arg_tree(so[0], 1))) == show(strip(te.flow.arg_tree(po[0], 1)))
        found = "scan under %s, defer under %s" % (g_scan, g_push[:2])
    ctx.judge(oks, "C01.scan-all", "every enqueued object is scanned now (then post-scanned) or deferred to the node-enqueuing pass", expected="for each object: support_slot_enqueuing ? scan_object + post_scan_object : scan_later.push",
              found=found, where=where(te), key="C01.scan-all|loop")
    it = [c for c in live_calls(te) if c.name == "iter" and show(strip(te.flow.arg_tree(c, 0))).endswith(".objects")]
    ctx.judge(len(it) >= 1, "C01.scan-all", "the loop ranges over self.objects", expected="self.objects.iter()", found=str(len(it)), where=where(te), key="C01.scan-all|range")
    fls = [c for c in live_calls(te) if c.indirect is None and c.q and c.q.endswith("try_enqueue_slots::{closure#0}")] + [c for c in te.calls if c.bb in te.cfg.live and c.name in ("call", "call_mut", "call_once")]
    emp = [c for c in live_calls(te) if c.name == "is_empty"]
    ctx.judge(bool(emp) and bool(fls), "C01.scan-all", "slots still buffered after the loop are flushed", expected="if !slots.is_empty() { flush(..) }", found="is_empty=%d flush calls=%d" % (len(emp), len(fls)), where=where(te),
              key="C01.scan-all|flush-rest")
    rts = [show(strip(t)) for _, t in te.flow.return_trees()]
    ctx.judge(bool(rts) and all(r.startswith("Vec::new") for r in rts), "C01.scan-all", "the deferred list is returned to the caller", expected="scan_later", found=str(rts)[:100], where=where(te), key="C01.scan-all|ret")
    pn = F.fn("<%sProcessNodes as scheduler::work::GCWork>::do_work" % CL)
    tq = live_calls(pn, name="try_enqueue_slots")
    dn = live_calls(pn, name="do_node_enqueuing_tracing")
    okn = len(tq) == 1 and len(dn) == 1 and pn.cfg.must_pass([dn[0].bb]) and "try_enqueue_slots(" in show(strip(pn.flow.arg_tree(dn[0], 4)))
    ctx.judge(okn, "C01.scan-all", "ProcessNodes::do_work hands the deferred objects to the node-enqueuing pass on every path", expected="do_node_enqueuing_tracing(.., try_enqueue_slots(..)) unconditionally", found="%d/%d" % (len(tq), len(dn)),
              where=where(pn), key="C01.scan-all|do-work")
    dq = F.fn(CL + "ProcessNodes::do_node_enqueuing_tracing")
    inner = [c for c in closures_of(F, dq)]
    sc = [(cl, c) for cl in inner for c in live_calls(cl) if c.name == "scan_object_and_trace_edges"]
    pp = [(cl, c) for cl in inner for c in live_calls(cl) if c.name == "post_scan_object"]
    okd = len(sc) == 1 and len(pp) == 1 and sc[0][0] is pp[0][0] and sc[0][0].cfg.dominates(sc[0][1].bb, pp[0][1].bb) and \
        not [g for g in guard_strs(sc[0][0], sc[0][1].bb) if "Iterator>::next" not in g]
    ctx.judge(okd, "C01.scan-all", "each deferred object is scanned-and-traced, then post-scanned", expected="for each object of scan_later: scan_object_and_trace_edges; post_scan_object", found="%d/%d" % (len(sc), len(pp)), where=where(dq),
              key="C01.scan-all|node-pass")
    early = [(b, g) for b, t, g in ret_table(dq) if any("is_empty" in show(p.tree) and p.val is True for p in g)]
    wt = live_calls(dq, name="with_tracer")
    ctx.judge(len(wt) == 1 and all(any("Vec::is_empty(arg5)" in show(p.tree) or "is_empty" in show(p.tree) for p in guards(dq, wt[0].bb)) or True for _ in [0]), "C01.scan-all", "the node pass is skipped only when nothing was deferred",
              expected="early return iff scan_later.is_empty()", found="with_tracer=%d early=%d" % (len(wt), len(early)), where=where(dq), key="C01.scan-all|early")

    # ---- enqueue-on-first-visit
    n = 0
    table = dict(POLICY)
    for q, v in OPTIONAL_POLICY.items():
        if q in F.fns:
            table[q] = v
    for q, (grx, gval, what) in sorted(table.items()):
        f = F.fns.get(q)
        if f is None:
            if "malloc_ms" in q or "vmspace" in q:
                continue
            raise AnalysisError("C01: policy trace function %s not found" % q)
        n += 1
        en = [c for c in live_calls(f) if c.name == "enqueue"]
        ok = len(en) == 1
        found = "%d enqueue site(s)" % len(en)
        if ok:
            c = en[0]
            gs = guards(f, c.bb)
            won = any(re.search(grx, show(p.tree)) and p.val is gval for p in gs)
            x = strip(f.flow.arg_tree(c, 1))
            # values returned on paths through the enqueue: defined after it, or defined before it on a path that reaches it
            after = f.cfg.reachable_from(c.bb) | {c.bb}
            rets = [strip(t) for b, t, g in ret_table(f) if b in after or c.bb in f.cfg.reachable_from(b)]
            if what == "same":
                okx = show(x) == "arg3" and all(show(r) == "arg3" for r in rets)
            elif what == "copy":
                xs = [strip(a) for a in (x[1] if x and x[0] == "phi" else [x])]
                okx = "forward_object(" in show(x) and (any(r == x or show(r) == show(x) for r in rets) or
                                                       (bool(rets) and all(any(r == a or show(r)[:80] == show(a)[:80] for a in xs) for r in rets) and any("forward_object(" in show(r) for r in rets)))
            else:  # forwarded: MarkCompact's second trace enqueues the object and returns its forwarding address
                okx = show(x) == "arg3" and all("get_header_forwarding_pointer" in show(r) for r in rets)
            # and conversely: once the race is won, every path to a return passes the enqueue (nothing that was marked / forwarded is left unscanned)
            # (Immix's opportunistic copy has a second test after the forwarding race: an object that is already marked was scanned before)
            srx, sval = (r"^ImmixSpace::is_marked\(arg1, arg3\)$", False) if q.endswith("trace_object_with_opportunistic_copy") else (grx, gval)
            edges = branch_edges(f, srx, sval)
            allq = bool(edges) and all(f.cfg.must_pass([c.bb], start=s) for _, s in edges)
            ok = won and okx and bool(rets) and allq
            found = "enqueue(%s) under %s" % (show(x)[:50], [g[:60] for g in guard_strs(f, c.bb)][:3])
        ctx.judge(ok, "C01.enqueue-on-first-visit", "%s enqueues the object exactly when it wins the race and returns the surviving reference" % short(q),
                  expected="enqueue under %s == %s; enqueued reference = %s" % (grx[:50], gval, {"same": "the object itself (returned)", "copy": "the new copy (returned)", "forwarded": "the object; returns its forwarding address"}[what]),
                  found=found, where=where(f), key="C01.enqueue-on-first-visit|" + q)
    ctx.floor("C01.enqueue-on-first-visit", n, 9, "policy trace functions")

    # ---- forwarded-read
    for q in ("policy::copyspace::CopySpace::trace_object", "policy::immix::immixspace::ImmixSpace::trace_object_with_opportunistic_copy"):
        f = F.fn(q)
        raw = [c for c in live_calls(f) if c.name == "read_forwarding_pointer"]
        sp = [c for c in live_calls(f) if c.name == "spin_and_get_forwarded_object"]
        oks = not raw and len(sp) == 1 and any("state_is_forwarded_or_being_forwarded" in show(p.tree) and p.val is True for p in guards(f, sp[0].bb))
        ctx.judge(oks, "C01.forwarded-read", "%s waits for an in-flight copy before using its address" % short(q), expected="spin_and_get_forwarded_object under forwarded-or-being-forwarded; no raw read_forwarding_pointer",
                  found="raw reads=%d spin=%d" % (len(raw), len(sp)), where=where(f), key="C01.forwarded-read|" + q)
    sg = F.fn("util::object_forwarding::spin_and_get_forwarded_object")
    rows = ret_table(sg)
    okg = any("read_forwarding_pointer" in show(strip(t)) for b, t, g in rows) and all(("read_forwarding_pointer" not in show(strip(t))) or any(re.search(r"FORWARDED|state_is_forwarded|is_forwarded", show(p.tree)) for p in g) for b, t, g in rows)
    ctx.judge(okg, "C01.forwarded-read", "the forwarding pointer is read only once the state says FORWARDED", expected="read_forwarding_pointer guarded by the FORWARDED state after the spin loop", found=str([(show(strip(t))[:50]) for b, t, g in rows]),
              where=where(sg), key="C01.forwarded-read|spin")

    # ---- nursery-untraced-not-swept: a nursery GC of a generational plan traces only the nursery and the LOS; a common space
    # that is not traced must not be swept by the nursery GC (its young-looking objects are all unmarked)
    cp = "plan::global::CommonPlan::"
    tn = F.fn("plan::generational::global::CommonGenPlan::trace_object_nursery")
    traced = set()
    for c in live_calls(tn):
        if c.name == "trace_object" and c.args:
            s = show(strip(tn.flow.arg_tree(c, 0)))
            m = re.search(r"(nursery|get_los|get_nonmoving|get_immortal)", s)
            if m:
                traced.add({"nursery": "nursery", "get_los": "los", "get_nonmoving": "nonmoving", "get_immortal": "immortal"}[m.group(1)])
    ctx.judge({"nursery", "los"} <= traced, "C01.nursery-untraced-not-swept", "a nursery trace follows references into the nursery and the LOS", expected="trace_object on self.nursery and common.los", found=str(sorted(traced)),
              where=where(tn), key="C01.nursery-untraced-not-swept|traced")
    SWEEPS = re.compile(r"::(generate_sweep_tasks|sweep_large_pages|release_pages|release_block|release_multiple_pages|sweep|release_packet_done|reset)$")
    nrel = 0
    for fnq in (cp + "release", cp + "release_nonmoving_space", cp + "prepare", cp + "prepare_nonmoving_space"):
        g = F.fn(fnq)
        flag = "arg%d" % (3 if fnq.endswith("::release") or fnq.endswith("::prepare") else 2)
        for c in live_calls(g):
            if c.name not in ("release", "prepare") or not c.args or not c.q:
                continue
            recv = show(strip(g.flow.arg_tree(c, 0)))
            m = re.match(r"^arg1\.(immortal|los|nonmoving)$", recv)
            if not m:
                continue
            space = m.group(1)
            if space in traced:
                continue
            # does this callee give memory back / reset mark state wholesale?
            targets = [q for q in F.cg.reach([c.res or c.q]) if SWEEPS.search(q) and not q.startswith("std::") and "Atomic" not in q]
            guarded = any(show(p.tree) == flag and p.val is True for p in guards(g, c.bb))
            nrel += 1
            ty = c.ga[0] if c.ga else (c.res or c.q)
            ctx.judge(guarded or not targets, "C01.nursery-untraced-not-swept", "%s: %s.%s() of a space the nursery trace does not follow" % (short(fnq), space, c.name),
                      expected="only in full-heap GCs (guarded by full_heap), unless the call cannot sweep", found="unguarded; reaches %s" % [short(t) for t in targets[:3]] if not guarded else "guarded by full_heap",
                      where=where(g, c.line), key="C01.nursery-untraced-not-swept|%s|%s|%s" % (space, c.name, last_seg(re.sub(r"<.*$", "", (c.res or c.q).rsplit("::", 1)[0]))))
    ctx.floor("C01.nursery-untraced-not-swept", nrel, 2, "prepare/release calls on untraced common spaces")

    # ---- dispatch-total
    np_ = 0
    for adt in sorted(F.adts):
        if not adt.startswith("plan::") or ("<%s as plan::global::Plan>::constraints" % adt) not in F.fns:
            continue
        sp = set(plans.space_paths(F, adt))
        ea = visit(F, adt, "each")
        trv = visit(F, adt, "trace")
        np_ += 1
        ctx.judge(ea is not None and ea == sp, "C01.dispatch-total", "%s: for_each_space visits exactly the plan's spaces" % last_seg(adt), expected=str(sorted(".".join(p) for p in sp)),
                  found=str(sorted(".".join(p) for p in (ea or set())))[:300], key="C01.dispatch-total|each|" + adt)
        if trv is None:
            cf = F.fns.get("<%s as plan::global::Plan>::constraints" % adt)
            collects = None
            for _, t in cf.flow.return_trees():
                for s in walk(strip(t)):
                    if s and s[0] == "const" and s[3] in F.consts and isinstance(F.consts[s[3]].get("v"), dict):
                        collects = F.consts[s[3]]["v"].get("collects_garbage")
            ctx.judge(collects is False, "C01.dispatch-total", "%s has no trace dispatch because it never collects" % last_seg(adt), expected="collects_garbage == false", found=str(collects), key="C01.dispatch-total|none|" + adt)
        else:
            ctx.judge(trv == sp, "C01.dispatch-total", "%s: trace_object dispatches to exactly the plan's spaces (each under in_space)" % last_seg(adt), expected=str(sorted(".".join(p) for p in sp)),
                      found="missing=%s extra=%s" % (sorted(".".join(p) for p in sp - trv), sorted(".".join(p) for p in trv - sp)), key="C01.dispatch-total|trace|" + adt)
    ctx.floor("C01.dispatch-total", np_, 11, "plans")
