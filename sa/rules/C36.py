"""C36 The large-object treadmill accounts for every object exactly once (DESIGN.md 4/C36)."""
import re
from .common import *
from ..engine import AnalysisError, show, strip, short, walk, last_seg

PROP = "C36"
LEVEL = "other"
QUICK = ["K0"]
THOROUGH = ALL_CONFIGS
ASSUMPTIONS = ["HashSet insert/remove/take behave as sets (std)", "which objects are traced is decided under C01; the byte-level atomicity of the mark CAS under C18/C23"]
EXPLANATION = (
    "The treadmill keeps four sets behind one mutex. add-once: add_to_treadmill inserts the object into exactly one set on every path - alloc_nursery iff `nursery`, else to_space - and "
    "LargeObjectSpace::initialize_object_metadata calls it once with nursery = !allocate_as_live. copy-moves: TreadMill::copy removes the object from exactly one source set chosen by "
    "is_in_nursery (collect_nursery / from_space) and inserts it into to_space on every path. copy-once: LargeObjectSpace::trace_object calls treadmill.copy only under "
    "test_and_mark(..) == true, with the nursery flag it read from the object, and enqueues the object under the same guard; test_and_mark reports false only when the loaded mark "
    "already equals the wanted value and retries after a failed CAS. flip: prepare flips the mark state exactly under full_heap, calls flip(full_heap) unconditionally and sets "
    "in_nursery_gc = !full_heap; TreadMill::flip always swaps the nurseries and swaps from/to exactly under full_heap. sweep: release sweeps the nursery unconditionally and the "
    "mature set exactly under full_heap; collect_* take the whole set (mem::take); each swept object is handed to release_pages once. locked: every access to the sets goes through "
    "sync.lock() or, with &mut self, sync.get_mut()."
)
T = "util::treadmill::TreadMill::"
L = "policy::largeobjectspace::LargeObjectSpace::"
SETS = ("alloc_nursery", "collect_nursery", "from_space", "to_space")


def set_ops(f):
    """(call, op, sets, guards) for every operation on one of the four sets. A receiver chosen first and used afterwards
    (`let set = if nursery { &mut a } else { &mut b }; set.insert(o)`) counts as one operation per alternative, under the guards
    of the block that chose it."""
    out = []
    SETRX = r"\.(alloc_nursery|collect_nursery|from_space|to_space)$"
    for c in live_calls(f):
        if c.name in ("insert", "remove", "take", "swap", "clear", "drain", "retain", "extend") and c.args:
            tgt = [m for a in range(min(2, len(c.args))) for m in re.findall(SETRX, show(strip(f.flow.arg_tree(c, a))))]
            if tgt:
                out.append((c, c.name, tuple(tgt), [(show(p.tree), p.val) for p in guards(f, c.bb)]))
                continue
            op = c.args[0]
            if op[0] in ("c", "m") and len(op[1]) == 1:
                alts = f.flow.alternatives(op[1][0], c.bb, "t")
                # `let (set, name) = if .. { (&mut a, "a") } else { (&mut b, "b") }`: the receiver is field N of a tuple with several definitions
                if len(alts) == 1 and alts[0][0] is not None:
                    bb_def = alts[0][0]
                    for j2, st2 in enumerate(f.blocks[bb_def]["s"]):
                        bb2 = bb_def
                        if st2[0] == "=" and st2[2][0] in ("use", "ref"):
                            src = st2[2][1][1] if st2[2][0] == "use" and st2[2][1][0] in ("c", "m") else (st2[2][2] if st2[2][0] == "ref" else None)
                            if src and len(src) >= 2 and isinstance(src[1], str) and re.fullmatch(r"\.\d+", src[1]):
                                n_ = int(src[1][1:])
                                talts = f.flow.alternatives(src[0], bb2, j2)
                                proj = []
                                for b3, t3 in talts:
                                    t3 = strip(t3)
                                    if t3 and t3[0] == "agg" and t3[1][0] == "tuple" and n_ < len(t3[2]):
                                        proj.append((b3, t3[2][n_]))
                                if len(proj) >= 2 and len(proj) == len(talts) and all(re.findall(SETRX, show(strip(t9))) for _, t9 in proj):
                                    alts = proj
                                    break
                picked = [(b, re.findall(SETRX, show(strip(t)))) for b, t in alts]
                if len(picked) >= 2 and all(b is not None and len(m) == 1 for b, m in picked):
                    here = [(show(p.tree), p.val) for p in guards(f, c.bb)]
                    for b, m in picked:
                        gs = [(show(p.tree), p.val) for p in guards(f, b)]
                        out.append((c, c.name, (m[0],), gs + [g for g in here if g not in gs]))
    return out


def run(ctx, F):
    # ---- add-once
    f = F.fn(T + "add_to_treadmill")
    ops = [(n, t, g) for c, n, t, g in set_ops(f)]
    want = [("insert", ("alloc_nursery",), [("arg3", True)]), ("insert", ("to_space",), [("arg3", False)])]
    ctx.judge(sorted(ops) == sorted(want), "C36.add-once", "add_to_treadmill inserts into exactly one set", expected="alloc_nursery iff nursery, else to_space", found=str(ops)[:240], where=where(f), key="C36.add-once|treadmill")
    ctx.judge(all(show(strip(f.flow.arg_tree(c, 1))) == "arg2" for c, n, t, g in set_ops(f)), "C36.add-once", "the inserted element is the object", expected="insert(object)", found="other", where=where(f), key="C36.add-once|elem")
    io = F.fn("<policy::largeobjectspace::LargeObjectSpace as policy::sft::SFT>::initialize_object_metadata")
    ad = live_calls(io, name="add_to_treadmill")
    oka = len(ad) == 1 and io.cfg.must_pass([ad[0].bb]) and show(strip(io.flow.arg_tree(ad[0], 1))) == "arg2"
    nf = show(strip(io.flow.arg_tree(ad[0], 2))) if ad else ""
    ctx.judge(oka and re.match(r"^Not\(.*allocate_as_live.*\)$", nf) is not None, "C36.add-once", "a new large object joins the treadmill once, young unless allocated as live", expected="add_to_treadmill(object, !allocate_as_live) on every path",
              found="%d call(s), flag=%s" % (len(ad), nf[:80]), where=where(io), key="C36.add-once|alloc")
    check_callers(ctx, F, "C36.add-once", T + "add_to_treadmill", {io.q: "allocation"}, min_sites=1)

    # ---- copy-moves
    cp = F.fn(T + "copy")
    ops = [(n, t, g) for c, n, t, g in set_ops(cp)]
    want = [("remove", ("collect_nursery",), [("arg3", True)]), ("remove", ("from_space",), [("arg3", False)]), ("insert", ("to_space",), [])]
    ctx.judge(sorted(ops) == sorted(want), "C36.copy-moves", "copy removes from one source set and inserts into to_space", expected="remove(collect_nursery) iff is_in_nursery else remove(from_space); insert(to_space) always", found=str(ops)[:300],
              where=where(cp), key="C36.copy-moves|ops")
    ins = [c for c, n, t, g in set_ops(cp) if n == "insert"]
    ctx.judge(len(ins) == 1 and cp.cfg.must_pass([ins[0].bb]) and all(show(strip(cp.flow.arg_tree(c, 1))).lstrip("&") == "arg2" for c, n, t, g in set_ops(cp)), "C36.copy-moves", "the moved element is the object, inserted on every path",
              expected="to_space.insert(object) on every path", found=str(len(ins)), where=where(cp), key="C36.copy-moves|insert")

    # ---- copy-once
    tr = F.fn(L + "trace_object")
    cc = live_calls(tr, name="copy")
    tm = live_calls(tr, name="test_and_mark")
    nq = live_calls(tr, name="enqueue")
    okc = len(cc) == 1 and len(tm) == 1 and len(nq) == 1
    found = "copy=%d test_and_mark=%d enqueue=%d" % (len(cc), len(tm), len(nq))
    if okc:
        won = lambda c: any(show(p.tree).startswith("LargeObjectSpace::test_and_mark(arg1, arg3, arg1.mark_state)") and p.val is True for p in guards(tr, c.bb))
        okc = won(cc[0]) and won(nq[0]) and show(strip(tr.flow.arg_tree(cc[0], 1))) == "arg3" and show(strip(tr.flow.arg_tree(cc[0], 2))) == "LargeObjectSpace::is_in_nursery(arg1, arg3)" and \
            show(strip(tr.flow.arg_tree(nq[0], 1))) == "arg3"
        found = "copy under %s" % guard_strs(tr, cc[0].bb)[:2]
    ctx.judge(okc, "C36.copy-once", "a reached large object is moved to to_space and enqueued by the one worker that marks it", expected="treadmill.copy(object, is_in_nursery(object)) and enqueue(object) under test_and_mark(object, mark_state) == true",
              found=found, where=where(tr), key="C36.copy-once|trace")
    check_callers(ctx, F, "C36.copy-once", T + "copy", {tr.q: "tracing"}, min_sites=1)
    tam = F.fn(L + "test_and_mark")
    # the marking CAS replaces BOTH state bits (mark and nursery) by the wanted value: an object marked in a full-heap GC leaves the nursery
    cx = [c for c in live_calls(tam) if c.name.startswith("compare_exchange")]
    oknv = len(cx) == 1 and len(cx[0].args) >= 4
    foundnv = "compare_exchange sites=%d" % len(cx)
    if oknv:
        nv = simp(tam.flow.arg_tree(cx[0], 3))
        old = show(simp(tam.flow.arg_tree(cx[0], 2)))
        full = (F.consts.get("policy::largeobjectspace::MARK_BIT", {}).get("v"), F.consts.get("policy::largeobjectspace::NURSERY_BIT", {}).get("v"))
        foundnv = show(nv)[-120:]
        oknv = False
        if nv and nv[0] == "bin" and nv[1] == "BitOr" and None not in full:
            sides = [simp(nv[2]), simp(nv[3])]
            val = [x for x in sides if x == ("arg", 3)]
            keep = [x for x in sides if x and x[0] == "bin" and x[1] == "BitAnd"]
            if len(val) == 1 and len(keep) == 1:
                ks = [simp(keep[0][2]), simp(keep[0][3])]
                olds = [x for x in ks if show(x) == old]
                nots = [x for x in ks if x and x[0] == "un" and x[1] == "Not" and const_arg(x[2]) == (full[0] | full[1])]
                oknv = len(olds) == 1 and len(nots) == 1
    ctx.judge(oknv, "C36.copy-once", "marking rewrites both the mark bit and the nursery bit", expected="CAS(old -> (old & !(MARK_BIT | NURSERY_BIT)) | value)", found=foundnv, where=where(tam), key="C36.copy-once|new-value")
    rows = ret_table(tam)
    falses = [(b, t, g) for b, t, g in rows if const_arg(t) is False]
    trues = [(b, t, g) for b, t, g in rows if const_arg(t) is True]
    okf = len(falses) == 1 and any((re.search(r" Eq arg3\)$|^\(arg3 Eq ", show(p.tree)) and p.val is True) or (re.search(r" Ne arg3\)$|^\(arg3 Ne ", show(p.tree)) and p.val is False) for p in falses[0][2]) and not any("compare_exchange" in show(p.tree) for p in falses[0][2])
    ctx.judge(okf, "C36.copy-once", "test_and_mark reports 'already marked' only when the loaded mark equals the wanted value", expected="return false iff (old & mask) == value; never because the CAS failed",
              found=str([[(show(p.tree)[-50:], p.val) for p in g] for b, t, g in falses])[:300], where=where(tam), key="C36.copy-once|false")
    okt = len(trues) >= 1 and all(any("compare_exchange" in show(p.tree) and p.val in ("Ok", True) for p in g) for b, t, g in trues)
    ctx.judge(okt, "C36.copy-once", "test_and_mark reports success only after its CAS succeeded", expected="return true under compare_exchange(..).is_ok()", found=str([[(show(p.tree)[-40:], p.val) for p in g] for b, t, g in trues])[:300],
              where=where(tam), key="C36.copy-once|true")

    # ---- flip
    pr = F.fn(L + "prepare")
    ms = [(bb, show(strip(t)), [(show(p.tree), p.val) for p in guards(pr, bb)]) for (bb, j, pl, t) in stores(pr) if place_str(pr, pl).endswith(".mark_state")]
    ctx.judge(len(ms) == 1 and ms[0][2] == [("arg2", True)] and re.match(r"^\(largeobjectspace::MARK_BIT=\d+ Sub arg1\.mark_state\)$", ms[0][1]) is not None, "C36.flip", "the LOS mark state flips exactly on full-heap GCs",
              expected="mark_state = MARK_BIT - mark_state exactly under full_heap", found=str(ms)[:200], where=where(pr), key="C36.flip|mark-state")
    fl = live_calls(pr, name="flip")
    ctx.judge(len(fl) == 1 and pr.cfg.must_pass([fl[0].bb]) and show(strip(pr.flow.arg_tree(fl[0], 1))) == "arg2", "C36.flip", "prepare flips the treadmill with the same full_heap flag", expected="treadmill.flip(full_heap) on every path",
              found=str(len(fl)), where=where(pr), key="C36.flip|call")
    ng = [(show(strip(t)), guard_strs(pr, bb)) for (bb, j, pl, t) in stores(pr) if place_str(pr, pl).endswith(".in_nursery_gc")]
    ctx.judge(ng == [("Not(arg2)", [])], "C36.flip", "in_nursery_gc = !full_heap", expected="unconditional store of !full_heap", found=str(ng), where=where(pr), key="C36.flip|in-nursery")
    tf = F.fn(T + "flip")
    ops = sorted((n, tuple(sorted(t)), g) for c, n, t, g in set_ops(tf))
    want = sorted([("swap", ("alloc_nursery", "collect_nursery"), []), ("swap", ("from_space", "to_space"), [("arg2", True)])])
    ctx.judge(ops == want, "C36.flip", "TreadMill::flip swaps the nurseries always and from/to exactly under full_heap", expected=str(want), found=str(ops)[:240], where=where(tf), key="C36.flip|treadmill")

    # ---- sweep
    rl = F.fn(L + "release")
    sw = [(const_arg(rl.flow.arg_tree(c, 1)), [(show(p.tree), p.val) for p in guards(rl, c.bb)]) for c in live_calls(rl, name="sweep_large_pages")]
    ctx.judge(sorted(sw, key=str) == sorted([(True, []), (False, [("arg2", True)])], key=str), "C36.sweep", "release sweeps the nursery always and the mature set exactly on full-heap GCs",
              expected="sweep_large_pages(true); if full_heap { sweep_large_pages(false) }", found=str(sw), where=where(rl), key="C36.sweep|release")
    sp = F.fn(L + "sweep_large_pages")
    cn = [(c.name, [(show(p.tree), p.val) for p in guards(sp, c.bb)]) for c in live_calls(sp) if c.name in ("collect_nursery", "collect_mature")]
    ctx.judge(sorted(cn) == sorted([("collect_nursery", [("arg2", True)]), ("collect_mature", [("arg2", False)])]), "C36.sweep", "sweep takes the set selected by its flag", expected="collect_nursery iff sweep_nursery else collect_mature",
              found=str(cn), where=where(sp), key="C36.sweep|select")
    for nm, fld in (("collect_nursery", "collect_nursery"), ("collect_mature", "from_space")):
        g = F.fn(T + nm)
        ops = [(n, t) for c, n, t, gg in set_ops(g)]
        ctx.judge(ops == [("take", (fld,))], "C36.sweep", "%s empties %s (each dead object is swept once)" % (nm, fld), expected="mem::take(&mut sync.%s)" % fld, found=str(ops), where=where(g), key="C36.sweep|take|" + nm)
    cls = closures_of(F, sp)
    # the per-object work may live in a closure of sweep_large_pages or in a private method it calls for each object
    helpers = []
    for g in [sp] + list(cls):
        for c in live_calls(g):
            h = F.fns.get(c.q or "")
            if h is not None and h.blocks and (c.q or "").startswith("policy::largeobjectspace::LargeObjectSpace::") and str(h.meta.get("vis", "")).startswith("Restricted") and h is not sp \
                    and h.argc == 2 and g.cfg.must_pass([c.bb]) and h not in helpers:
                helpers.append(h)
    per_obj = list(cls) + helpers + [x for h in helpers for x in closures_of(F, h)]
    rp = [(cl, c) for cl in per_obj for c in live_calls(cl) if c.name in ("release_pages", "release_multiple_pages")]
    # one release per per-object body (the same body may exist once per sweep loop: nursery / mature)
    bodies = {}
    for cl, c in rp:
        bodies.setdefault(cl.q, []).append((cl, c))
    okrp = bool(bodies) and all(len(v) == 1 and v[0][0].cfg.path_counts([v[0][1].bb]) == (1, 1) for v in bodies.values())
    ctx.judge(okrp, "C36.sweep", "every swept object's pages are released exactly once", expected="one release_pages(object start) on every path of the per-object closure / helper", found=str(len(rp)),
              where=where(sp), key="C36.sweep|release-pages")

    # ---- locked
    n = 0
    for q, g in sorted(F.fns.items()):
        if not q.startswith(T) or g.kind == "closure":
            continue
        touched = [c for c in live_calls(g) if c.args and re.search(r"\.(alloc_nursery|collect_nursery|from_space|to_space)$", show(strip(g.flow.arg_tree(c, 0))))]
        if not touched:
            continue
        n += 1
        okl = all(re.match(r"^Result::unwrap\(Mutex::(lock|get_mut)\(arg1\.sync\)\)\.", show(strip(g.flow.arg_tree(c, 0)))) for c in touched)
        ctx.judge(okl, "C36.locked", "%s reaches the sets through the mutex" % short(q), expected="sync.lock() / sync.get_mut()", found=str([show(strip(g.flow.arg_tree(c, 0)))[:60] for c in touched][:3]), where=where(g),
                  key="C36.locked|" + q)
    ctx.floor("C36.locked", n, 8, "TreadMill methods touching the sets")
