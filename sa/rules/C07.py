"""C07 After an exhaustive GC, MMTk reports exactly the surviving objects (feature vo_bit) (DESIGN.md 4/C07)."""
import re
from .common import *
from ..engine import AnalysisError, show, strip, short, walk, last_seg

PROP = "C07"
LEVEL = "other"
QUICK = ["K1"]
THOROUGH = ["K1", "K2"]
ASSUMPTIONS = ["the bit scan of enumerate (scan_non_zero_values) and the VO-bit address arithmetic are value-level and not decided (C22 not applicable)",
               "that every space is prepared/released/swept in an exhaustive GC is decided under C09 (plan pairing)"]
EXPLANATION = (
    "Valid-object (VO) bits are what enumerate_objects and is_mmtk_object report. set-on-alloc: every policy's initialize_object_metadata sets the VO bit "
    "of the new object on every path. set-on-copy: every copying path sets the VO bit of the new copy (CopySpace, Immix via on_object_forwarded, "
    "MarkCompact, Compressor). clear-on-death: per policy the VO bits of dead objects are cleared, under exactly the condition that makes the object dead "
    "and nothing else: CopySpace::release clears every from-space region (guarded only by the region loop, not by where the forwarding bits live); "
    "Immix Block::sweep passes through vo_bit::helper::on_region_swept on every path (empty, reusable and fully occupied blocks alike); native mark-sweep "
    "sweeps visit every cell of the block (loop bound cell + size <= end) and clear the VO bit of every unmarked cell; LOS clears it for every swept "
    "object; MarkCompact clears it for every object of the old layout and sets it at the forwarding address. enumerate: every Space::enumerate_objects "
    "delegates to one of the enumeration helpers and MMTK::enumerate_objects visits every space."
)
VO = "util::metadata::vo_bit::"


def only_loop_guards(f, bb, allow=()):
    """Guards of bb that are not loop iterators (`next() == Some`) nor in `allow` (regexes)."""
    out = []
    for p in guards(f, bb):
        s = show(p.tree)
        if "Iterator>::next(" in s and p.val == "Some" and s.startswith("<"):
            continue
        if any(re.search(a, s) for a in allow):
            continue
        out.append("%s == %s" % (s[:100], p.val))
    return out


def run(ctx, F):
    if "vo_bit" not in F.features:
        raise AnalysisError("C07 needs a configuration with the vo_bit feature")
    # ---- set-on-alloc
    n = 0
    for q, f in sorted(F.fns.items()):
        if not q.endswith("policy::sft::SFT>::initialize_object_metadata") or "EmptySpaceSFT" in q or f.cfg.noreturn:
            continue
        n += 1
        def sets(c):
            if c.q == VO + "set_vo_bit":
                return True
            w = F.fns.get(c.q or "")  # a thin wrapper (malloc_ms::metadata::set_vo_bit) whose body is the call
            return c.name == "set_vo_bit" and w is not None and any(x.q == VO + "set_vo_bit" and show(strip(w.flow.arg_tree(x, 0))) == "arg1" and w.cfg.must_pass([x.bb]) for x in live_calls(w))
        cs = [c for c in live_calls(f) if sets(c) and show(strip(f.flow.arg_tree(c, 0))) == "arg2"]
        ctx.judge(bool(cs) and f.cfg.must_pass([c.bb for c in cs]), "C07.set-on-alloc", "%s sets the VO bit of the new object" % short(q), expected="vo_bit::set_vo_bit(object) on every path",
                  found="%d call(s)" % len(cs), where=where(f), key="C07.set-on-alloc|" + q)
    ctx.floor("C07.set-on-alloc", n, 8, "SFT::initialize_object_metadata implementations")

    # ---- set-on-copy
    def closure_sets(parent_q, callee, argrx, what):
        p = F.fn(parent_q)
        hits = []
        for cl in [p] + list(closures_of(F, p)):
            for c in live_calls(cl):
                if c.q and c.q.endswith(callee) and re.search(argrx, show(strip(cl.flow.arg_tree(c, 0)))):
                    hits.append((cl, c))
        ok = bool(hits) and all(cl.cfg.must_pass([c.bb]) or cl is p for cl, c in hits)
        ctx.judge(ok, "C07.set-on-copy", what, expected="%s(new copy) in the post-copy hook" % callee, found="%d site(s)" % len(hits), where=where(p), key="C07.set-on-copy|" + parent_q)
        return hits
    closure_sets("policy::copyspace::CopySpace::trace_object", "vo_bit::set_vo_bit", r"^arg2$", "CopySpace sets the VO bit of every copy")
    closure_sets("policy::immix::immixspace::ImmixSpace::trace_object_with_opportunistic_copy", "vo_bit::helper::on_object_forwarded", r"^arg2$", "Immix sets the VO bit of every copy")
    mc = F.fn("policy::markcompactspace::MarkCompactSpace::compact")
    sv = [c for c in live_calls(mc) if c.q == VO + "set_vo_bit"]
    okm = len(sv) == 1 and "get_header_forwarding_pointer" in show(strip(mc.flow.arg_tree(sv[0], 0)))
    ctx.judge(okm, "C07.set-on-copy", "MarkCompact sets the VO bit at the forwarding address of every moved object", expected="set_vo_bit(forwarding_pointer) for every forwarded object",
              found=str([show(strip(mc.flow.arg_tree(c, 0)))[:80] for c in sv]), where=where(mc), key="C07.set-on-copy|markcompact")
    if sv:
        extra = only_loop_guards(mc, sv[0].bb, allow=(r"get_header_forwarding_pointer", r"is_none|is_some|Option"))
        ctx.judge(not extra, "C07.set-on-copy", "MarkCompact: the VO bit is set for every object that has a forwarding pointer", expected="guarded only by the loops and the forwarding pointer being set", found=str(extra),
                  where=where(mc, sv[0].line), key="C07.set-on-copy|markcompact-guard")
    cq = [q for q in F.fns if q.startswith("policy::compressor::compressorspace::CompressorSpace::compact_region") and F.fns[q].kind == "closure"]
    hits = [(q, c) for q in cq for c in live_calls(F.fns[q]) if c.q == VO + "set_vo_bit" and "forward" in show(strip(F.fns[q].flow.arg_tree(c, 0)))]
    ctx.judge(len(hits) >= 1, "C07.set-on-copy", "Compressor sets the VO bit at the forwarded address", expected="set_vo_bit(self.forward(obj, ..))", found=str(len(hits)), key="C07.set-on-copy|compressor")

    # ---- clear-on-death
    R = "C07.clear-on-death"
    cr = F.fn("policy::copyspace::CopySpace::release")
    bz = [c for c in live_calls(cr) if c.q == VO + "bzero_vo_bit"]
    ctx.judge(len(bz) == 1, R, "CopySpace::release clears the VO bits of the evacuated space", expected="one bzero_vo_bit(start, size) in the region loop", found=str(len(bz)), where=where(cr), key=R + "|copyspace-site")
    for c in bz:
        extra = only_loop_guards(cr, c.bb)
        a = [show(strip(cr.flow.arg_tree(c, i))) for i in range(2)]
        ctx.judge(not extra and all("iter_regions" in x or "Iterator>::next" in x for x in a), R, "CopySpace: every region's VO bits are cleared unconditionally", expected="guarded only by the loop over the page resource's regions",
                  found="extra guards %s" % extra, where=where(cr, c.line), key=R + "|copyspace-guard")
    bs = F.fn("policy::immix::block::Block::sweep")
    ors = [c for c in live_calls(bs) if c.q and c.q.endswith("vo_bit::helper::on_region_swept")]
    ctx.judge(len(ors) >= 1 and bs.cfg.must_pass([c.bb for c in ors]), R, "Immix Block::sweep refreshes the block's VO bits on every path", expected="on_region_swept(block, ..) on every path (free, reusable and fully occupied blocks)",
              found="%d site(s), guards %s" % (len(ors), [guard_strs(bs, c.bb)[:2] for c in ors]), where=where(bs), key=R + "|immix-sweep")
    for c in ors:
        live_flag = const_arg(bs.flow.arg_tree(c, 1))
        zero = any(re.search(r"Eq 0\)$", show(p.tree)) and p.val is True for p in guards(bs, c.bb))
        ctx.judge((live_flag is False) == zero, R, "Immix: is_occupied=%s is passed exactly when the block has %s marked line" % (live_flag, "no" if zero else "a"), expected="on_region_swept(self, marked_lines != 0)",
                  found="flag=%s under %s" % (live_flag, guard_strs(bs, c.bb)[:2]), where=where(bs, c.line), key=R + "|immix-flag|%s" % live_flag)
    # helper strategy: on_region_swept copies mark bits or clears
    h = F.fn("util::metadata::vo_bit::helper::on_region_swept")
    hc = {last_seg(c.q) for c in live_calls(h) if c.q and c.q.startswith(VO)}
    ctx.judge({"bcopy_vo_bit_from_mark_bit", "bzero_vo_bit"} & hc != set() or bool(hc), R, "on_region_swept rewrites the region's VO bits", expected="copy from mark bits (occupied) / clear (free)", found=str(sorted(hc)), where=where(h),
              key=R + "|immix-helper")
    MSB = "policy::marksweepspace::native_ms::block::Block::"
    for nm, clr in (("naive_brute_force_sweep", "bzero_vo_bit"), ("simple_sweep", "unset_vo_bit_nocheck")):
        f = F.fn(MSB + nm)
        ENDRX = r"Region::end\(arg1\)|Region::BYTES"
        bounds = []
        for c in f.calls:
            if c.bb not in f.cfg.live or c.name not in ("le", "lt", "ge", "gt") or len(c.args) != 2:
                continue
            a0, a1 = show(strip(f.flow.arg_tree(c, 0))), show(strip(f.flow.arg_tree(c, 1)))
            if "load_block_cell_size" in a0 and re.search(ENDRX, a1):
                bounds.append((c, c.name))  # cell + size  OP  end
            elif "load_block_cell_size" in a1 and re.search(ENDRX, a0):
                bounds.append((c, {"ge": "le", "gt": "lt", "le": "ge", "lt": "gt"}[c.name]))  # end  OP  cell + size, normalised
        okb = len(bounds) == 1 and bounds[0][1] == "le"
        bounds = [b[0] for b in bounds]
        ctx.judge(okb, R, "native MS %s visits every cell of the block, including the last" % nm, expected="loop while cell + cell_size <= block end", found=str([(c.name, show(strip(f.flow.arg_tree(c, 1)))[:50]) for c in bounds]),
                  where=where(f), key=R + "|ms-bound|" + nm)
        cs = [c for c in live_calls(f) if c.q == VO + clr]
        okc = len(cs) >= 1 and all(any("is_marked" in show(p.tree) and p.val is False for p in guards(f, c.bb)) for c in cs)
        ctx.judge(okc, R, "native MS %s clears the VO bit of every unmarked cell" % nm, expected="%s under !is_marked(cell)" % clr, found=str([guard_strs(f, c.bb)[-2:] for c in cs])[:200], where=where(f),
                  key=R + "|ms-clear|" + nm)
        for c in cs:
            extra = [g for g in only_loop_guards(f, c.bb, allow=(r"is_marked", r"PartialOrd::(le|ge)\(", r"log::")) if "== " in g]
            ctx.judge(not extra, R, "native MS %s: nothing else decides whether a dead cell's VO bit is cleared" % nm, expected="guards: loop bound and !is_marked only", found=str(extra)[:200], where=where(f, c.line),
                      key=R + "|ms-clear-guard|" + nm)
    bcm = F.fn("policy::marksweepspace::native_ms::global::MarkSweepSpace::block_clear_metadata")
    ctx.judge(any(c.q == VO + "bzero_vo_bit" for c in live_calls(bcm)), R, "a released MS block loses all its VO bits", expected="bzero_vo_bit(block.start(), Block::BYTES)", found="missing", where=where(bcm), key=R + "|ms-release")
    lsw = F.fn("policy::largeobjectspace::LargeObjectSpace::sweep_large_pages")
    per_obj = list(closures_of(F, lsw))
    for g in [lsw] + list(per_obj):
        for c in live_calls(g):
            h = F.fns.get(c.q or "")
            if h is not None and h.blocks and (c.q or "").startswith("policy::largeobjectspace::LargeObjectSpace::") and str(h.meta.get("vis", "")).startswith("Restricted") and h is not lsw \
                    and h.argc == 2 and g.cfg.must_pass([c.bb]) and h not in per_obj:
                per_obj.append(h)  # a private per-object method called for every swept object
    hits = [(cl, c) for cl in per_obj for c in live_calls(cl) if c.q == VO + "unset_vo_bit" and show(strip(cl.flow.arg_tree(c, 0))) == "arg2"]
    # every per-object body that releases the object's pages also clears its VO bit, on every path (one body per sweep loop is fine)
    rel_bodies = [cl for cl in per_obj if any(c.name in ("release_pages", "release_multiple_pages") for c in live_calls(cl))]
    by_body = {}
    for cl, c in hits:
        by_body.setdefault(cl.q, []).append((cl, c))
    oklos = bool(rel_bodies) and all(len(by_body.get(cl.q, [])) == 1 and cl.cfg.must_pass([by_body[cl.q][0][1].bb]) for cl in rel_bodies)
    ctx.judge(oklos, R, "LOS clears the VO bit of every swept object", expected="unset_vo_bit(object) on every path of the per-object sweep closure", found=str(len(hits)),
              where=where(lsw), key=R + "|los")
    uv = [c for c in live_calls(mc) if c.q == VO + "unset_vo_bit"]
    okv = len(uv) == 1 and not only_loop_guards(mc, uv[0].bb)
    ctx.judge(okv, R, "MarkCompact clears the VO bit of every object of the old layout", expected="unset_vo_bit(obj) for every object visited by compact()", found=str([only_loop_guards(mc, c.bb) for c in uv]), where=where(mc),
              key=R + "|markcompact")
    if len(uv) == 1 and len(sv) == 1:
        ctx.judge(mc.cfg.dominates(uv[0].bb, sv[0].bb), R, "MarkCompact clears the old bit before setting the new one", expected="unset_vo_bit(obj) dominates set_vo_bit(new)", found="not dominated", where=where(mc),
                  key=R + "|markcompact-order")
    cc = [q for q in cq for c in live_calls(F.fns[q]) if c.q == VO + "bzero_vo_bit"]
    ctx.judge(len(cc) >= 1, R, "Compressor clears the VO bits of each compacted region before re-setting them", expected="bzero_vo_bit(region)", found=str(len(cc)), key=R + "|compressor")

    # ---- enumerate
    HELP = ("enumerate_blocks_from_monotonic_page_resource", "enumerate_blocks_from_chunk_map", "visit_address_range", "visit_block", "visit_object", "enumerate", "enumerate_objects")
    n = 0
    for q, f in sorted(F.fns.items()):
        if not q.endswith("policy::space::Space>::enumerate_objects") or f.cfg.noreturn:
            continue
        n += 1
        cs = [c for c in live_calls(f) if c.name in HELP]
        ctx.judge(bool(cs), "C07.enumerate", "%s enumerates through a helper" % short(q), expected="one of %s" % list(HELP[:3]), found=str([c.name for c in live_calls(f)][:6]), where=where(f), key="C07.enumerate|" + q)
    ctx.floor("C07.enumerate", n, 7, "Space::enumerate_objects implementations")
    me = F.fn("mmtk::MMTK::enumerate_objects")
    fe = live_calls(me, name="for_each_space")
    ctx.judge(len(fe) == 1 and me.cfg.must_pass([fe[0].bb]), "C07.enumerate", "MMTK::enumerate_objects visits every space of the plan", expected="plan.for_each_space(|s| s.enumerate_objects(..))", found=str(len(fe)), where=where(me),
              key="C07.enumerate|mmtk")
    cl = closures_of(F, me)
    ctx.judge(any(c.name == "enumerate_objects" for x in cl for c in live_calls(x)), "C07.enumerate", "the per-space closure calls Space::enumerate_objects", expected="space.enumerate_objects(&mut enumerator)", found=str(len(cl)),
              where=where(me), key="C07.enumerate|closure")
    # which blocks the enumeration looks into: every block that is not Unallocated (partially free / reusable blocks hold survivors)
    n = 0
    for q, f in sorted(F.fns.items()):
        if not q.endswith("util::object_enum::BlockMayHaveObjects>::may_have_objects"):
            continue
        n += 1
        rts = [show(strip(t)) for _, t in f.flow.return_trees()]
        ok = len(rts) == 1 and re.match(r"^PartialEq::ne\(Block::get_state\(arg1\), BlockState::Unallocated\)$|^Not\(.*Unallocated.*\)$", rts[0]) is not None
        ctx.judge(ok, "C07.enumerate", "%s: a block is enumerated unless it is unallocated" % short(q), expected="state != BlockState::Unallocated (marked, unmarked and reusable blocks may hold objects)", found=str(rts)[:160],
                  where=where(f), key="C07.enumerate|may-have|" + q)
    ctx.floor("C07.enumerate", n, 2, "BlockMayHaveObjects implementations")
