"""Bit-field isolation: an abstract interpretation of the byte (or word) expressions that the metadata accessors write back.

Abstract value of an expression = what it holds in the bits OUTSIDE the field's mask:
    RAW   the bits of the byte that was read (so writing it back keeps the neighbouring fields)
    ZERO  all zero          ONES  all one          ANY  unknown
and a second predicate FIT for field values ("fits in the field's width"): the caller's value (documented precondition,
debug-asserted by the accessors), an extracted field ((b & mask) >> shift), or an explicitly truncated value.

Transfer functions:  x & y, x | y, !x by the obvious tables;  FIT << shift  = ZERO (the shifted value stays inside the mask);
anything-else << shift = ANY;  set_bits_to_u8(raw, FIT) = state(raw) (the helper's own body is checked with the same domain).
Requirements:  a byte stored / CAS-ed / returned by an update closure must be RAW;  the operand of an atomic AND must be ONES;
of an atomic OR must be ZERO.  This decides "an update of one field leaves the other fields of the same byte unchanged" for all
values and all neighbours, which no finite set of tests can."""
import re
from .common import *
from ..engine import AnalysisError, show, strip, short, walk, last_seg

RAW, ZERO, ONES, ANY = "RAW", "ZERO", "ONES", "ANY"


def _and(a, b):
    if ZERO in (a, b):
        return ZERO
    if a == ONES:
        return b
    if b == ONES:
        return a
    if a == b == RAW:
        return RAW
    return ANY


def _or(a, b):
    if ONES in (a, b):
        return ONES
    if a == ZERO:
        return b
    if b == ZERO:
        return a
    if a == b == RAW:
        return RAW
    return ANY


def _not(a):
    return {ZERO: ONES, ONES: ZERO}.get(a, ANY)


def upvar_tree(F, cl, name):
    """(parent fn, tree) of the captured variable `name` of closure `cl` at the point the closure is built."""
    p = F.fns.get(cl.meta.get("parent", ""))
    if p is None:
        return None, None
    idx = None
    for k, v in cl.flow.upvar_names.items():
        if v == name:
            try:
                idx = int(k.lstrip("."))
            except ValueError:
                idx = None
    if idx is None:
        return None, None
    for (i, j, q, ops, dst) in p.closures_built():
        if q == cl.q and idx < len(ops):
            return p, strip(p.flow.operand_tree(ops[idx], i, j))
    return None, None


class Iso:
    """flavour 'side' or 'header' selects the frozen mask/shift idioms of that file."""

    def __init__(self, F, fn, flavour, raw_arg=None, trusted_plain=()):
        self.F, self.fn, self.flavour = F, fn, flavour
        self.raw_arg = raw_arg
        self.trusted_plain = set(trusted_plain)
        self.trace = []

    # ---- idioms
    def resolve(self, t, fn=None):
        """Look through casts/unwrap/to_u8 wrappers and captured variables."""
        fn = fn or self.fn
        t = strip(t)
        seen = 0
        while t and seen < 12:
            seen += 1
            if t[0] == "cast":
                t = strip(t[2])
                continue
            if t[0] == "upvar" and fn.kind == "closure":
                p, u = upvar_tree(self.F, fn, t[1])
                if p is None or u is None:
                    return fn, t
                fn, t = p, u
                continue
            # projections of a tuple that was only built to be matched on: (a, b).1 -> b ; ((a, b).1 as Some).0 keeps its shape
            if t[0] == "field" and str(t[2]).isdigit():
                inner = strip(t[1])
                if inner and inner[0] == "agg" and inner[1][0] == "tuple" and int(t[2]) < len(inner[2]):
                    t = strip(inner[2][int(t[2])])
                    continue
                if inner and inner[0] == "variant":
                    fn2, base = self.resolve(inner[1], fn)
                    if base is not strip(inner[1]) and base != strip(inner[1]):
                        t = ("field", ("variant", base, inner[2]), t[2])
                        fn = fn2
                        continue
            break
        return fn, t

    def is_mask(self, t, fn=None):
        fn, t = self.resolve(t, fn)
        if not t:
            return False
        if self.flavour == "side":
            # meta_byte_mask(self) << meta_byte_lshift(self, data_addr)
            if t[0] == "bin" and t[1] == "Shl":
                _, l = self.resolve(t[2], fn)
                return bool(l) and l[0] == "call" and last_seg(l[2] or l[1]) == "meta_byte_mask" and self.is_shift(t[3], fn)
            return False
        # header: get_shift_and_mask_for_bits(self).1, or the caller's optional mask (Some payload of a parameter named *mask*)
        if t[0] == "field" and str(t[2]) == "1":
            _, c = self.resolve(t[1], fn)
            return bool(c) and c[0] == "call" and last_seg(c[2] or c[1]) == "get_shift_and_mask_for_bits"
        if t[0] == "field" and str(t[2]) == "0" and t[1] and t[1][0] == "variant" and t[1][2] == "Some":
            _, b = self.resolve(t[1][1], fn)
            return bool(b) and b[0] == "arg" and "mask" in (fn.local_name(b[1]) or "")
        return False

    def is_shift(self, t, fn=None):
        fn, t = self.resolve(t, fn)
        if not t:
            return False
        if self.flavour == "side":
            return t[0] == "call" and last_seg(t[2] or t[1]) == "meta_byte_lshift"
        if t[0] == "field" and str(t[2]) == "0":
            _, c = self.resolve(t[1], fn)
            return bool(c) and c[0] == "call" and last_seg(c[2] or c[1]) == "get_shift_and_mask_for_bits"
        return False

    def is_raw(self, t, fn):
        if t and t[0] == "arg" and self.raw_arg is not None and (fn.q, t[1]) == self.raw_arg:
            return True
        if t and t[0] == "call" and last_seg(t[2] or t[1]) in ("load", "atomic_load", "load_atomic"):
            return True
        return False

    def fit(self, t, fn=None):
        """The value fits in the field width."""
        fn, t = self.resolve(t, fn)
        if not t:
            return False
        if t[0] == "call":
            nm = last_seg(t[2] or t[1])
            if nm in ("unwrap", "to_u8") and t[3]:
                return self.fit(t[3][-1] if nm == "unwrap" else t[3][0], fn)
            if nm in ("get_bits_from_u8", "truncate_bits_in_u8"):
                return True
            return False
        if t[0] in ("arg",):
            # the caller's metadata value: documented precondition (value < 2^bits), debug-asserted by the accessors
            # (a closure's own parameter is a computed value -- the result of an update function -- and must be clipped explicitly)
            return fn.kind != "closure"
        if t[0] == "bin" and t[1] == "Shr":
            _, inner = self.resolve(t[2], fn)
            return bool(inner) and inner[0] == "bin" and inner[1] == "BitAnd" and (self.is_mask(inner[3], fn) or self.is_mask(inner[2], fn)) and self.is_shift(t[3], fn)
        return False

    # ---- evaluation
    def ev(self, t, fn=None, depth=0):
        fn, t = self.resolve(t, fn)
        if not t or depth > 14:
            return ANY
        if self.is_raw(t, fn):
            return RAW
        if self.is_mask(t, fn):
            return ZERO
        k = t[0]
        if k == "const":
            v = t[2]
            if v == 0:
                return ZERO
            if v == 255 and t[1] == "u8":
                return ONES
            return ANY
        if k == "un" and t[1] == "Not":
            return _not(self.ev(t[2], fn, depth + 1))
        if k == "bin":
            if t[1] == "BitAnd":
                return _and(self.ev(t[2], fn, depth + 1), self.ev(t[3], fn, depth + 1))
            if t[1] == "BitOr":
                return _or(self.ev(t[2], fn, depth + 1), self.ev(t[3], fn, depth + 1))
            if t[1] in ("Shl", "ShlUnchecked"):
                return ZERO if (self.fit(t[2], fn) and self.is_shift(t[3], fn)) else ANY
            return ANY
        if k == "call":
            nm = last_seg(t[2] or t[1])
            a = t[3]
            if nm in ("inv", "not") and len(a) == 1:
                return _not(self.ev(a[0], fn, depth + 1))
            if nm == "bitand" and len(a) == 2:
                return _and(self.ev(a[0], fn, depth + 1), self.ev(a[1], fn, depth + 1))
            if nm == "bitor" and len(a) == 2:
                return _or(self.ev(a[0], fn, depth + 1), self.ev(a[1], fn, depth + 1))
            if nm == "set_bits_to_u8" and len(a) == 3:
                return self.ev(a[1], fn, depth + 1) if self.fit(a[2], fn) else ANY
            return ANY
        if k == "phi":
            ss = {self.ev(x, fn, depth + 1) for x in t[1]}
            return ss.pop() if len(ss) == 1 else ANY
        if k == "arg" and fn is self.fn and t in self.trusted_plain:
            return ZERO
        return ANY

    def mentions_mask(self, t):
        for s in walk(strip(t)):
            if s and s[0] in ("bin", "field", "upvar") and self.is_mask(s):
                return True
        return False


def alternatives(t):
    """Alternative definitions of a value; a projection of a phi of tuples is distributed over the alternatives."""
    t = strip(t)
    if t and t[0] == "phi":
        out = []
        for a in t[1]:
            out += alternatives(a)
        return out
    if t and t[0] == "field" and str(t[2]).isdigit():
        inner = strip(t[1])
        if inner and inner[0] == "phi":
            out = []
            for a in inner[1]:
                a = strip(a)
                if a and a[0] == "agg" and a[1][0] == "tuple" and int(t[2]) < len(a[2]):
                    out += alternatives(a[2][int(t[2])])
                else:
                    out.append(("field", a, t[2]))
            return out
        if inner and inner[0] == "agg" and inner[1][0] == "tuple" and int(t[2]) < len(inner[2]):
            return alternatives(inner[2][int(t[2])])
    return [t]


def closure_of(F, tree):
    cs = [s for s in walk(strip(tree)) if s and s[0] == "agg" and s[1][0] == "closure" and s[1][1] in F.fns]
    return F.fns[cs[0][1][1]] if len(cs) == 1 else None


def rmw_results(F, c0):
    """(fn, value tree) of every byte a read-modify-write closure may hand back: Some(v) payloads, and the results of a
    closure mapped over an Option (`f(old).map(|new| merge(raw, new))`)."""
    out = []
    for r, t in c0.flow.return_trees():
        for a in alternatives(t):
            a = strip(a)
            if a and a[0] == "agg" and a[1][0] == "adt" and a[1][2] == "Some" and a[2]:
                out.append((c0, a[2][0]))
            elif a and a[0] == "agg" and a[1][0] == "adt" and a[1][2] == "None":
                continue
            elif a and a[0] == "call" and last_seg(a[2] or a[1]) == "map" and len(a[3]) == 2 and closure_of(F, a[3][1]) is not None:
                c1 = closure_of(F, a[3][1])
                for r1, t1 in c1.flow.return_trees():
                    out.append((c1, t1))
            else:
                out.append((c0, a))
    return out


def check_helpers(ctx, F, rule, flavour):
    """The frozen idioms themselves: the mask is field-width ones shifted by the SAME shift the value is shifted by."""
    if flavour == "header":
        P = "util::metadata::header_metadata::HeaderMetadataSpec::"
        g = F.fn(P + "get_shift_and_mask_for_bits")
        rt = [strip(t) for _, t in g.flow.return_trees()]
        ok = len(rt) == 1 and rt[0] and rt[0][0] == "agg" and len(rt[0][2]) == 2
        found = str([show(x)[:160] for x in rt])
        if ok:
            sh, mk = strip(rt[0][2][0]), strip(rt[0][2][1])
            ok = mk and mk[0] == "bin" and mk[1] == "Shl" and show(strip(mk[3])) == show(sh) and show(strip(mk[2])) == "((1 Shl arg1.num_of_bits) Sub 1)"
        ctx.judge(ok, rule, "header mask = ((1 << num_of_bits) - 1) << the shift that is returned with it", expected="(bit_shift, ((1 << n) - 1) << bit_shift)", found=found, where=where(g),
                  key=rule + "|idiom|mask")
        s = F.fn(P + "set_bits_to_u8")
        iso = Iso(F, s, "header", raw_arg=(s.q, 2))
        rt = [strip(t) for _, t in s.flow.return_trees()]
        ctx.judge(len(rt) == 1 and iso.ev(rt[0]) == RAW, rule, "set_bits_to_u8(raw, v) keeps the bits of raw outside the field", expected="(raw & !mask) | (v << shift) with v fitting the field",
                  found=str([show(x)[:160] for x in rt]), where=where(s), key=rule + "|idiom|set_bits")
        tr = F.fn(P + "truncate_bits_in_u8")
        rt = [show(strip(t)) for _, t in tr.flow.return_trees()]
        ctx.judge(rt == ["(arg2 BitAnd ((1 Shl arg1.num_of_bits) Sub 1))"], rule, "truncate_bits_in_u8 clips to the field width", expected="val & ((1 << num_of_bits) - 1)", found=str(rt), where=where(tr),
                  key=rule + "|idiom|truncate")
        gb = F.fn(P + "get_bits_from_u8")
        rt = [strip(t) for _, t in gb.flow.return_trees()]
        iso = Iso(F, gb, "header", raw_arg=(gb.q, 2))
        ctx.judge(len(rt) == 1 and iso.fit(rt[0]), rule, "get_bits_from_u8 extracts the field with the same mask and shift", expected="(raw & mask) >> shift", found=str([show(x)[:120] for x in rt]), where=where(gb),
                  key=rule + "|idiom|get_bits")
    else:
        m = F.fn("util::metadata::side_metadata::helpers::meta_byte_mask")
        rt = [show(strip(t)) for _, t in m.flow.return_trees()]
        ctx.judge(rt == ["(((1 Shl (1 Shl arg1.log_num_of_bits)) Sub 1) as _)"], rule, "side mask (unshifted) is 2^bits - 1", expected="(1 << (1 << log_num_of_bits)) - 1", found=str(rt), where=where(m),
                  key=rule + "|idiom|mask")


def check_isolation(ctx, F, rule, prefix, flavour, trusted=None):
    """Enumerate every write-back site of the accessors under `prefix` and require its abstract value."""
    fs = [f for q, f in sorted(F.fns.items()) if q.startswith(prefix) and "::tests::" not in q]
    n = 0
    trusted = trusted or {}
    WANT = {RAW: "those of the byte that was read", ONES: "all one (AND keeps the neighbours)", ZERO: "all zero (OR keeps the neighbours)"}

    def judge(f, iso, v, want, what, keyx, line=None, only_masked=False):
        nonlocal n
        for a in alternatives(v):
            if only_masked and not iso.mentions_mask(a):
                continue  # the full-width path: no neighbour shares the location
            n += 1
            got = iso.ev(a, f)
            ctx.judge(got == want, rule, "%s: %s" % (short(f.q), what), expected="bits outside the field's mask are %s" % WANT[want],
                      found="%s  [abstract value %s]" % (show(a)[:200], got), where=where(f, line), key="%s|%s|%s" % (rule, keyx, f.q))

    for f in fs:
        tp = trusted.get(last_seg(f.q), ()) if f.kind != "closure" else ()
        for c in live_calls(f):
            nm = c.name
            isu8 = bool(c.ga) and c.ga[0] == "u8"
            mv = bool(c.q) and "MetadataValue" in c.q
            if nm in ("fetch_and", "fetch_or") and mv and isu8:
                judge(f, Iso(F, f, flavour), f.flow.arg_tree(c, 1), ONES if nm == "fetch_and" else ZERO, "operand of the atomic %s on the shared byte" % nm[6:].upper(), nm, c.line)
            elif c.q == "util::address::Address::store" and isu8:
                judge(f, Iso(F, f, flavour), f.flow.arg_tree(c, 1), RAW, "byte stored back", "store", c.line)
            elif c.q == "util::address::Address::compare_exchange" and any("u8" in g for g in c.ga):
                for i, w in ((1, "expected"), (2, "new")):
                    judge(f, Iso(F, f, flavour), f.flow.arg_tree(c, i), RAW, "%s byte of the compare-exchange" % w, "cas-" + w, c.line)
            elif nm == "fetch_update" and mv:
                c0 = closure_of(F, f.flow.arg_tree(c, len(c.args) - 1))
                if c0 is None:
                    continue  # the caller's own update function on the full-width path
                for g, v in rmw_results(F, c0):
                    judge(g, Iso(F, g, flavour, raw_arg=(c0.q, 2)), v, RAW, "value handed back by the read-modify-write closure", "rmw", None)
            elif nm in ("store", "store_atomic", "compare_exchange") and mv and not isu8 and flavour == "header":
                # T-typed (>= 1 byte) accessors with the caller's optional mask
                for i in range(1, 3 if nm == "compare_exchange" else 2):
                    judge(f, Iso(F, f, flavour, trusted_plain=tp), f.flow.arg_tree(c, i), RAW, "masked value written by %s" % nm, "T-%s-%d" % (nm, i), c.line, only_masked=True)
    return n
