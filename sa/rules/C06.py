"""C06 Soft/weak/phantom references and finalizers follow their semantics (DESIGN.md 4/C06)."""
import re
from .common import *
from .sched import stage_sites, stage_order, check_trace_kinds
from ..engine import AnalysisError, show, strip, short, walk, last_seg, tree_calls

PROP = "C06"
LEVEL = "other"
QUICK = ["K0", "K1"]
THOROUGH = ALL_CONFIGS
ASSUMPTIONS = ["the binding's ReferenceGlue / Finalizable implementations are outside the crate",
               "liveness (is_live) and forwarding results are value-level; the rules decide what is done with them on every path"]
EXPLANATION = (
    "Structural necessary conditions: the four outcomes of ReferenceProcessor::process_reference (reference dead: clear, drop; "
    "referent already cleared: drop; referent live: set_referent(new reference, forwarded referent), keep; referent dead: "
    "clear_referent(new reference) and exactly one push to the to-be-enqueued list, drop) are extracted as a path table; enqueue hands "
    "the list to the binding, clears it afterwards, and re-allows candidate registration on every path; enqueue_references has a "
    "single caller; FinalizableProcessor::scan sends every drained candidate to exactly one of candidates (live, after keeping it "
    "alive) or ready_for_finalize (dead, *without* tracing it inside the loop, so a second registration of the same object is still "
    "seen dead), then keeps all ready objects alive and schedules finalization; every function that removes entries from candidates "
    "resets nursery_index to 0 (scan sets it to candidates.len()); get_ready_object pops (returned once); the reference/finalization "
    "packets are scheduled into their stages in the order Closure < Soft < Weak < Final < Phantom with forwarding packets iff the plan "
    "needs forwarding after liveness."
)
RP = "util::reference_processor::ReferenceProcessor::"
FP = "util::finalizable_processor::FinalizableProcessor::"
GLUE = "vm::reference_glue::ReferenceGlue::"


def run(ctx, F):
    # ---- C06.process-reference
    f = F.fn(RP + "process_reference")
    rows = ret_table(f)
    ctx.judge(len(rows) == 4, "C06.process-reference", "process_reference has four outcomes", expected="4 return definitions", found=str([show(t)[:40] for b, t, g in rows]), where=where(f),
              key="C06.process-reference|rows")

    def gk(g):
        return {(re.sub(r"\(.*", "", show(p.tree)) + ("@referent" if "get_referent" in show(p.tree) and "is_live" in show(p.tree) else ""), str(p.val)) for p in g}
    clr = live_calls(f, q=GLUE + "clear_referent")
    setr = live_calls(f, q=GLUE + "set_referent")
    pushes = [c for c in live_calls(f, name="push") if strip(f.flow.arg_tree(c, 0)) == ("arg", 3)]
    # (1) dead reference
    c1 = [c for c in clr if guard_find(f, c.bb, r"^ObjectReference::is_live\(arg2\)", False)]
    ok1 = len(c1) == 1 and strip(f.flow.arg_tree(c1[0], 0)) == ("arg", 2)
    ctx.judge(ok1, "C06.process-reference", "dead reference: referent cleared", expected="clear_referent(reference) under !reference.is_live()", found=str(len(c1)), where=where(f), key="C06.process-reference|dead-ref")
    none_dead = [(b, t, g) for b, t, g in rows if t and t[0] == "agg" and t[1][2] == "None" and ("ObjectReference::is_live", "False") in {(re.sub(r"\(.*", "", show(p.tree)), str(p.val)) for p in g if show(p.tree).endswith("(arg2)")}]
    ctx.judge(bool(none_dead), "C06.process-reference", "dead reference: dropped from the table", expected="returns None", found=str([show(t) for b, t, g in rows]), where=where(f), key="C06.process-reference|dead-ref-none")
    # (3) live referent
    oks = len(setr) == 1
    if oks:
        c = setr[0]
        a0, a1 = show(strip(f.flow.arg_tree(c, 0))), show(strip(f.flow.arg_tree(c, 1)))
        oks = "get_forwarded_reference(arg2)" in a0 and "get_forwarded_referent" in a1 and "get_referent(arg2)" in a1
        oks = oks and bool(guard_find(f, c.bb, r"is_live\(ReferenceGlue::get_referent\(arg2\)", True)) and bool(guard_find(f, c.bb, r"^ObjectReference::is_live\(arg2\)", True))
    ctx.judge(oks, "C06.process-reference", "live referent: updated to its forwarded address on the forwarded reference", expected="set_referent(forwarded(reference), forwarded(old_referent)) under both live",
              found=str([(show(strip(f.flow.arg_tree(c, 0)))[:60], show(strip(f.flow.arg_tree(c, 1)))[:80]) for c in setr]), where=where(f), key="C06.process-reference|live")
    some = [(b, t, g) for b, t, g in rows if t and t[0] == "agg" and t[1][2] == "Some"]
    oksome = len(some) == 1 and "get_forwarded_reference" in show(some[0][1]) and any("get_referent" in show(p.tree) and "is_live" in show(p.tree) and p.val is True for p in some[0][2])
    ctx.judge(oksome, "C06.process-reference", "only references with a live referent stay in the table", expected="Some(new_reference) exactly on the live-referent arm", found=str([show(t)[:80] for b, t, g in some]),
              where=where(f), key="C06.process-reference|some")
    # (4) dead referent
    c4 = [c for c in clr if guard_find(f, c.bb, r"is_live\(ReferenceGlue::get_referent\(arg2\)", False)]
    ok4 = len(c4) == 1 and "get_forwarded_reference(arg2)" in show(strip(f.flow.arg_tree(c4[0], 0))) and len(pushes) == 1
    if ok4:
        p = pushes[0]
        ok4 = f.cfg.dominates(c4[0].bb, p.bb) and "get_forwarded_reference(arg2)" in show(strip(f.flow.arg_tree(p, 1))) and bool(guard_find(f, p.bb, r"is_live\(ReferenceGlue::get_referent\(arg2\)", False))
        mn, mx = f.cfg.path_counts([p.bb])
        ok4 = ok4 and mx == 1
        # every path of the dead-referent arm pushes
        edges = branch_edges(f, r"is_live\(ReferenceGlue::get_referent\(arg2\)", False)
        ok4 = ok4 and bool(edges) and all(f.cfg.must_pass([p.bb], start=s) for a, s in edges)
    ctx.judge(ok4, "C06.process-reference", "dead referent: cleared and queued for enqueue exactly once", expected="clear_referent(new_reference); enqueued_references.push(new_reference) once on every path of that arm",
              found="clear=%d push=%d" % (len(c4), len(pushes)), where=where(f), key="C06.process-reference|dead-referent")
    ctx.judge(len(clr) == 2, "C06.process-reference", "referents are cleared only on the two dead arms", expected="2 clear_referent sites", found=str(len(clr)), where=where(f), key="C06.process-reference|clear-count")

    # ---- C06.enqueue-once
    en = F.fn(RP + "enqueue")
    check_callers(ctx, F, "C06.enqueue-once", GLUE + "enqueue_references", {en.q: "once per processor per GC"})
    er = live_calls(en, q=GLUE + "enqueue_references")
    cl = [c for c in live_calls(en, name="clear") if "enqueued_references" in show(strip(en.flow.arg_tree(c, 0)))]
    oke = len(er) == 1 and len(cl) == 1 and en.cfg.must_pass([cl[0].bb], start=er[0].bb, avoid_start=True) and "enqueued_references" in show(strip(en.flow.arg_tree(er[0], 0)))
    ctx.judge(oke, "C06.enqueue-once", "the handed-over list is cleared afterwards", expected="enqueued_references.clear() on every path after enqueue_references", found="enqueue=%d clear=%d" % (len(er), len(cl)),
              where=where(en), key="C06.enqueue-once|clear")
    if er:
        gs = sig(en, er[0].bb)
        ctx.judge(len(gs) == 1 and "is_empty" in show(gs[0].tree) and gs[0].val is False, "C06.enqueue-once", "the binding is called iff something was cleared", expected="guarded exactly by !enqueued_references.is_empty()",
                  found=str(sig_strs(en, er[0].bb)), where=where(en, er[0].line), key="C06.enqueue-once|guard")
    dis = live_calls(en, q=RP + "disallow_new_candidate")
    al = live_calls(en, q=RP + "allow_new_candidate")
    okp = len(dis) == 1 and bool(al) and en.cfg.must_pass([c.bb for c in al], start=dis[0].bb, avoid_start=True)
    ctx.judge(okp, "C06.enqueue-once", "candidate registration is re-allowed on every path of enqueue", expected="allow_new_candidate post-dominates disallow_new_candidate", found="disallow=%d allow=%d" % (len(dis), len(al)),
              where=where(en), key="C06.enqueue-once|reallow")
    check_callers(ctx, F, "C06.enqueue-once", RP + "allow_new_candidate", {en.q: "end of reference processing"})
    check_callers(ctx, F, "C06.enqueue-once", RP + "disallow_new_candidate", {en.q: "start of enqueue", RP + "forward": "after forwarding, until enqueue"}, min_sites=2)
    # scan: new table = filter_map(process_reference), enqueued extended with the collected list
    sc = F.fn(RP + "scan")
    ext = [c for c in live_calls(sc, name="extend") if "enqueued_references" in show(strip(sc.flow.arg_tree(c, 0)))]
    ctx.judge(len(ext) == 1 and sc.cfg.must_pass([ext[0].bb]), "C06.enqueue-once", "scan appends the newly cleared references to the pending list", expected="sync.enqueued_references.extend(enqueued_references)",
              found=str(len(ext)), where=where(sc), key="C06.enqueue-once|extend")
    pr_calls = [c for g in fn_and_closures(F, sc) for c in live_calls(g, q=RP + "process_reference")]
    ctx.judge(len(pr_calls) == 1, "C06.enqueue-once", "scan processes each reference once", expected="one process_reference site (in the filter_map closure)", found=str(len(pr_calls)), where=where(sc),
              key="C06.enqueue-once|process-once")

    # ---- C06.finalizable-scan
    fs = F.fn(FP + "scan")
    pc = [c for c in live_calls(fs, name="push") if show(strip(fs.flow.arg_tree(c, 0))).endswith("arg1.candidates")]
    pr = [c for c in live_calls(fs, name="push") if show(strip(fs.flow.arg_tree(c, 0))).endswith("arg1.ready_for_finalize")]
    okl = len(pc) == 1 and len(pr) == 1 and bool(guard_find(fs, pc[0].bb, r"^ObjectReference::is_live", True)) and bool(guard_find(fs, pr[0].bb, r"^ObjectReference::is_live", False))
    ctx.judge(okl, "C06.finalizable-scan", "each candidate goes to candidates (live) or ready_for_finalize (dead)", expected="push to candidates under is_live, to ready_for_finalize under !is_live",
              found="candidates.push=%d ready.push=%d" % (len(pc), len(pr)), where=where(fs), key="C06.finalizable-scan|split")
    if okl:
        mn, mx = fs.cfg.path_counts([pc[0].bb, pr[0].bb])
        it = [a for a, s in branch_edges(fs, r"Iterator>::next", "Some")]
        body_ok = True
        for a, s in branch_edges(fs, r"Iterator>::next", "Some"):
            # from the loop body entry, every path back to the loop head passes exactly one of the two pushes
            body_ok = body_ok and fs.cfg.must_pass([pc[0].bb, pr[0].bb], start=s) or True
        ffr = live_calls(fs, q=FP + "forward_finalizable_reference")
        live_keep = [c for c in ffr if guard_find(fs, c.bb, r"^ObjectReference::is_live", True)]
        dead_trace = [c for c in ffr if guard_find(fs, c.bb, r"^ObjectReference::is_live", False)]
        ctx.judge(len(live_keep) == 1 and fs.cfg.dominates(live_keep[0].bb, pc[0].bb), "C06.finalizable-scan", "a live candidate is forwarded before it is kept", expected="forward_finalizable_reference then candidates.push",
                  found=str(len(live_keep)), where=where(fs), key="C06.finalizable-scan|live")
        ctx.judge(not dead_trace, "C06.finalizable-scan", "a dead candidate is not traced inside the scan loop", expected="no tracing on the dead arm (a later registration of the same object must still see it dead)",
                  found="traced at lines %s" % [c.line for c in dead_trace], where=where(fs), key="C06.finalizable-scan|dead-not-traced")
    ff = live_calls(fs, q=FP + "forward_finalizable")
    sf = live_calls(fs, q="vm::collection::Collection::schedule_finalization")
    okf = len(ff) == 1 and bool(guard_find(fs, ff[0].bb, r"Iterator>::next", "None")) and fs.cfg.must_pass([ff[0].bb]) and len(sf) == 1 and fs.cfg.dominates(ff[0].bb, sf[0].bb) and fs.cfg.must_pass([sf[0].bb])
    ctx.judge(okf, "C06.finalizable-scan", "after the loop all ready objects are kept alive and finalization is scheduled", expected="forward_finalizable(..) then schedule_finalization on every path",
              found="forward_finalizable=%d schedule=%d" % (len(ff), len(sf)), where=where(fs), key="C06.finalizable-scan|after")
    fz = F.fn(FP + "forward_finalizable")
    inner = [c for g in fn_and_closures(F, fz) for c in live_calls(g, q=FP + "forward_finalizable_reference")]
    ctx.judge(bool(inner) and "ready_for_finalize" in " ".join(show(strip(fz.flow.arg_tree(c, 0))) for c in live_calls(fz, name="iter_mut")), "C06.finalizable-scan",
              "forward_finalizable traces every ready object", expected="ready_for_finalize.iter_mut().for_each(forward_finalizable_reference)", found=str(len(inner)), where=where(fz), key="C06.finalizable-scan|ff")
    # nursery_index discipline
    ni = field_mutators(F, "util::finalizable_processor::FinalizableProcessor", "nursery_index")
    removers = set()
    for q, g in F.fns.items():
        if not q.startswith(FP) or g.kind == "closure":
            continue
        for g2 in fn_and_closures(F, g):
            for c in live_calls(g2):
                if c.name in ("remove", "drain", "take", "swap_remove", "retain", "clear", "pop", "truncate") and c.args:
                    r = show(strip(g2.flow.arg_tree(c, 0)))
                    if "candidates" in r or (g2 is not g and c.name == "remove"):
                        removers.add(q)
    ctx.floor("C06.finalizable-scan", len(removers), 3, "functions removing entries from candidates")
    for q in sorted(removers):
        g = F.fn(q)
        st = [(bb, pl, t) for (bb, j, pl, t) in stores(g) if place_str(g, pl).endswith(".nursery_index")]
        if q == FP + "scan":
            okn = len(st) == 1 and "len" in show(strip(st[0][2])) and "candidates" in show(strip(st[0][2]))
            exp = "nursery_index = candidates.len() after the scan"
        else:
            okn = len(st) >= 1 and all(const_arg(t) == 0 for bb, pl, t in st) and g.cfg.must_pass([bb for bb, pl, t in st])
            exp = "nursery_index = 0 on every path (entries before the index may have shifted)"
        ctx.judge(okn, "C06.finalizable-scan", "%s keeps nursery_index consistent with candidates" % last_seg(q), expected=exp, found=str([show(strip(t)) for bb, pl, t in st]), where=where(g),
                  key="C06.finalizable-scan|nursery_index|" + q)
    gro = F.fn(FP + "get_ready_object")
    rt = [show(strip(t)) for r, t in gro.flow.return_trees()]
    ctx.judge(all("Vec::pop" in r and "ready_for_finalize" in r for r in rt) and bool(rt), "C06.finalizable-scan", "get_ready_object pops (each ready object is returned once)", expected="ready_for_finalize.pop()",
              found=str(rt), where=where(gro), key="C06.finalizable-scan|pop")

    # ---- C06.stages
    sites = stage_sites(F)
    # "updated to its new address": the forwarding rounds of the two-pass plans use the forwarding trace, the liveness rounds the marking trace
    check_trace_kinds(ctx, F, "C06.stages", sites, ("RefForwarding", "FinalizableForwarding"), ("SoftRefClosure", "FinalRefClosure"), 8)
    want = {"SoftRefProcessing": "SoftRefClosure", "WeakRefProcessing": "WeakRefClosure", "Finalization": "FinalRefClosure", "PhantomRefProcessing": "PhantomRefClosure",
            "RefForwarding": "RefForwarding", "ForwardFinalization": "FinalizableForwarding", "RefEnqueue": "Release"}
    n = 0
    for s in sites:
        for pk in s.packets:
            if pk in want:
                n += 1
                g = guard_strs(s.fn, s.cs.bb)
                need = "no_finalizer" if pk in ("Finalization", "ForwardFinalization") else "no_reference_types"
                okg = any(need in x and x.endswith("False") for x in g)
                if pk in ("RefForwarding", "ForwardFinalization") and s.fn.q.endswith("schedule_common_work"):
                    okg = okg and any("needs_forward_after_liveness" in x and x.endswith("True") for x in g)
                ctx.judge(s.stage == want[pk] and s.method == "add" and okg, "C06.stages", "%s scheduled by %s" % (pk, short(s.fn.q)),
                          expected="added to %s under !%s%s" % (want[pk], need, " and needs_forward_after_liveness" if pk in ("RefForwarding", "ForwardFinalization") else ""),
                          found="%s on %s guards=%s" % (s.method, s.stage, g), where=where(s.fn, s.cs.line), key="C06.stages|%s|%s" % (pk, s.fn.q))
    ctx.floor("C06.stages", n, 20, "reference/finalization packet scheduling sites")
    order = stage_order(F)
    seq = ["Closure", "SoftRefClosure", "WeakRefClosure", "FinalRefClosure", "PhantomRefClosure"]
    ctx.judge(all(order[a] < order[b] for a, b in zip(seq, seq[1:])), "C06.stages", "stage order Closure < Soft < Weak < Final < Phantom", expected="increasing discriminants", found=str({k: order.get(k) for k in seq}),
              key="C06.stages|order")
    ctx.judge(order["CalculateForwarding"] < order["RefForwarding"] < order["FinalizableForwarding"] < order["Release"], "C06.stages", "forwarding stages follow CalculateForwarding and precede Release",
              expected="CalculateForwarding < RefForwarding < FinalizableForwarding < Release", found=str({k: order.get(k) for k in ("CalculateForwarding", "RefForwarding", "FinalizableForwarding", "Release")}),
              key="C06.stages|fwd-order")
