"""C34 Immix never hands out a line that holds a live object (partial) (DESIGN.md 4/C34)."""
import re
from .common import *
from ..engine import AnalysisError, show, strip, short, walk, last_seg

PROP = "C34"
LEVEL = "other"
QUICK = ["K0"]
THOROUGH = ALL_CONFIGS
ASSUMPTIONS = ["line-state histories over many GCs (wrap-around of the 7-bit epoch, stale marks) are value-level and not decided",
               "which objects are traced is decided under C01; that traced objects mark their lines is decided here"]
LEVEL_NOTE = ("partial: decides that the hole search skips a line whose mark equals EITHER the epoch of the last completed GC (line_unavail_state) OR the epoch of the GC in progress "
              "(line_mark_state), each read from its own field; that these epochs are written only by prepare/release in the documented way; that every Immix path that keeps an object "
              "alive marks the lines [object start, object start + size) with the current epoch; and that the block-state byte encoding is injective. The epoch arithmetic is not decided")
EXPLANATION = (
    "hole-predicate: get_next_available_lines loads unavail_state from self.line_unavail_state and current_state from self.line_mark_state; the loop that looks for the start of a hole "
    "advances while mark == unavail || mark == current (both comparisons on the same table entry) and the loop that extends the hole stops at the first entry equal to either. "
    "state-writers: line_mark_state is written only by ImmixSpace::prepare under major_gc (increment, reset to RESET_MARK_STATE above MAX_MARK_STATE); line_unavail_state only by "
    "release under major_gc with the value of line_mark_state. mark-lines: trace_object_without_moving and the kept-in-place arm of trace_object_with_opportunistic_copy reach mark_lines "
    "(directly, or at scan time through post_scan_object) and post_copy marks the lines of a copy; Line::mark_lines_for_object marks with the space's current line_mark_state "
    "(the range itself is checked under C02.extent). codec: the BlockState <-> u8 conversions map the three marker states to pairwise distinct constants outside the range used for "
    "Reusable{unavailable_lines}."
)
IX = "policy::immix::immixspace::ImmixSpace::"


def run(ctx, F):
    # ---- hole-predicate
    f = F.fn(IX + "get_next_available_lines")
    loads = {show(strip(f.flow.arg_tree(c, 0))): c for c in live_calls(f, name="load") if c.q and "Atomic" in c.q}
    ctx.judge(set(loads) == {"arg1.line_unavail_state", "arg1.line_mark_state"}, "C34.hole-predicate", "the hole search reads both epochs, each from its own field", expected="line_unavail_state.load() and line_mark_state.load()",
              found=str(sorted(loads)), where=where(f), key="C34.hole-predicate|loads")
    cmps = []
    for i, b in enumerate(f.blocks):
        if i not in f.cfg.live:
            continue
        for j, st in enumerate(b["s"]):
            if st[0] == "=" and st[2][0] == "bin" and st[2][1] in ("Eq", "Ne"):
                t = strip(f.flow.rvalue_tree(st[2], i, j))
                l, r = show(strip(t[2])), show(strip(t[3]))
                if l.startswith("MetadataByteArrayRef::get(Block::line_mark_table("):
                    which = "unavail" if "line_unavail_state" in r else "current" if "line_mark_state" in r else "?"
                    cmps.append((i, st[2][1], which, l))
    ne = [c for c in cmps if c[1] == "Ne"]
    eq = [c for c in cmps if c[1] == "Eq"]
    if not cmps:
        # the predicate "marked with either epoch" factored into a local closure |mark| mark == unavail_state || mark == current_state, used by both loops
        from .bitiso import upvar_tree
        pred = None
        for cl in closures_of(F, f):
            rows = [(show(simp(t)), [(show(simp(p.tree)), p.val) for p in g]) for b, t, g in ret_table(cl)]
            m1 = [r for r in rows if r[0] == "True" and len(r[1]) == 1 and re.match(r"^\(arg2 Eq upvar\((\w+)\)\)$", r[1][0][0]) and r[1][0][1] is True]
            m2 = [r for r in rows if re.match(r"^\(arg2 Eq upvar\((\w+)\)\)$", r[0]) and len(r[1]) == 1 and r[1][0][1] is False]
            if len(rows) == 2 and len(m1) == 1 and len(m2) == 1:
                ups = {re.match(r"^\(arg2 Eq upvar\((\w+)\)\)$", m1[0][1][0][0]).group(1), re.match(r"^\(arg2 Eq upvar\((\w+)\)\)$", m2[0][0]).group(1)}
                vals = set()
                for u in ups:
                    _, ut = upvar_tree(F, cl, u)
                    vals.add("unavail" if ut is not None and "line_unavail_state" in show(simp(ut)) else "current" if ut is not None and "line_mark_state" in show(simp(ut)) else "?")
                if vals == {"unavail", "current"}:
                    pred = cl
        if pred is not None:
            incs = []
            for i, b in enumerate(f.blocks):
                if i not in f.cfg.live:
                    continue
                for j, st in enumerate(b["s"]):
                    if st[0] == "=" and len(st[1]) == 1 and st[2][0] == "bin" and st[2][1] in ("Add", "AddUnchecked", "AddWithOverflow") and show(simp(f.flow.rvalue_tree(st[2], i, j))).endswith(" Add 1)"):
                        gs = [(show(simp(p.tree)), p.val) for p in guards(f, i)]
                        pv = [v for s_, v in gs if short(pred.q).split("::")[-1] in s_ and "GET" not in s_ and "line_mark_table" in s_]
                        incs.append((i, pv[-1] if pv else None))
            incs.sort(key=lambda x: (0 if all(f.cfg.dominates(x[0], y[0]) or x[0] == y[0] for y in incs) else 1))
            if len(incs) == 2 and incs[0][1] is True and incs[1][1] is False:
                # loop 1 advances while the line is unavailable (stops at the first line with neither epoch); loop 2 advances while it is not
                ne = [(0, "Ne", "current", "pred"), (0, "Ne", "unavail", "pred")]
                eq = [(0, "Eq", "current", "pred"), (0, "Eq", "unavail", "pred")]
    ctx.judge(sorted(c[2] for c in ne) == ["current", "unavail"] and len({c[3] for c in ne}) == 1, "C34.hole-predicate", "a hole starts at the first line marked with neither epoch",
              expected="mark != unavail_state && mark != current_state on the same entry", found=str([(c[1], c[2]) for c in ne]), where=where(f), key="C34.hole-predicate|start")
    ctx.judge(sorted(c[2] for c in eq) == ["current", "unavail"] and len({c[3] for c in eq}) == 1, "C34.hole-predicate", "a hole ends at the first line marked with either epoch",
              expected="mark == unavail_state || mark == current_state on the same entry", found=str([(c[1], c[2]) for c in eq]), where=where(f), key="C34.hole-predicate|end")
    # the result lines come from the two cursors of these loops
    rows = [(b, strip(t), g) for b, t, g in ret_table(f)]
    somes = [t for b, t, g in rows if t and t[0] == "agg" and t[1][2] == "Some"]
    ctx.judge(len(somes) >= 1 and all("Line::from" in show(t) or "line" in show(t).lower() for t in somes), "C34.hole-predicate", "the returned hole is [start cursor, end cursor)", expected="Some((start_line, end_line))",
              found=str([show(t)[:80] for t in somes]), where=where(f), key="C34.hole-predicate|ret")

    # ---- state-writers
    W = {"line_mark_state": [], "line_unavail_state": []}
    for q, g in F.fns.items():
        for c in live_calls(g):
            if c.name in ("store", "swap", "fetch_add", "fetch_sub", "fetch_update", "compare_exchange", "fetch_max", "fetch_min") and c.args:
                r = show(strip(g.flow.arg_tree(c, 0)))
                for fld in W:
                    if r.endswith("." + fld):
                        W[fld].append((g, c))
    for g, c in W["line_mark_state"]:
        okw = g.q == IX + "prepare" and any(show(p.tree) == "arg2" and p.val is True for p in guards(g, c.bb))
        v = show(strip(g.flow.arg_tree(c, 1)))
        okv = (c.name == "fetch_add" and v == "1") or (c.name == "store" and "RESET_MARK_STATE" in v and any("MAX_MARK_STATE" in show(p.tree) and p.val is True for p in guards(g, c.bb)))
        ctx.judge(okw and okv, "C34.state-writers", "%s %s line_mark_state" % (short(g.q), c.name), expected="only ImmixSpace::prepare under major_gc: +1, or reset above MAX_MARK_STATE", found="%s(%s) under %s" % (c.name, v[:40], guard_strs(g, c.bb)[:2]),
                  where=where(g, c.line), key="C34.state-writers|mark|%s|%s" % (g.q, c.name))
    ctx.judge(len(W["line_mark_state"]) == 2, "C34.state-writers", "line_mark_state has its two writers", expected="increment and wrap-around reset", found=str(len(W["line_mark_state"])), key="C34.state-writers|mark-count")
    for g, c in W["line_unavail_state"]:
        v = show(strip(g.flow.arg_tree(c, 1)))
        okw = g.q == IX + "release" and c.name == "store" and v.startswith("Atomic::load(arg1.line_mark_state") and [(show(p.tree), p.val) for p in guards(g, c.bb)] == [("arg2", True)]
        ctx.judge(okw, "C34.state-writers", "%s %s line_unavail_state" % (short(g.q), c.name), expected="only ImmixSpace::release, := line_mark_state, exactly under major_gc", found="%s(%s) under %s" % (c.name, v[:50], guard_strs(g, c.bb)),
                  where=where(g, c.line), key="C34.state-writers|unavail|%s" % g.q)
    ctx.judge(len(W["line_unavail_state"]) == 1, "C34.state-writers", "line_unavail_state has one writer", expected="1", found=str(len(W["line_unavail_state"])), key="C34.state-writers|unavail-count")
    for fld in W:
        m = field_mutators(F, "policy::immix::immixspace::ImmixSpace", fld)
        ctx.judge(not m, "C34.state-writers", "%s is changed only through its atomic API" % fld, expected="no direct store / &mut borrow", found=str(sorted(m)), key="C34.state-writers|direct|" + fld)

    # ---- mark-lines
    ml = F.fn(IX + "mark_lines")
    cs = [c for c in live_calls(ml) if c.name == "mark_lines_for_object"]
    oks = len(cs) == 1 and show(strip(ml.flow.arg_tree(cs[0], 0))) == "arg2" and "line_mark_state" in show(strip(ml.flow.arg_tree(cs[0], 1)))
    ctx.judge(oks, "C34.mark-lines", "ImmixSpace::mark_lines marks the object's lines with the current epoch", expected="Line::mark_lines_for_object(object, self.line_mark_state.load())",
              found=str([[show(strip(ml.flow.arg_tree(c, i)))[:60] for i in range(2)] for c in cs]), where=where(ml), key="C34.mark-lines|epoch")
    mlo = F.fn("policy::immix::line::Line::mark_lines_for_object")
    ri = [c for c in live_calls(mlo, name="new") if c.q and "RegionIterator" in c.q]
    okr = len(ri) == 1
    found = "%d RegionIterator::new" % len(ri)
    if okr:
        a0, a1 = show(strip(mlo.flow.arg_tree(ri[0], 0))), show(strip(mlo.flow.arg_tree(ri[0], 1)))
        endx = "<Address as Add<usize>>::add(ObjectReference::to_object_start(arg1), ObjectModel::get_current_size(arg1))"
        okr = a0 == "Region::from_unaligned_address(ObjectReference::to_object_start(arg1))" and ("Region::next(Region::from_unaligned_address(%s))" % endx) in a1 and a1.startswith("phi(")
        found = "start=%s end=%s" % (a0[:100], a1[:160])
    ctx.judge(okr, "C34.mark-lines", "the marked lines span [object start, object start + current size)", expected="from the line of to_object_start(object) to the line after start + size (unless aligned)", found=found,
              where=where(mlo), key="C34.mark-lines|extent")
    lm = F.fn("policy::immix::line::Line::mark")
    stx = [c for c in live_calls(lm) if c.name in ("store", "store_atomic")]
    ctx.judge(len(stx) == 1 and show(strip(lm.flow.arg_tree(stx[0], len(stx[0].args) - 2 if stx[0].name == "store_atomic" else 1))) .find("arg2") >= 0 or any("arg2" in show(strip(lm.flow.arg_tree(c, i))) for c in stx for i in range(len(c.args))),
              "C34.mark-lines", "Line::mark stores the given epoch", expected="MARK_TABLE.store(line, state)", found=str(len(stx)), where=where(lm), key="C34.mark-lines|store")

    def reaches_mark(root, via=("mark_lines",)):
        par = F.cg.reach([root])
        return [q for q in par if last_seg(q) in via and "ImmixSpace" in q]
    wm = F.fn(IX + "trace_object_without_moving")
    direct = [c for c in live_calls(wm) if c.name == "mark_lines"]
    okd = bool(direct) and all(any("attempt_mark" in show(p.tree) and p.val is True for p in guards(wm, c.bb)) for c in direct)
    scan = F.fns.get("<policy::immix::immixspace::ImmixSpace as policy::gc_work::PolicyTraceObject>::post_scan_object")
    okscan = scan is not None and any(c.name == "mark_lines" for c in live_calls(scan))
    ctx.judge(okd or okscan, "C34.mark-lines", "an object marked in place gets its lines marked (at trace time or at scan time)", expected="mark_lines(object) under attempt_mark == true, or in post_scan_object",
              found="direct=%d scan-time=%s" % (len(direct), okscan), where=where(wm), key="C34.mark-lines|in-place")
    if direct:
        for c in direct:
            extra = [g for g in guard_strs(wm, c.bb) if "attempt_mark" not in g and "MARK_LINE_AT_SCAN_TIME" not in g and "BLOCK_ONLY" not in g]
            ctx.judge(not extra, "C34.mark-lines", "nothing but the mark race decides whether lines are marked at trace time", expected="guards: attempt_mark (and the compile-time line-marking mode)", found=str(extra)[:160],
                      where=where(wm, c.line), key="C34.mark-lines|in-place-guard")
    if scan is not None:
        sc = [c for c in live_calls(scan) if c.name == "mark_lines"]
        for c in sc:
            extra = [g for g in guard_strs(scan, c.bb) if "MARK_LINE_AT_SCAN_TIME" not in g and "BLOCK_ONLY" not in g]
            ctx.judge(not extra and show(strip(scan.flow.arg_tree(c, 1))) == "arg2", "C34.mark-lines", "post_scan_object marks the lines of every scanned Immix object", expected="self.mark_lines(object) (compile-time mode only)",
                      found=str(extra)[:160], where=where(scan, c.line), key="C34.mark-lines|scan")
    oc = F.fn(IX + "trace_object_with_opportunistic_copy")
    inplace = [c for c in live_calls(oc) if c.name == "mark_lines"]
    ctx.judge(okscan or bool(inplace), "C34.mark-lines", "the kept-in-place arm of the opportunistic copy marks lines (trace or scan time)", expected="mark_lines or scan-time marking", found="direct=%d scan=%s" % (len(inplace), okscan),
              where=where(oc), key="C34.mark-lines|opportunistic")
    # copies: the copy context's post_copy marks the lines of the new copy
    pcs = [g for q, g in F.fns.items() if q.endswith("::post_copy") and "immix" in q.lower() and g.blocks and g.kind != "closure"]
    okp = any(any(c.name in ("mark_lines", "post_copy") for c in live_calls(g)) for g in pcs) or okscan
    ctx.judge(okp, "C34.mark-lines", "a copied object gets the lines of its copy marked", expected="post_copy -> mark_lines (or scan-time marking of the copy)", found=str([short(g.q) for g in pcs]), key="C34.mark-lines|copy")

    # ---- codec
    bs = F.adts.get("policy::immix::block::BlockState")
    ctx.require(bs is not None, "C34: BlockState enum not found")
    marks = {}
    for k, c in F.consts.items():
        m = re.match(r"^policy::immix::block::BlockState::(MARK_\w+)$", k)
        if m and isinstance(c.get("v"), int):
            marks[m.group(1)] = c["v"]
    lines = None
    for k, c in F.consts.items():
        if k == "policy::immix::block::Block::LINES" and isinstance(c.get("v"), int):
            lines = c["v"]
    ctx.judge(len(marks) >= 3 and len(set(marks.values())) == len(marks), "C34.codec", "block-state marker bytes are pairwise distinct", expected="distinct constants", found=str(marks), key="C34.codec|distinct")
    if lines is not None and marks:
        clash = {n: v for n, v in marks.items() if 1 <= v <= lines - 1 and v != 0}
        # Reusable{n} is encoded as n (1..LINES-1); markers must lie outside, 0 is Unallocated
        ctx.judge(not [n for n, v in marks.items() if 1 <= v <= lines - 1], "C34.codec", "marker bytes do not collide with Reusable{unavailable_lines}", expected="markers outside 1..=%d" % (lines - 1), found=str(clash),
                  key="C34.codec|range")
        ctx.judge(lines - 1 < 256 and all(0 <= v < 256 for v in marks.values()), "C34.codec", "every state fits the one-byte table entry", expected="LINES-1 and markers < 256", found="LINES=%s %s" % (lines, marks), key="C34.codec|byte")
