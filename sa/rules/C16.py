"""C16 Worker shutdown and fork round-trip every worker exactly once (DESIGN.md 4/C16)."""
import re
from .common import *
from .sched import check_poll_clears_one
from ..engine import AnalysisError, show, strip, short, walk, last_seg

PROP = "C16"
LEVEL = "other"
QUICK = ["K0", "K1"]
THOROUGH = ALL_CONFIGS
ASSUMPTIONS = ["the binding's spawn_gc_thread starts one thread per context and that thread calls start_worker once",
               "Rust move semantics (checked by rustc) guarantee a by-value Box<GCWorker> is consumed at most once"]
LEVEL_NOTE = ("ownership clause is type-enforced (by-value Box<GCWorker>, no Clone/Copy impl: decided from the type tables rustc produced); the remaining clauses are "
              "structural necessary conditions; thread scheduling is not explored")
EXPLANATION = (
    "Ownership: GCWorker::run and both surrender_gc_worker functions take Box<GCWorker> by value and GCWorker has no Clone/Copy impl "
    "(type tables), so a worker state cannot be duplicated or used after surrender; surrender_gc_worker(self) is called exactly once "
    "on every path of GCWorker::run after the loop exit; WorkerGroup's creation-state machine (Initial -> Spawned -> Surrendered -> "
    "Spawned) is extracted from initial_spawn / prepare_surrender_buffer / surrender_gc_worker / respawn: each reads the expected "
    "variant under the state mutex (other variants diverge) and stores the successor; each surrendered worker is pushed once; "
    "on_all_workers_exited is reached exactly when the buffer length equals worker_count(); spawn hands every worker of the vector to "
    "spawn_gc_thread once; goal priority Gc < Shutdown < StopForFork (pending GC is served before exit goals)."
)
WG = "scheduler::worker::WorkerGroup::"
GW = "scheduler::worker::GCWorker"
SCHED = "scheduler::scheduler::GCWorkScheduler::"


def state_reads_writes(fn):
    """(variants the function continues on, variants it stores) for WorkerCreationState."""
    reads, writes = set(), set()
    from ..engine import decode_pred
    for a, lab in fn.cfg.assertlike.items():
        if a in fn.cfg.live:
            for p in expand_pred(fn, decode_pred(fn, a, lab)):
                if isinstance(p.val, str) and p.val in ("Initial", "Spawned", "Surrendered"):
                    reads.add(p.val)
    for b in fn.cfg.live:
        for p in guards(fn, b):
            if isinstance(p.val, str) and p.val in ("Initial", "Spawned", "Surrendered"):
                reads.add(p.val)
    for i, blk in enumerate(fn.blocks):
        if i not in fn.cfg.live:
            continue
        for st in blk["s"]:
            if st[0] == "=" and st[2][0] == "agg" and st[2][1].get("adt", "").endswith("WorkerCreationState"):
                writes.add(st[2][1]["variant"])
    return reads, writes


def run(ctx, F):
    # ---- C16.ownership
    runf = F.fn(GW + "::run")
    inp = runf.meta.get("inputs", [])
    ctx.judge(bool(inp) and inp[0].startswith("std::boxed::Box<scheduler::worker::GCWorker<"), "C16.ownership", "GCWorker::run consumes self: Box<Self>",
              expected="first parameter Box<GCWorker<VM>> by value", found=str(inp[:1]), where=where(runf), key="C16.ownership|run")
    for q in (SCHED + "surrender_gc_worker", WG + "surrender_gc_worker", "memory_manager::start_worker"):
        f = F.fn(q)
        inp = f.meta.get("inputs", [])
        okb = any(x.startswith("std::boxed::Box<scheduler::worker::GCWorker<") for x in inp)
        ctx.judge(okb, "C16.ownership", "%s takes the worker by value" % short(q), expected="a Box<GCWorker<VM>> parameter (not a reference)", found=str(inp), where=where(f),
                  key="C16.ownership|" + q)
    bad = [im for im in F.impls if im["self"] == GW and im.get("trait") in ("std::clone::Clone", "std::marker::Copy", "core::clone::Clone", "core::marker::Copy")]
    ctx.judge(not bad, "C16.ownership", "GCWorker is neither Clone nor Copy", expected="no impl Clone/Copy for GCWorker", found=str([im.get("trait") for im in bad]),
              key="C16.ownership|noclone")
    ctx.judge(GW in F.adts, "C16.ownership", "GCWorker type present", expected="struct GCWorker", found="missing", key="C16.ownership|adt")

    # ---- C16.surrender-on-exit
    sur = live_calls(runf, q=SCHED + "surrender_gc_worker")
    mn, mx = runf.cfg.path_counts([c.bb for c in sur])
    ctx.judge(len(sur) == 1 and (mn, mx) == (1, 1), "C16.surrender-on-exit", "GCWorker::run surrenders the worker exactly once on every exit",
              expected="one surrender_gc_worker call on every path to return", found="sites=%d per-path=(%s,%s)" % (len(sur), mn, mx), where=where(runf),
              key="C16.surrender-on-exit|count")
    for c in sur:
        a = strip(runf.flow.arg_tree(c, 1))
        ctx.judge(a == ("arg", 1), "C16.surrender-on-exit", "the surrendered worker is self", expected="surrender_gc_worker(self)", found=show(a), where=where(runf, c.line),
                  key="C16.surrender-on-exit|self")
        after = [x for x in calls_after(runf, c.bb)]
        ctx.judge(not after, "C16.surrender-on-exit", "nothing uses the worker after surrender", expected="no effectful call after surrender", found=str([x.name for x in after]),
                  where=where(runf, c.line), key="C16.surrender-on-exit|after")
    fs = F.fn(SCHED + "surrender_gc_worker")
    gsur = live_calls(fs, q=WG + "surrender_gc_worker")
    oae = live_calls(fs, name="on_all_workers_exited")
    okf = len(gsur) == 1 and fs.cfg.must_pass([gsur[0].bb]) and len(oae) == 1 and len(sig(fs, oae[0].bb)) == 1 and bool(sig_find(fs, oae[0].bb, r"surrender_gc_worker", True))
    ctx.judge(okf, "C16.all-exited", "the exit goal completes exactly when the last worker surrendered",
              expected="on_all_workers_exited control dependent exactly on WorkerGroup::surrender_gc_worker(..) == true", found=str([sig_strs(fs, c.bb) for c in oae]),
              where=where(fs), key="C16.all-exited|guard")
    fg = F.fn(WG + "surrender_gc_worker")
    pushes = [c for c in live_calls(fg, name="push") if "Vec" in (c.q or "")]
    mn, mx = fg.cfg.path_counts([c.bb for c in pushes])
    ctx.judge((mn, mx) == (1, 1), "C16.all-exited", "each surrendered worker is stored exactly once", expected="one workers.push(worker) per path", found="(%s,%s)" % (mn, mx),
              where=where(fg), key="C16.all-exited|push")
    for c in pushes:
        ctx.judge(strip(fg.flow.arg_tree(c, 1)) == ("arg", 2), "C16.all-exited", "the stored worker is the surrendered one", expected="push(worker)",
                  found=show(strip(fg.flow.arg_tree(c, 1))), where=where(fg, c.line), key="C16.all-exited|push-arg")
    rt = [show(t) for b, t, g in ret_table(fg)]
    okr = all(("Eq" in r and "len" in r and "worker_count" in r) for r in rt) and bool(rt)
    ctx.judge(okr, "C16.all-exited", "all-surrendered iff buffer length == worker_count()", expected="returns workers.len() == self.worker_count()", found=str(rt)[:200], where=where(fg),
              key="C16.all-exited|ret")
    om = F.fn("scheduler::worker_monitor::WorkerMonitor::on_all_workers_exited")
    ctx.judge(bool(live_calls(om, name="on_current_goal_completed")) and om.cfg.must_pass([c.bb for c in live_calls(om, name="on_current_goal_completed")]), "C16.all-exited",
              "on_all_workers_exited completes the current goal", expected="on_current_goal_completed on every path", found="missing", where=where(om), key="C16.all-exited|complete")

    # ---- C16.state-table
    want = {
        WG + "initial_spawn": ({"Initial"}, {"Spawned"}),
        WG + "prepare_surrender_buffer": ({"Spawned"}, {"Surrendered"}),
        WG + "surrender_gc_worker": ({"Surrendered"}, set()),
        WG + "respawn": ({"Surrendered"}, {"Spawned"}),
    }
    for q, (rd, wr) in want.items():
        f = F.fn(q)
        reads, writes = state_reads_writes(f)
        ctx.judge(reads == rd and writes == wr, "C16.state-table", "%s: %s -> %s" % (last_seg(q), sorted(rd), sorted(wr) or "(unchanged)"),
                  expected="continues only on %s, stores %s" % (sorted(rd), sorted(wr)), found="continues on %s, stores %s" % (sorted(reads), sorted(writes)), where=where(f),
                  key="C16.state-table|" + q)
        lk = live_calls(f, name="lock")
        eff = [c for c in effect_calls(f) if c.name not in ("lock",) and not is_pure_getter(F, c.res or c.q)]
        okl = bool(lk) and all(f.cfg.dominates(lk[0].bb, c.bb) for c in eff)
        ctx.judge(okl, "C16.state-table", "%s holds the state mutex for the whole transition" % last_seg(q), expected="state.lock() dominates every effect", found=str(len(lk)),
                  where=where(f), key="C16.state-table|lock|" + q)
    new = F.fn(WG + "new")
    _, writes = state_reads_writes(new)
    ctx.judge(writes == {"Initial"}, "C16.state-table", "WorkerGroup::new starts in Initial", expected="Initial", found=str(writes), where=where(new), key="C16.state-table|new")
    for q in (WG + "initial_spawn", WG + "respawn"):
        f = F.fn(q)
        sp = live_calls(f, q=WG + "spawn")
        mn, mx = f.cfg.path_counts([c.bb for c in sp])
        ctx.judge((mn, mx) == (1, 1), "C16.state-table", "%s spawns the workers exactly once" % last_seg(q), expected="one WorkerGroup::spawn per path", found="(%s,%s)" % (mn, mx),
                  where=where(f), key="C16.state-table|spawn|" + q)
        if q.endswith("respawn") and sp:
            a = show(strip(f.flow.arg_tree(sp[0], 1)))
            ctx.judge("Surrendered" in a and "workers" in a, "C16.state-table", "respawn re-spawns exactly the surrendered workers", expected="spawn(workers) with workers moved out of Surrendered",
                      found=a[:160], where=where(f, sp[0].line), key="C16.state-table|respawn-arg")
    # who moves the state on
    for q in (SCHED + "stop_gc_threads_for_forking", SCHED + "shutdown_gc_threads"):
        f = F.fn(q)
        pb = live_calls(f, q=WG + "prepare_surrender_buffer")
        mr = live_calls(f, name="make_request")
        okp = len(pb) == 1 and len(mr) == 1 and f.cfg.dominates(pb[0].bb, mr[0].bb)
        ctx.judge(okp, "C16.state-table", "%s prepares the surrender buffer before posting the exit goal" % last_seg(q), expected="prepare_surrender_buffer dominates make_request",
                  found="%d/%d" % (len(pb), len(mr)), where=where(f), key="C16.state-table|order|" + q)

    # ---- C16.spawn-each-once
    check_callers(ctx, F, "C16.spawn-each-once", "vm::collection::Collection::spawn_gc_thread", {WG + "spawn": "one call per worker of the vector"})
    sp = F.fn(WG + "spawn")
    for c in live_calls(sp, q="vm::collection::Collection::spawn_gc_thread"):
        a = show(strip(sp.flow.arg_tree(c, 1)))
        okn = "Iterator>::next" in a and "Worker" in a
        ctx.judge(okn, "C16.spawn-each-once", "each worker taken from the by-value iterator is handed to one thread", expected="GCThreadContext::Worker(<item of workers.into_iter()>)",
                  found=a[:200], where=where(sp, c.line), key="C16.spawn-each-once|arg")
        g = guard_find(sp, c.bb, r"Iterator>::next", "Some")
        ctx.judge(bool(g) and len(guards(sp, c.bb)) == 1, "C16.spawn-each-once", "no worker of the vector is skipped", expected="spawn guarded only by the iterator yielding an item",
                  found=str(guard_strs(sp, c.bb)), where=where(sp, c.line), key="C16.spawn-each-once|guard")

    # ---- C16.parked-count: an exiting worker un-parks itself too, otherwise the respawned workers never reach "all parked" again
    pw = F.fn("scheduler::worker_monitor::WorkerMonitor::park_and_wait")
    inc = live_calls(pw, name="inc_parked_workers")
    dec = live_calls(pw, name="dec_parked_workers")
    mn, mx = pw.cfg.path_counts([c.bb for c in dec])
    errs = [(b, t, g) for b, t, g in ret_table(pw) if "Err" in show(t)]
    okd = len(inc) == 1 and (mn, mx) == (1, 1) and bool(errs) and all(any(pw.cfg.dominates(c.bb, b) for c in dec) for b, t, g in errs)
    ctx.judge(okd, "C16.parked-count", "a worker leaving park_and_wait (also to exit) decrements the parked count exactly once", expected="dec_parked_workers on every path, before the Err(WorkerShouldExit) return",
              found="inc=%d dec-per-path=(%s,%s) err-rows=%d" % (len(inc), mn, mx, len(errs)), where=where(pw), key="C16.parked-count|paired")

    # ---- C16.priority
    goal = F.enum_variants("scheduler::worker_goals::WorkerGoal")
    ctx.require(goal, "C16.priority: WorkerGoal enum missing")
    inv = {v: k for k, v in goal.items()}
    okp = inv.get("Gc", 99) < inv.get("Shutdown", -1) and inv.get("Gc", 99) < inv.get("StopForFork", -1)
    ctx.judge(okp, "C16.priority", "a pending GC is served before exit goals", expected="discriminant(Gc) < discriminant(Shutdown), discriminant(StopForFork)", found=str(goal),
              key="C16.priority|enum")
    # an exit request that is pending while another goal is taken must stay pending ("every GC worker thread exits")
    check_poll_clears_one(ctx, F, "C16.priority")
    png = F.fn("scheduler::worker_goals::WorkerGoals::poll_next_goal")
    it = [c for c in live_calls(png) if c.name in ("iter_mut", "iter")]
    ctx.judge(bool(it) and "requests" in show(strip(png.flow.arg_tree(it[0], 0))), "C16.priority", "poll_next_goal scans requests in enum order", expected="self.requests.iter_mut()",
              found=str([c.name for c in it]), where=where(png), key="C16.priority|scan")
    rows = ret_table(png)
    some = [(b, t, g) for b, t, g in rows if "Some" in show(t)]
    def by_find(t):
        # idiom: iter_mut().find(|(_, requested)| **requested) - the first entry whose flag is set
        for s in walk(strip(t)):
            if s and s[0] == "call" and last_seg(s[2] or s[1]) == "find" and len(s[3]) == 2 and "requests" in show(s[3][0]):
                cl = [x for x in walk(s[3][1]) if x and x[0] == "agg" and x[1][0] == "closure" and x[1][1] in F.fns]
                if len(cl) == 1:
                    rts = [strip(t2) for _, t2 in F.fns[cl[0][1][1]].flow.return_trees()]
                    return bool(rts) and all(any(y == ("arg", 2) for y in walk(r)) and "Not(" not in show(r) for r in rts)
        return False
    oks = bool(some) and all(any(p.val is True for p in g) or by_find(t) for b, t, g in some)
    ctx.judge(oks, "C16.priority", "the first requested goal is returned", expected="Some(goal) returned under *requested == true (loop with early return, or find(|r| *r))", found=str([show(t) for b, t, g in rows])[:300], where=where(png),
              key="C16.priority|first")
