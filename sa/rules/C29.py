"""C29 Discontiguous chunk allocation keeps the region map consistent (partial) (DESIGN.md 4/C29)."""
import re
from .common import *
from . import plans
from ..engine import AnalysisError, show, strip, short, walk, last_seg

PROP = "C29"
LEVEL = "other"
QUICK = ["K0"]
THOROUGH = ALL_CONFIGS
ASSUMPTIONS = ["the free-list arithmetic of the region map (IntArrayFreeList) is value-level and not decided (C26 not applicable)",
               "callers pass chunk-aligned region heads that they own"]
LEVEL_NOTE = ("partial: decides the bookkeeping discipline around the region free list - the available-chunk counter changes only together with a successful allocation / a free, the "
              "doubly linked region list is unlinked symmetrically, every freed chunk loses descriptor and SFT entry, the successor of a released head is read before the links are "
              "zeroed, and the Map32 mutators run under the map's lock; the shape of the lists over arbitrary histories is not decided")
EXPLANATION = (
    "counter: total_available_discontiguous_chunks is written only by allocate_contiguous_chunks (-= chunks, dominated by the success test chunk != -1), "
    "free_contiguous_chunks_no_lock (+= the count returned by region_map.free) and finalize_static_space_map. unlink: in free_contiguous_chunks_no_lock the successor's "
    "prev link is set to prev exactly under next != 0 and the predecessor's next link to next exactly under prev != 0 (the two updates are independent), then both links of the freed "
    "head are zeroed, and each chunk of the run gets descriptor UNINITIALIZED and SFT_MAP.clear. head-before-free: CommonPageResource::release_discontiguous_chunks reads "
    "get_next_contiguous_region(chunk) before free_contiguous_chunks(chunk) can zero the links. insert-on-alloc: a successful allocation records the descriptor for the run and "
    "links it in front of the space's head. lock: the public Map32 mutators take mut_self_with_sync() before touching the region map."
)
M32 = "util::heap::layout::map32::Map32"
VM = "util::heap::layout::map::VMMap"


def run(ctx, F):
    al = F.fn("<%s as %s>::allocate_contiguous_chunks" % (M32, VM))
    fr = F.fn(M32 + "::free_contiguous_chunks_no_lock")
    # ---- counter
    FIELD = "total_available_discontiguous_chunks"
    writers = {}
    for q, g in F.fns.items():
        if not q.startswith("util::heap::layout::map32") and not q.startswith("<" + M32):
            continue
        for (bb, j, pl, t) in stores(g):
            if place_str(g, pl).endswith("." + FIELD):
                writers.setdefault(q, []).append((bb, t))
    allowed = {al.q: "allocation", fr.q: "free", "<%s as %s>::finalize_static_space_map" % (M32, VM): "boot-time initialisation"}
    for q in writers:
        ctx.judge(q in allowed, "C29.counter", "%s writes the available-chunk counter" % short(q), expected="only allocate / free_no_lock / finalize_static_space_map", found=q, where=where(F.fns[q]), key="C29.counter|writer|" + q)
    ctx.judge(al.q in writers and fr.q in writers, "C29.counter", "allocation and free both maintain the counter", expected="both present", found=str(sorted(short(q) for q in writers)), key="C29.counter|both")
    for bb, t in writers.get(al.q, []):
        s = show(strip(t))
        gs = guards(al, bb)
        oks = any(re.search(r"FreeList::alloc\(.*\) Eq -1\)$|Eq -1\)", show(p.tree)) and p.val is False for p in gs)
        ctx.judge(oks and re.search(r"%s Sub arg\d\)$" % FIELD, s) is not None, "C29.counter", "the counter drops by `chunks` only when the region map found a run", expected="-= chunks under region_map.alloc(..) != -1",
                  found="%s under %s" % (s[-80:], guard_strs(al, bb)), where=where(al), key="C29.counter|alloc")
    for bb, t in writers.get(fr.q, []):
        s = show(strip(t))
        ctx.judge("Add" in s and "FreeList::free(" in s and not [g for g in guard_strs(fr, bb)], "C29.counter", "the counter grows by exactly the freed run", expected="+= region_map.free(chunk), unconditionally",
                  found="%s under %s" % (s[-100:], guard_strs(fr, bb)), where=where(fr), key="C29.counter|free")

    # ---- unlink
    def nm(x):
        # `self.mut_self()` is the same map seen through its interior-mutability accessor; `*&x` is x
        x = re.sub(r"\*?Map32::mut_self\(arg1\)", "arg1", x)
        return re.sub(r"\(\(arg2 as _\) as _\)", "(arg2 as _)", x)
    rows = [(nm(show(strip(k))), nm(show(strip(v))), bb) for k, v, bb in plans.index_assignments(fr)]
    ims = {c.bb + 1: show(strip(fr.flow.arg_tree(c, 0))) for c in live_calls(fr, name="index_mut")}
    NXT = "<Vec as Index>::index(arg1.next_link, (arg2 as _))"
    PRV = "<Vec as Index>::index(arg1.prev_link, (arg2 as _))"

    def find(table, key, val):
        out = []
        for c in live_calls(fr, name="index_mut"):
            if nm(show(strip(fr.flow.arg_tree(c, 0)))).endswith("." + table) and nm(show(strip(fr.flow.arg_tree(c, 1)))) == key:
                for k, v, bb in rows:
                    if bb == c.bb + 1 or (fr.cfg.dominates(c.bb, bb) and k == key):
                        if v == val:
                            out.append((c, bb))
        return out
    a = find("prev_link", "(%s as _)" % NXT, PRV)
    b = find("next_link", "(%s as _)" % PRV, NXT)
    for hits, what, cond in ((a, "successor's prev link := prev", "(%s Ne 0)" % NXT), (b, "predecessor's next link := next", "(%s Ne 0)" % PRV)):
        ok = len(hits) >= 1
        found = "%d site(s)" % len(hits)
        if ok:
            gs = [(nm(show(p.tree)), p.val) for p in guards(fr, hits[0][1])]
            ok = gs == [(cond, True)]
            found = str(gs)[:240]
        ctx.judge(ok, "C29.unlink", "free unlinks the region: %s" % what, expected="exactly under %s (independent of the other neighbour)" % cond, found=found, where=where(fr), key="C29.unlink|" + what[:9])
    z = [(k, v, bb) for k, v, bb in rows if k == "(arg2 as _)" and v == "0" and not guard_strs(fr, bb)]
    ctx.judge(len(z) == 2, "C29.unlink", "both links of the freed head are zeroed", expected="prev_link[chunk] = 0 and next_link[chunk] = 0 unconditionally", found=str(len(z)), where=where(fr), key="C29.unlink|zero")
    # reads of next/prev precede the zeroing
    if z and a and b:
        zb = min(bb for _, _, bb in z)
        after = fr.cfg.reachable_from(zb) | {zb}
        reads = [c for c in live_calls(fr, name="index") if nm(show(strip(fr.flow.arg_tree(c, 0)))) in ("arg1.next_link", "arg1.prev_link") and nm(show(strip(fr.flow.arg_tree(c, 1)))) == "(arg2 as _)"]
        ctx.judge(all(bb not in after for _, bb in a + b) and len(reads) == 2 and all(fr.cfg.dominates(c.bb, zb) for c in reads), "C29.unlink",
                  "the region's links are read and the neighbours re-linked before the freed head's links are zeroed", expected="reads of next/prev dominate the zeroing; no re-link after it",
                  found="zero at bb%d, reads at %s, re-links at %s" % (zb, [c.bb for c in reads], [bb for _, bb in a + b]), where=where(fr), key="C29.unlink|order")

    # ---- head-before-free
    rd = F.fn("util::heap::pageresource::CommonPageResource::release_discontiguous_chunks")
    nx = live_calls(rd, name="get_next_contiguous_region")
    fc = live_calls(rd, name="free_contiguous_chunks")
    okh = len(nx) == 1 and len(fc) == 1 and nx[0].bb not in (rd.cfg.reachable_from(fc[0].bb) | {fc[0].bb}) and rd.cfg.must_pass([fc[0].bb])
    ctx.judge(okh, "C29.head-before-free", "the successor of a released head is read before the region's links are zeroed", expected="get_next_contiguous_region(chunk) not reachable after free_contiguous_chunks(chunk); free on every path",
              found="next sites=%d free sites=%d" % (len(nx), len(fc)), where=where(rd), key="C29.head-before-free|release")
    if len(nx) == 1:
        gs = guard_strs(rd, nx[0].bb)
        ctx.judge(any("eq(" in g.lower() and "head_discontiguous_region" in g or "PartialEq" in g for g in gs), "C29.head-before-free", "the head moves on only when the released region IS the head",
                  expected="guarded by chunk == *head", found=str(gs)[:200], where=where(rd, nx[0].line), key="C29.head-before-free|guard")
        sts = [(bb, show(strip(t))) for (bb, j, pl, t) in stores(rd) if "get_next_contiguous_region" in show(strip(t))]
        ctx.judge(len(sts) == 1, "C29.head-before-free", "the new head is the successor", expected="*head = vm_map.get_next_contiguous_region(chunk)", found=str(sts)[:160], where=where(rd), key="C29.head-before-free|store")

    # ---- insert-on-alloc
    ins = live_calls(al, name="insert")
    oki = len(ins) == 1 and any(re.search(r"Eq -1\)", show(p.tree)) and p.val is False for p in guards(al, ins[0].bb))
    ctx.judge(oki, "C29.insert-on-alloc", "a successful allocation records the descriptor of the whole run", expected="self.insert(start, chunks << LOG_BYTES_IN_CHUNK, descriptor) on success", found=str(len(ins)), where=where(al),
              key="C29.insert-on-alloc|insert")
    if ins:
        a1 = show(strip(al.flow.arg_tree(ins[0], 2)))
        ctx.judge(re.match(r"^\(arg\d Shl vm_layout::LOG_BYTES_IN_CHUNK=\d+\)$", a1) is not None, "C29.insert-on-alloc", "the recorded extent is chunks << LOG_BYTES_IN_CHUNK", expected="(chunks << LOG_BYTES_IN_CHUNK)", found=a1[:80],
                  where=where(al, ins[0].line), key="C29.insert-on-alloc|extent")
    lrows = [(show(strip(k)), show(strip(v)), bb) for k, v, bb in plans.index_assignments(al)]
    ctx.judge(any("next_link" in ims2 for ims2 in [show(strip(al.flow.arg_tree(c, 0))) for c in live_calls(al, name="index_mut")]) and len(lrows) >= 2, "C29.insert-on-alloc",
              "the new region is linked in front of the space's head", expected="next_link[chunk] = head; prev_link[head] = chunk", found=str(lrows)[:200], where=where(al), key="C29.insert-on-alloc|link")
    rz = [(b, t, g) for b, t, g in ret_table(al) if "Address::zero" in show(strip(t)) or const_arg(t) == 0]
    ctx.judge(bool(rz) and all(any(re.search(r"Eq -1\)", show(p.tree)) and p.val is True for p in g) for b, t, g in rz), "C29.insert-on-alloc", "failure is reported as the zero address and only when the region map is exhausted",
              expected="return Address::zero() iff region_map.alloc == -1", found=str([(show(strip(t))[:40], [(show(p.tree)[-30:], p.val) for p in g]) for b, t, g in rz])[:200], where=where(al), key="C29.insert-on-alloc|fail")

    # ---- lock
    for nm in ("allocate_contiguous_chunks", "free_all_chunks", "free_contiguous_chunks"):
        g = F.fn("<%s as %s>::%s" % (M32, VM, nm))
        lk = live_calls(g, name="mut_self_with_sync")
        mut = [c for c in live_calls(g) if c.name in ("free_contiguous_chunks_no_lock", "alloc", "insert") and c.q and ("Map32" in c.q or "FreeList" in c.q)]
        ctx.judge(len(lk) == 1 and all(g.cfg.dominates(lk[0].bb, c.bb) for c in mut) and bool(mut), "C29.lock", "Map32::%s mutates the region map under the map's lock" % nm, expected="mut_self_with_sync() dominates the mutation",
                  found="locks=%d mutations=%d" % (len(lk), len(mut)), where=where(g), key="C29.lock|" + nm)
    allowed = {"<%s as %s>::free_all_chunks" % (M32, VM): "holds the lock", "<%s as %s>::free_contiguous_chunks" % (M32, VM): "holds the lock"}
    check_callers(ctx, F, "C29.lock", fr.q, allowed, min_sites=2)
