"""Linear normal form of integer expression trees (abstract interpretation in the domain of linear polynomials over
named atoms). Used for algebraic *agreement* rules between sibling formulas (e.g. table size vs. capacity): the
polynomials are compared structurally; nothing is executed and no solver is involved.

poly = {atom: coefficient}, atom "1" is the constant term. NonLinear is raised for any operator that is not exact
linear arithmetic (Div, Rem, Mul of two non-constants, shifts of non-constants, phi)."""
from ..engine import show, strip, last_seg


class NonLinear(Exception):
    def __init__(self, why, tree=None):
        Exception.__init__(self, why)
        self.why = why
        self.tree = tree


def const_val(t):
    if t and t[0] == "const":
        v = t[2] if t[2] is not None else t[3]
        if isinstance(v, bool):
            return None
        if isinstance(v, int):
            return v
        if isinstance(v, str):
            try:
                return int(v)
            except ValueError:
                return None
    return None


def p_add(a, b, s=1):
    out = dict(a)
    for k, v in b.items():
        out[k] = out.get(k, 0) + s * v
    return {k: v for k, v in out.items() if v != 0}


def p_scale(a, c):
    return {k: v * c for k, v in a.items() if v * c != 0}


def p_const(a):
    """The constant value of a polynomial with no atoms, else None."""
    if all(k == "1" for k in a):
        return a.get("1", 0)
    return None


def p_show(a):
    if not a:
        return "0"
    parts = []
    for k in sorted(a, key=lambda x: (x == "1", x)):
        c = a[k]
        if k == "1":
            parts.append("%+d" % c)
        else:
            parts.append(("%+d*" % c if abs(c) != 1 else ("+" if c > 0 else "-")) + k)
    return " ".join(parts)


def poly(F, fn, t, atoms=None, inline=None, shr_atoms=None, depth=0):
    """Normalise tree `t` (evaluated in `fn`). `atoms(tree)` may name a sub-tree as an atom (return a string) or return None;
    `inline` is a set of callee qnames (self-only methods) whose return tree is substituted; `shr_atoms` (dict) lets a
    right-shift by a constant be treated as an opaque atom when the shifted value is known to be a multiple (caller's claim)."""
    t = strip(t)
    if depth > 12:
        raise NonLinear("expression too deep", t)
    if atoms:
        a = atoms(t)
        if a is not None:
            return {a: 1}
    if not t:
        raise NonLinear("empty tree", t)
    k = t[0]
    cv = const_val(t)
    if cv is not None:
        return {"1": cv} if cv else {}
    if k == "cast":
        return poly(F, fn, t[2], atoms, inline, shr_atoms, depth + 1)
    if k == "bin":
        op = t[1]
        op = op[:-9] if op.endswith("Unchecked") else op
        op = {"AddWithOverflow": "Add", "SubWithOverflow": "Sub", "MulWithOverflow": "Mul"}.get(op, op)
        if op in ("Add", "Sub"):
            return p_add(poly(F, fn, t[2], atoms, inline, shr_atoms, depth + 1), poly(F, fn, t[3], atoms, inline, shr_atoms, depth + 1), 1 if op == "Add" else -1)
        if op == "Mul":
            a, b = poly(F, fn, t[2], atoms, inline, shr_atoms, depth + 1), poly(F, fn, t[3], atoms, inline, shr_atoms, depth + 1)
            ca, cb = p_const(a), p_const(b)
            if cb is not None:
                return p_scale(a, cb)
            if ca is not None:
                return p_scale(b, ca)
            raise NonLinear("product of two non-constants", t)
        if op == "Shl":
            b = p_const(poly(F, fn, t[3], atoms, inline, shr_atoms, depth + 1))
            if b is None:
                raise NonLinear("shift by a non-constant", t)
            return p_scale(poly(F, fn, t[2], atoms, inline, shr_atoms, depth + 1), 1 << b)
        raise NonLinear("operator %s is not exact linear arithmetic" % t[1], t)
    if k == "field" and t[1] and t[1][0] == "field" and isinstance(t[2], str) and t[2] in ("0", "1") and False:
        pass
    if k == "field":
        # (a op b).0 of a checked arithmetic pair
        if t[1] and t[1][0] == "bin" and str(t[2]) == "0":
            return poly(F, fn, t[1], atoms, inline, shr_atoms, depth + 1)
        return {show(t): 1}
    if k == "arg":
        nm = fn.local_name(t[1]) if fn is not None else None
        return {nm or show(t): 1}
    if k == "call":
        q = t[2] or t[1]
        nm = last_seg(q) if isinstance(q, str) else None
        if nm in ("add", "sub") and len(t[3]) == 2:
            return p_add(poly(F, fn, t[3][0], atoms, inline, shr_atoms, depth + 1), poly(F, fn, t[3][1], atoms, inline, shr_atoms, depth + 1), 1 if nm == "add" else -1)
        if inline and isinstance(q, str) and q in inline and q in F.fns:
            g = F.fns[q]
            rts = [strip(x) for _, x in g.flow.return_trees()]
            if len(rts) != 1 or (rts[0] and rts[0][0] == "phi"):
                raise NonLinear("%s has more than one definition of its result" % nm, t)
            # self-only method: the callee's arg1 is the caller's receiver; only valid when the receiver is the caller's own self
            if len(t[3]) == 1 and strip(t[3][0]) == ("arg", 1):
                return poly(F, g, rts[0], atoms, inline, shr_atoms, depth + 1)
        return {show(t): 1}
    if k == "phi":
        raise NonLinear("value has more than one definition (branch)", t)
    return {show(t): 1}
