"""C24 Side-metadata tables in use by one configuration never alias (64-bit layout) (DESIGN.md 4/C24).

Everything is decided from constants that rustc evaluated with the crate's own const fns (spec offsets, the VM base offsets) and
from the MIR of the functions that place VM specs and size the reservation. No table is recomputed from a transcribed formula:
the one formula used (size = 2^(log_address_space - ratio)) is calibrated on the first link of the chain and then only serves to
CHECK that each evaluated offset is the previous spec's end."""
import re
import json
from .common import *
from ..engine import AnalysisError, show, strip, short, walk, last_seg

PROP = "C24"
LEVEL = "other"
QUICK = ["K0", "K1"]
THOROUGH = ALL_CONFIGS
ASSUMPTIONS = ["64-bit targets only (contiguous side metadata); the chunked 32-bit layout is not compiled here",
               "a VM binding builds its side specs only with side_first()/side_after() (the API contract), chaining each spec after another spec of the same globality",
               "which VM specs are in-header or on the side is the binding's choice: every placement is covered because the argument is by construction of the chain, not by enumeration"]
LEVEL_NOTE = ("decides: core tables are laid out back to back without overlap (evaluated constants); VM chains start at the evaluated end of the core tables of their kind and each link starts at "
              "the crate-computed end of its predecessor; the VM global chain (which on 64-bit starts where the core LOCAL tables start) can only reach core local tables that no log-bit plan uses; "
              "the start-up reservation is the maximum end over core and registered VM specs and every VM spec is registered. Not decided: a binding that violates the chaining contract")
EXPLANATION = (
    "core-layout: all SideMetadataSpec constants of spec_defs are read as evaluated by rustc; per group (global, local) sorted by offset, each offset equals the aligned end of the "
    "previous spec (the size rule is calibrated on VO_BIT and cross-checked on every other link), the local group starts at the aligned end of the global group, "
    "GLOBAL/LOCAL_SIDE_METADATA_VM_BASE_OFFSET equal the ends of the last global/local spec, and LAST_* name the last spec of their group. vm-chain: each VM spec type's side_first() "
    "places the spec at the VM base offset of its globality and side_after(o) at side_metadata_offset_after(o). vm-global-reach: exactly one VM spec type is global (the log bit); its "
    "largest possible table [GLOBAL_VM_BASE, +size) intersects only core local tables whose every user is the malloc mark-sweep policy, and every plan embedding that policy has "
    "needs_log_bit = false, so no configuration uses both. reservation: set_vm_side_metadata_specs keeps the running maximum of upper_bound_offset over all registered specs, "
    "initialize_side_metadata registers every VM spec constant of ObjectModel, and the reserved size is max(core end, vm end)."
)
SD = "util::metadata::side_metadata::spec_defs::"
LAY = "util::metadata::side_metadata::layout::"
SPEC_TY = "util::metadata::side_metadata::global::SideMetadataSpec"


def align8(x):
    return (x + 7) & ~7


def core_specs(F):
    out = {}
    for k, c in F.consts.items():
        if k.startswith(SD) and c.get("ty") == SPEC_TY and isinstance(c.get("v"), dict) and "::tests::" not in k:
            out[k[len(SD):]] = c["v"]
    return out


def run(ctx, F):
    specs = core_specs(F)
    named = {n: v for n, v in specs.items() if not n.startswith("LAST_")}
    ctx.floor("C24.core-layout", len(named), 19, "core side-metadata spec constants")
    G = sorted([(v["offset"], n, v) for n, v in named.items() if v["is_global"]])
    L = sorted([(v["offset"], n, v) for n, v in named.items() if not v["is_global"]])
    ctx.judge(len(G) >= 3 and len(L) >= 16, "C24.core-layout", "both groups found", expected=">=3 global, >=16 local", found="%d/%d" % (len(G), len(L)), key="C24.core-layout|groups")

    def ratio(v):
        return v["log_bytes_in_region"] + 3 - v["log_num_of_bits"]
    # calibrate the address-space size on the first link of the global chain
    logas = None
    if len(G) >= 2:
        sz0 = G[1][0] - G[0][0]
        if sz0 > 0 and sz0 & (sz0 - 1) == 0:
            logas = sz0.bit_length() - 1 + ratio(G[0][2])
    ctx.judge(logas is not None and 32 < logas <= 57, "C24.core-layout", "address-space size inferred from the first link", expected="a power-of-two first table", found=str(logas), key="C24.core-layout|calibrate")
    if logas is None:
        return

    def size(v):
        return 1 << (logas - ratio(v))
    ends = {}
    for grp, label in ((G, "global"), (L, "local")):
        for i, (off, n, v) in enumerate(grp):
            ends[n] = off + size(v)
            ctx.judge(off % 8 == 0, "C24.core-layout", "%s is word aligned" % n, expected="offset % 8 == 0", found=str(off), key="C24.core-layout|align|" + n)
            if i + 1 < len(grp):
                nxt = grp[i + 1]
                ctx.judge(nxt[0] == align8(off + size(v)), "C24.core-layout", "%s starts exactly at the end of %s" % (nxt[1], n), expected="offset(next) == align_up(offset + size, 8): tables are back to back, none overlaps",
                          found="%s: [%d, %d)  %s: %d" % (n, off, off + size(v), nxt[1], nxt[0]), key="C24.core-layout|link|%s|%s" % (label, nxt[1]))
    gl_end = G[-1][0] + size(G[-1][2])
    lo_end = L[-1][0] + size(L[-1][2])

    def cval(q):
        c = F.consts.get(q)
        return c.get("v") if c else None
    ctx.judge(G[0][0] == cval(LAY + "GLOBAL_SIDE_METADATA_BASE_OFFSET") == 0, "C24.core-layout", "the global group starts at the base offset", expected="0", found=str(G[0][0]), key="C24.core-layout|global-base")
    ctx.judge(L[0][0] == cval(LAY + "LOCAL_SIDE_METADATA_BASE_OFFSET_FOR_LAYOUT") == align8(gl_end), "C24.core-layout", "the local group starts at the aligned end of the global group",
              expected=str(align8(gl_end)), found="%s / const %s" % (L[0][0], cval(LAY + "LOCAL_SIDE_METADATA_BASE_OFFSET_FOR_LAYOUT")), key="C24.core-layout|local-base")
    ctx.judge(cval(LAY + "GLOBAL_SIDE_METADATA_VM_BASE_OFFSET") == gl_end, "C24.core-layout", "VM global specs start at the end of the last core global spec", expected=str(gl_end),
              found=str(cval(LAY + "GLOBAL_SIDE_METADATA_VM_BASE_OFFSET")), key="C24.core-layout|vm-global-base")
    ctx.judge(cval(LAY + "LOCAL_SIDE_METADATA_VM_BASE_OFFSET") == lo_end, "C24.core-layout", "VM local specs start at the end of the last core local spec", expected=str(lo_end),
              found=str(cval(LAY + "LOCAL_SIDE_METADATA_VM_BASE_OFFSET")), key="C24.core-layout|vm-local-base")
    for last, grp in (("LAST_GLOBAL_SIDE_METADATA_SPEC", G), ("LAST_LOCAL_SIDE_METADATA_SPEC", L)):
        lv = specs.get(last)
        ctx.judge(lv is not None and lv["offset"] == grp[-1][0] and lv["log_num_of_bits"] == grp[-1][2]["log_num_of_bits"] and lv["log_bytes_in_region"] == grp[-1][2]["log_bytes_in_region"], "C24.core-layout",
                  "%s is the last spec of its group (%s)" % (last, grp[-1][1]), expected="same offset and shape as the highest spec", found=str(lv and lv["offset"]), key="C24.core-layout|" + last)

    # ---- vm-chain
    VMS = "vm::object_model::specs::"
    types = sorted({q[len(VMS):].split("::")[0] for q in F.fns if q.startswith(VMS) and q.endswith("::side_first")})
    ctx.floor("C24.vm-chain", len(types), 6, "VM spec types with side_first/side_after")
    glob_types = []
    vm_shapes = {}
    for ty in types:
        sf, sa = F.fn(VMS + ty + "::side_first"), F.fn(VMS + ty + "::side_after")
        for f, kind in ((sf, "first"), (sa, "after")):
            agg = None
            for i, b in enumerate(f.blocks):
                if i not in f.cfg.live:
                    continue
                for j, st in enumerate(b["s"]):
                    if st[0] == "=" and st[2][0] == "agg" and st[2][1].get("adt") == SPEC_TY:
                        agg = {n: strip(f.flow.operand_tree(op, i, j)) for n, op in zip(st[2][1]["fields"], st[2][2])}
            if agg is None:
                ctx.bad("C24.vm-chain", "%s::side_%s builds a SideMetadataSpec" % (ty, kind), expected="a spec literal", found="none", where=where(f), key="C24.vm-chain|lit|%s|%s" % (ty, kind))
                continue
            isg = const_arg(agg["is_global"])
            off = show(agg["offset"])
            if kind == "first":
                def cint(t):
                    t = strip(t)
                    while t and t[0] == "cast":
                        t = strip(t[2])
                    v = const_arg(t)
                    return v if isinstance(v, int) and not isinstance(v, bool) else None
                vm_shapes[ty] = (isg, cint(agg["log_num_of_bits"]), cint(agg["log_bytes_in_region"]))
                if isg:
                    glob_types.append(ty)
                want = "GLOBAL_SIDE_METADATA_VM_BASE_OFFSET" if isg else "LOCAL_SIDE_METADATA_VM_BASE_OFFSET"
                ctx.judge(isinstance(isg, bool) and want in off and ("GLOBAL_SIDE" in off) == bool(isg), "C24.vm-chain", "%s::side_first starts the %s VM chain at its base offset" % (ty, "global" if isg else "local"),
                          expected="offset: " + want, found=off[:100], where=where(f), key="C24.vm-chain|first|" + ty)
            else:
                ctx.judge(bool(re.match(r"^(global::)?side_metadata_offset_after\(.*arg1", off)) or "side_metadata_offset_after(" in off, "C24.vm-chain", "%s::side_after(o) starts at the crate-computed end of o" % ty,
                          expected="offset: side_metadata_offset_after(other spec)", found=off[:120], where=where(f), key="C24.vm-chain|after|" + ty)
                ctx.judge(const_arg(agg["is_global"]) == vm_shapes.get(ty, (None,))[0], "C24.vm-chain", "%s keeps its globality in side_after" % ty, expected=str(vm_shapes.get(ty, (None,))[0]), found=str(const_arg(agg["is_global"])),
                          where=where(f), key="C24.vm-chain|after-global|" + ty)
    oa = F.fn("util::metadata::side_metadata::global::side_metadata_offset_after")
    rt = [show(strip(t)) for _, t in oa.flow.return_trees()]
    ctx.judge(bool(rt) and all("raw_align_up(SideMetadataSpec::upper_bound_offset(arg1)" in r for r in rt), "C24.vm-chain", "side_metadata_offset_after is the aligned upper bound of its argument", expected="raw_align_up(spec.upper_bound_offset(), BYTES_IN_WORD)",
              found=str(rt)[:160], where=where(oa), key="C24.vm-chain|offset-after")

    # ---- vm-global-reach
    ctx.judge(glob_types == ["VMGlobalLogBitSpec"], "C24.vm-global-reach", "the log bit is the only global VM spec", expected="['VMGlobalLogBitSpec']", found=str(glob_types), key="C24.vm-global-reach|types")
    if glob_types == ["VMGlobalLogBitSpec"]:
        isg, lb, lr = vm_shapes["VMGlobalLogBitSpec"]
        ok_shape = isinstance(lb, int) and isinstance(lr, int)
        ctx.judge(ok_shape, "C24.vm-global-reach", "log-bit spec shape is constant", expected="constant log_num_of_bits / log_bytes_in_region", found="%s/%s" % (lb, lr), key="C24.vm-global-reach|shape")
        if ok_shape:
            lo, hi = gl_end, gl_end + (1 << (logas - (lr + 3 - lb)))
            reached = [(off, n, v) for off, n, v in L if off < hi and off + size(v) > lo]
            # aliases of each reached spec (associated consts with the same evaluated offset)
            alias = {}
            for k, c in F.consts.items():
                if c.get("ty") == SPEC_TY and isinstance(c.get("v"), dict):
                    alias.setdefault(c["v"]["offset"], set()).add(k)
            text = {q: json.dumps(g.blocks) + json.dumps(g.meta.get("promoted") or {}) for q, g in F.fns.items()}
            for off, n, v in reached:
                names = alias.get(off, set())
                users = sorted(q for q, s in text.items() if any(nm in s for nm in names))
                outside = [q for q in users if not re.search(r"marksweepspace::malloc_ms|^util::malloc::|side_metadata::(spec_defs|sanity|layout)", q)]
                ctx.judge(not outside, "C24.vm-global-reach", "core local table %s (inside the reach [%d, %d) of a side log bit) is used only by the malloc mark-sweep policy" % (n, lo, hi),
                          expected="every function referencing it lives in policy::marksweepspace::malloc_ms", found=str([short(x) for x in outside[:5]]), key="C24.vm-global-reach|users|" + n)
            ctx.judge({n for _, n, _ in reached} <= {"MALLOC_MS_ACTIVE_PAGE", "MS_OFFSET_MALLOC"}, "C24.vm-global-reach", "tables reachable by the VM global chain", expected="subset of {MALLOC_MS_ACTIVE_PAGE, MS_OFFSET_MALLOC}",
                      found=str([n for _, n, _ in reached]), key="C24.vm-global-reach|set")
            # plans that embed MallocSpace do not use the log bit
            for adt, a in F.adts.items():
                if not adt.startswith("plan::") or a.get("kind") != "struct":
                    continue
                if any("malloc_ms::global::MallocSpace<" in fld["ty"] for fld in a["variants"][0]["fields"]):
                    cq = "<%s as plan::global::Plan>::constraints" % adt
                    cf = F.fns.get(cq)
                    val = None
                    if cf is not None:
                        for _, t in cf.flow.return_trees():
                            for s in walk(strip(t)):
                                if s and s[0] == "const" and s[3] and s[3] in F.consts and isinstance(F.consts[s[3]].get("v"), dict):
                                    val = F.consts[s[3]]["v"].get("needs_log_bit")
                    ctx.judge(val is False, "C24.vm-global-reach", "%s (embeds MallocSpace) does not use the log bit" % last_seg(adt), expected="constraints().needs_log_bit == false", found=str(val), key="C24.vm-global-reach|plan|" + adt)

    # ---- reservation
    sv = F.fn(LAY + "set_vm_side_metadata_specs")
    st = [c for c in live_calls(sv) if c.name == "set" and c.q and "OnceLock" in c.q]
    okm = len(st) == 1
    found = "%d OnceLock::set" % len(st)
    if okm:
        v = show(strip(sv.flow.arg_tree(st[0], 1)))
        okm = bool(re.match(r"^phi\(Ord::max\(phi\(loop \| 0\), SideMetadataSpec::upper_bound_offset\(.*Iterator>::next.*\)\) \| 0\)$", v))
        if not okm:
            # the same maximum as an iterator reduction: specs.iter()[.filter(..)].map(|s| s.upper_bound_offset()).fold(0, max)  /  .max().unwrap_or(0)
            t = simp(sv.flow.arg_tree(st[0], 1))
            def mapped_bounds(it):
                it = simp(it)
                if not (it and it[0] == "call" and last_seg(it[1] or "") == "map" and len(it[3]) == 2):
                    return False
                cl = [x for x in walk(it[3][1]) if x and x[0] == "agg" and x[1][0] == "closure" and x[1][1] in F.fns]
                if len(cl) != 1 or "[T]::iter(arg1)" not in show(simp(it[3][0])):
                    return False
                rts = [show(simp(r)) for _, r in F.fns[cl[0][1][1]].flow.return_trees()]
                return bool(rts) and all(re.match(r"^SideMetadataSpec::upper_bound_offset\(\**arg2\)$", r) for r in rts)
            if t and t[0] == "call" and last_seg(t[1] or "") == "fold" and len(t[3]) == 3:
                z, fn_ = simp(t[3][1]), simp(t[3][2])
                okm = mapped_bounds(t[3][0]) and z and z[0] == "const" and z[2] == 0 and fn_ and fn_[0] == "fnref" and last_seg(fn_[1]) == "max"
            elif t and t[0] == "call" and last_seg(t[1] or "") == "unwrap_or" and len(t[3]) == 2:
                inner, z = simp(t[3][0]), simp(t[3][1])
                okm = inner and inner[0] == "call" and last_seg(inner[1] or "") == "max" and len(inner[3]) == 1 and mapped_bounds(inner[3][0]) and z and z[0] == "const" and z[2] == 0
        found = v[:200]
    ctx.judge(okm, "C24.reservation", "the registered VM upper bound is the maximum over all registered specs", expected="upper_bound = max(upper_bound, spec.upper_bound_offset()) for every spec", found=found, where=where(sv),
              key="C24.reservation|max")
    ub = [c for c in live_calls(sv) if c.name == "upper_bound_offset"]
    for c in ub:
        extra = [g for g in guard_strs(sv, c.bb) if "Iterator>::next" not in g and "uses_contiguous_side_metadata" not in g]
        ctx.judge(not extra, "C24.reservation", "every contiguous spec contributes to the bound", expected="guarded only by the loop and uses_contiguous_side_metadata()", found=str(extra), where=where(sv, c.line),
                  key="C24.reservation|all-specs")
    ini = F.fn("util::metadata::side_metadata::initialize_side_metadata")
    ex = [c for c in live_calls(ini) if c.name == "extract_side_metadata"]
    want = {"GLOBAL_LOG_BIT_SPEC", "LOCAL_FORWARDING_POINTER_SPEC", "LOCAL_FORWARDING_BITS_SPEC", "LOCAL_MARK_BIT_SPEC", "LOCAL_LOS_MARK_NURSERY_SPEC"} | ({"LOCAL_PINNING_BIT_SPEC"} if "object_pinning" in F.features else set())
    got = set(re.findall(r"ObjectModel::(\w+_SPEC)", show(strip(ini.flow.arg_tree(ex[0], 0))))) if len(ex) == 1 else set()
    ctx.judge(got == want, "C24.reservation", "initialize_side_metadata registers every VM spec", expected=str(sorted(want)), found=str(sorted(got)), where=where(ini), key="C24.reservation|registered")
    # object_model declares exactly these spec constants
    om = F.traits.get("vm::object_model::ObjectModel", {})
    items = [it.get("name") if isinstance(it, dict) else it for it in (om.get("items") or [])]
    decl = {x for x in items if isinstance(x, str) and x.endswith("_SPEC")}
    if decl:
        ctx.judge(decl == want, "C24.reservation", "the registered list is the list of spec constants ObjectModel declares", expected=str(sorted(decl)), found=str(sorted(want)), key="C24.reservation|declared")
    sc = [c for c in live_calls(ini) if c.name == "set_vm_side_metadata_specs"]
    bc = [c for c in live_calls(ini) if c.name == "initialize_side_metadata_base"]
    ctx.judge(len(sc) == 1 and len(bc) == 1 and ini.cfg.dominates(sc[0].bb, bc[0].bb) and "extract_side_metadata" in show(strip(ini.flow.arg_tree(sc[0], 0))), "C24.reservation",
              "VM specs are registered before the address range is reserved", expected="set_vm_side_metadata_specs(all VM side specs) dominates initialize_side_metadata_base", found="%d/%d" % (len(sc), len(bc)), where=where(ini),
              key="C24.reservation|order")
    tb = F.fn(LAY + "total_side_metadata_bytes")
    rt = [show(strip(t)) for _, t in tb.flow.return_trees()]
    ctx.judge(bool(rt) and all(re.match(r"^Ord::max\(SideMetadataSpec::upper_bound_offset\(.*LAST_LOCAL_SIDE_METADATA_SPEC.*\), .*VM_SIDE_METADATA_UPPER_BOUND_OFFSET", r) or ("Ord::max" in r and "LAST_LOCAL" in r) for r in rt),
              "C24.reservation", "the reservation covers the core tables and the registered VM tables", expected="max(LAST_LOCAL.upper_bound_offset(), vm_end)", found=str(rt)[:200], where=where(tb), key="C24.reservation|total")
    rb = F.fn(LAY + "side_metadata_reserved_bytes")
    rt = [show(strip(t)) for _, t in rb.flow.return_trees()]
    ctx.judge(bool(rt) and all(r.startswith("conversions::raw_align_up(layout::total_side_metadata_bytes()") for r in rt), "C24.reservation", "the reserved size is the total rounded UP", expected="raw_align_up(total_side_metadata_bytes(), granularity)",
              found=str(rt)[:160], where=where(rb), key="C24.reservation|round-up")
