"""C05 Generational remembered sets are sound: structural necessary clauses (DESIGN.md 4/C05)."""
import re
from .common import *
from .sched import stage_sites
from .cas import check_cas_claim
from ..engine import AnalysisError, show, strip, short, walk, last_seg, tree_calls

PROP = "C05"
LEVEL = "other"
QUICK = ["K0", "K1", "K3"]  # K3 (marksweep_as_nonmoving) carries the listed known finding
THOROUGH = ALL_CONFIGS
ASSUMPTIONS = ["the VM binding calls the write barrier / region-copy barrier on every reference store into the heap",
               "nursery sizing and object age arithmetic are not decided"]
EXPLANATION = (
    "Necessary structural conditions of remembered-set soundness: the object barrier's fast path calls the slow path exactly when "
    "the source is unlogged, the slow path records the source exactly when this thread won the log CAS; the generational semantics "
    "push the source object (resp. the *destination* slice, unless the destination is in the nursery) on every path; flush reaches "
    "both buffers and schedules ProcessModBuf / ProcessRegionModBuf into the Closure stage whenever a buffer is non-empty; every "
    "mutator is flushed after its roots are scanned, when it is destroyed and on explicit flush; ProcessModBuf re-arms the unlog bit "
    "of every remembered object and scans them in a nursery GC; every policy that can hold mature objects of a generational plan "
    "re-arms the unlog bit of each object it keeps alive, guarded exactly by the space's unlog_traced_object flag (not by the object's "
    "age), and the mature/mixed-age space argument helpers set that flag."
)
BAR = "<plan::barriers::ObjectBarrier as plan::barriers::Barrier<<S as plan::barriers::BarrierSemantics>::VM>>::"
BAR2 = "<plan::barriers::ObjectBarrier as plan::barriers::Barrier>::"
GEN = "<plan::generational::barrier::GenObjectBarrierSemantics as plan::barriers::BarrierSemantics>::"
GENI = "plan::generational::barrier::GenObjectBarrierSemantics::"


def bar(F, name):
    for p in (BAR, BAR2):
        if p + name in F.fns:
            return F.fns[p + name]
    c = [f for q, f in F.fns.items() if q.startswith("<plan::barriers::ObjectBarrier as plan::barriers::Barrier") and q.endswith("::" + name)]
    if len(c) == 1:
        return c[0]
    raise AnalysisError("C05: ObjectBarrier::%s not found" % name)


def run(ctx, F):
    # ---- C05.barrier-chain
    post = bar(F, "object_reference_write_post")
    slow = [c for c in live_calls(post) if c.name == "object_reference_write_slow"]
    okp = len(slow) == 1 and len(sig(post, slow[0].bb)) == 1 and bool(sig_find(post, slow[0].bb, r"object_is_unlogged\(arg1, arg2\)", True))
    ctx.judge(okp, "C05.barrier-chain", "write_post takes the slow path exactly when the source is unlogged", expected="slow path control dependent exactly on object_is_unlogged(src)",
              found=str([sig_strs(post, c.bb) for c in slow]), where=where(post), key="C05.barrier-chain|post")
    if slow:
        a = [strip(post.flow.arg_tree(slow[0], i)) for i in (1, 2, 3)]
        ctx.judge(a == [("arg", 2), ("arg", 3), ("arg", 4)], "C05.barrier-chain", "slow path receives (src, slot, target) unchanged", expected="(src, slot, target)", found=str([show(x) for x in a]),
                  where=where(post, slow[0].line), key="C05.barrier-chain|post-args")
    iu = F.fn("plan::barriers::ObjectBarrier::object_is_unlogged")
    rt = [show(strip(t)) for r, t in iu.flow.return_trees()]
    ctx.judge(all("UNLOG_BIT_SPEC" in r and "load_atomic" in r and ("Ne" in r) and "arg2" in r for r in rt) and bool(rt), "C05.barrier-chain", "object_is_unlogged reads the object's unlog bit",
              expected="UNLOG_BIT_SPEC.load_atomic(object) != 0", found=str(rt)[:200], where=where(iu), key="C05.barrier-chain|is_unlogged")
    sl = bar(F, "object_reference_write_slow")
    sem = [c for c in live_calls(sl) if c.name == "object_reference_write_slow" and c.trait and c.trait.endswith("BarrierSemantics")]
    oks = len(sem) == 1 and len(sig(sl, sem[0].bb)) == 1 and bool(sig_find(sl, sem[0].bb, r"log_object\(arg1, arg2\)", True))
    ctx.judge(oks, "C05.barrier-chain", "the source is recorded exactly by the thread that logged it", expected="semantics slow path control dependent exactly on log_object(src)",
              found=str([sig_strs(sl, c.bb) for c in sem]), where=where(sl), key="C05.barrier-chain|slow")
    check_cas_claim(ctx, F, F.fn("plan::barriers::ObjectBarrier::log_object"), "C05.log-cas", "ObjectBarrier::log_object")
    mp = bar(F, "memory_region_copy_post")
    ms = [c for c in live_calls(mp) if c.name == "memory_region_copy_slow"]
    okm = len(ms) == 1 and mp.cfg.must_pass([ms[0].bb]) and [strip(mp.flow.arg_tree(ms[0], i)) for i in (1, 2)] == [("arg", 2), ("arg", 3)]
    ctx.judge(okm, "C05.barrier-chain", "region-copy post barrier always reaches the semantics with (src, dst)", expected="memory_region_copy_slow(src, dst) on every path",
              found=str(len(ms)), where=where(mp), key="C05.barrier-chain|region-post")
    gw = F.fn(GEN + "object_reference_write_slow")
    ps = [c for c in live_calls(gw, name="push") if "modbuf" in show(strip(gw.flow.arg_tree(c, 0))) and "region" not in show(strip(gw.flow.arg_tree(c, 0)))]
    okg = len(ps) == 1 and gw.cfg.must_pass([ps[0].bb]) and strip(gw.flow.arg_tree(ps[0], 1)) == ("arg", 2)
    ctx.judge(okg, "C05.barrier-chain", "generational slow path remembers the source object on every path", expected="modbuf.push(src) unconditionally", found=str(len(ps)), where=where(gw),
              key="C05.barrier-chain|gen-push")
    gr = F.fn(GEN + "memory_region_copy_slow")
    rp = [c for c in live_calls(gr, name="push") if "region_modbuf" in show(strip(gr.flow.arg_tree(c, 0)))]
    okr = len(rp) == 1 and strip(gr.flow.arg_tree(rp[0], 1)) == ("arg", 3)
    ctx.judge(okr, "C05.barrier-chain", "region-copy slow path remembers the destination slice", expected="region_modbuf.push(dst)", found=str([show(strip(gr.flow.arg_tree(c, 1))) for c in rp]),
              where=where(gr), key="C05.barrier-chain|region-push")
    if rp:
        gs = sig(gr, rp[0].bb)
        okd = len(gs) == 1 and gs[0].val is False
        # the nursery test is computed from dst only: every alternative of the tested flag derives from arg3 and none from arg2
        alts = gr.flow.switch_alternatives(gs[0].bb) if gs else []
        trees = [strip(t) for b, t in alts] or ([gs[0].tree] if gs else [])
        uses_dst = all(any(s == ("arg", 3) for s in walk(t)) for t in trees) and bool(trees)
        uses_src = any(any(s == ("arg", 2) for s in walk(t)) for t in trees)
        names = all(tree_calls(t, name="is_object_in_nursery") or tree_calls(t, name="is_address_in_nursery") for t in trees)
        ctx.judge(okd and uses_dst and not uses_src and names, "C05.barrier-chain", "the slice is skipped only when the *destination* is in the nursery",
                  expected="push guarded exactly by !dst_in_nursery, with dst_in_nursery computed from dst on every arm", found=str([show(t)[:100] for t in trees]), where=where(gr, rp[0].line),
                  key="C05.barrier-chain|region-guard")

    # ---- C05.flush-chain
    gf = F.fn(GEN + "flush")
    for nm in ("flush_modbuf", "flush_region_modbuf"):
        cs = live_calls(gf, q=GENI + nm)
        ctx.judge(bool(cs) and gf.cfg.must_pass([c.bb for c in cs]), "C05.flush-chain", "semantics flush reaches %s" % nm, expected="%s on every path" % nm, found=str(len(cs)), where=where(gf),
                  key="C05.flush-chain|" + nm)
    sites = stage_sites(F)
    for nm, pk, buf in (("flush_modbuf", "ProcessModBuf", "modbuf"), ("flush_region_modbuf", "ProcessRegionModBuf", "region_modbuf")):
        f = F.fn(GENI + nm)
        ss = [s for s in sites if s.fn is f]
        okf = len(ss) == 1 and ss[0].stage == "Closure" and pk in ss[0].packets and ss[0].method == "add"
        if okf:
            g = sig(f, ss[0].cs.bb)
            okf = len(g) == 1 and "is_empty" in show(g[0].tree) and g[0].val is False and "take" in show(g[0].tree) and buf in show(g[0].tree)
        ctx.judge(okf, "C05.flush-chain", "%s schedules %s into Closure iff the taken buffer is non-empty" % (nm, pk), expected="add(%s::new(buf)) to Closure guarded exactly by !buf.is_empty()" % pk,
                  found=str([(s.method, s.stage, sorted(s.packets), sig_strs(f, s.cs.bb)) for s in ss])[:300], where=where(f), key="C05.flush-chain|sched|" + nm)
        for s in ss:
            a = show(strip(f.flow.arg_tree(s.cs, 1)))
            ctx.judge("take" in a and buf in a, "C05.flush-chain", "%s hands over the whole buffer" % nm, expected="packet built from %s.take()" % buf, found=a[:160], where=where(f, s.cs.line),
                      key="C05.flush-chain|take|" + nm)
    bf = bar(F, "flush")
    ctx.judge(bool([c for c in live_calls(bf) if c.name == "flush" and c.trait and c.trait.endswith("BarrierSemantics")]) and bf.cfg.must_pass([c.bb for c in live_calls(bf) if c.name == "flush"]),
              "C05.flush-chain", "Barrier::flush forwards to the semantics", expected="semantics.flush() on every path", found="", where=where(bf), key="C05.flush-chain|barrier")
    mfr = F.fn("plan::mutator_context::MutatorContext::flush_remembered_sets")
    cs = [c for c in live_calls(mfr) if c.name == "flush" and c.trait and c.trait.endswith("Barrier")]
    ctx.judge(bool(cs) and mfr.cfg.must_pass([c.bb for c in cs]), "C05.flush-chain", "MutatorContext::flush_remembered_sets flushes the barrier", expected="self.barrier().flush()", found=str(len(cs)),
              where=where(mfr), key="C05.flush-chain|mutator-rs")
    mfl = F.fn("plan::mutator_context::MutatorContext::flush")
    cs = live_calls(mfl, name="flush_remembered_sets")
    ctx.judge(bool(cs) and mfl.cfg.must_pass([c.bb for c in cs]), "C05.flush-chain", "MutatorContext::flush flushes the remembered sets", expected="flush_remembered_sets() on every path",
              found=str(len(cs)), where=where(mfl), key="C05.flush-chain|mutator")
    for im in F.impls_of("plan::mutator_context::MutatorContext"):
        over = [it["q"] for it in im["items"] if it["name"] in ("flush", "flush_remembered_sets")]
        ctx.judge(not over, "C05.flush-chain", "%s does not override flush" % last_seg(im["self"]), expected="default flush chain in use", found=str(over), key="C05.flush-chain|override|" + im["self"])
    smr = F.fn("<scheduler::gc_work::ScanMutatorRoots as scheduler::work::GCWork>::do_work")
    sc = live_calls(smr, q="vm::scanning::Scanning::scan_roots_in_mutator_thread")
    fl = [c for c in live_calls(smr) if c.name == "flush" and c.trait and c.trait.endswith("MutatorContext")]
    okf = len(sc) == 1 and bool(fl) and smr.cfg.must_pass([c.bb for c in fl], start=sc[0].bb, avoid_start=True)
    ctx.judge(okf, "C05.flush-chain", "every mutator is flushed after its roots are scanned", expected="mutator.flush() on every path after scan_roots_in_mutator_thread", found="scan=%d flush=%d" % (len(sc), len(fl)),
              where=where(smr), key="C05.flush-chain|roots")
    for q in ("memory_manager::destroy_mutator", "memory_manager::flush_mutator"):
        f = F.fn(q)
        fl = [c for c in live_calls(f) if c.name == "flush" and c.trait and c.trait.endswith("MutatorContext")]
        okd = bool(fl) and f.cfg.must_pass([c.bb for c in fl])
        if q.endswith("destroy_mutator"):
            od = live_calls(f, name="on_destroy")
            okd = okd and bool(od) and all(f.cfg.dominates(fl[0].bb, c.bb) for c in od)
        ctx.judge(okd, "C05.flush-chain", "%s flushes the mutator's remembered set" % last_seg(q), expected="mutator.flush() on every path (before on_destroy)", found=str(len(fl)), where=where(f),
                  key="C05.flush-chain|" + q)

    # ---- C05.modbuf-processing
    pm = F.fn("<plan::generational::gc_work::ProcessModBuf as scheduler::work::GCWork>::do_work")
    st = [c for c in live_calls(pm, name="store_atomic") if "GLOBAL_LOG_BIT_SPEC" in show(strip(pm.flow.arg_tree(c, 0)))]
    okm = len(st) == 1 and const_arg(pm.flow.arg_tree(st[0], 2)) == 1 and bool(guard_find(pm, st[0].bb, r"is_current_gc_nursery", True)) and any(p.val == "Some" and "next" in show(p.tree) for p in guards(pm, st[0].bb))
    ctx.judge(okm, "C05.modbuf-processing", "ProcessModBuf re-arms the unlog bit of every remembered object", expected="store 1 to GLOBAL_LOG_BIT_SPEC for each buffer entry (nursery GC)",
              found=str([guard_strs(pm, c.bb) for c in st])[:300], where=where(pm), key="C05.modbuf-processing|relog")
    if st:
        extra = [p for p in guards(pm, st[0].bb) if "is_current_gc_nursery" not in show(p.tree) and "next" not in show(p.tree)]
        ctx.judge(not extra, "C05.modbuf-processing", "no remembered object is skipped when re-arming", expected="only the loop and the nursery test guard the store", found=str([show(p.tree)[:80] for p in extra]),
                  where=where(pm, st[0].line), key="C05.modbuf-processing|relog-all")
    dn = [c for c in live_calls(pm, q="scheduler::work::GCWork::do_work")]
    okn = len(dn) == 1 and "ProcessNodes" in show(strip(pm.flow.arg_tree(dn[0], 0))) and "modbuf" in show(strip(pm.flow.arg_tree(dn[0], 0))) and "Closure" in show(strip(pm.flow.arg_tree(dn[0], 0)))
    if okn:
        g = [p for p in guards(pm, dn[0].bb) if "next" not in show(p.tree)]
        okn = len(g) == 1 and "is_current_gc_nursery" in show(g[0].tree) and g[0].val is True
    ctx.judge(okn, "C05.modbuf-processing", "remembered objects are scanned in every nursery GC", expected="ProcessNodes::new(take(modbuf), Closure).do_work under is_current_gc_nursery()",
              found=str([show(strip(pm.flow.arg_tree(c, 0)))[:120] for c in dn]), where=where(pm), key="C05.modbuf-processing|scan")
    pr = F.fn("<plan::generational::gc_work::ProcessRegionModBuf as scheduler::work::GCWork>::do_work")
    dn = [c for c in live_calls(pr, q="scheduler::work::GCWork::do_work")]
    sl_ = live_calls(pr, name="iter_slots")
    pu = [c for c in live_calls(pr, name="push")]
    okr = len(dn) == 1 and "ProcessSlots" in show(strip(pr.flow.arg_tree(dn[0], 0))) and bool(sl_) and bool(pu) and all(len([p for p in guards(pr, c.bb) if "next" not in show(p.tree) and "is_current_gc_nursery" not in show(p.tree)]) == 0 for c in pu)
    ctx.judge(okr, "C05.modbuf-processing", "every slot of every remembered slice is traced in a nursery GC", expected="all slots of all slices pushed, then ProcessSlots::do_work", found="do_work=%d iter_slots=%d push=%d" % (len(dn), len(sl_), len(pu)),
              where=where(pr), key="C05.modbuf-processing|region")

    # ---- C05.unlog-on-trace
    table = [
        ("<policy::copyspace::CopySpaceCopyContext as policy::copy_context::PolicyCopyContext>::post_copy", r"mark_byte_as_unlogged|mark_as_unlogged", []),
        ("policy::immix::immixspace::ImmixSpace::post_copy", r"mark_byte_as_unlogged|mark_as_unlogged", []),
        ("policy::immix::immixspace::ImmixSpace::unlog_object_if_needed", r"mark_byte_as_unlogged|mark_as_unlogged", []),
        ("policy::largeobjectspace::LargeObjectSpace::trace_object", r"mark_as_unlogged", [r"test_and_mark"]),
        ("policy::immortalspace::ImmortalSpace::trace_object", r"store_atomic|mark_as_unlogged", [r"test_and_mark"]),
    ]
    # VMSpace re-arms unlog bits only under the opt-in feature `set_unlog_bits_vm_space` (otherwise the binding owns the boot image's
    # unlog bits): none of the analysed configurations enables it, so the row is armed only if the store is compiled in
    _vmt = F.fns.get("policy::vmspace::VMSpace::trace_object")
    if _vmt is not None and any(re.fullmatch(r"store_atomic|mark_as_unlogged", c.name or "") and "LOG_BIT_SPEC" in show(strip(_vmt.flow.arg_tree(c, 0))) for c in live_calls(_vmt)):
        table.append(("policy::vmspace::VMSpace::trace_object", r"store_atomic|mark_as_unlogged", [r"test_and_mark"]))
    for q, rx, extra_ok in table:
        f = F.fn(q)
        us = [c for c in live_calls(f) if re.fullmatch(rx, c.name or "") and "LOG_BIT_SPEC" in show(strip(f.flow.arg_tree(c, 0)))]
        oku = len(us) >= 1
        det = []
        for c in us:
            gs = [p for p in guards(f, c.bb)]
            flag = [p for p in gs if show(p.tree).endswith("unlog_traced_object") and p.val is True]
            # conditions that already decide whether the object is marked at all (the mark test-and-set itself is guarded by
            # them) are not conditions on the unlogging
            base = set()
            for e in extra_ok:
                for mc in [x for x in live_calls(f) if re.search(e, x.name or "")]:
                    base |= {(show(p.tree), p.val) for p in guards(f, mc.bb)}
            other = [p for p in gs if p not in flag and not any(re.search(e, show(p.tree)) for e in extra_ok) and (show(p.tree), p.val) not in base]
            det.append([("%s==%s" % (show(p.tree)[:60], p.val)) for p in gs])
            oku = oku and len(flag) == 1 and not other
        ctx.judge(oku, "C05.unlog-on-trace", "%s re-arms the unlog bit of every object it keeps" % short(q),
                  expected="unlog store guarded exactly by common.unlog_traced_object (plus the mark winner test), never by the object's age", found=str(det)[:300], where=where(f),
                  key="C05.unlog-on-trace|" + q)
    # Immix: objects kept in place (marked without copying) are unlogged as well
    for q in ("policy::immix::immixspace::ImmixSpace::trace_object_without_moving", "policy::immix::immixspace::ImmixSpace::trace_object_with_opportunistic_copy"):
        f = F.fn(q)
        am = live_calls(f, name="attempt_mark")
        un = live_calls(f, name="unlog_object_if_needed")
        oki = bool(am) and bool(un)
        for a in am:
            edges = [(x, s) for (x, s) in branch_edges(f, r"attempt_mark", True)]
            if edges:
                oki = oki and all(f.cfg.must_pass([c.bb for c in un], start=s) for x, s in edges)
            else:
                oki = oki and f.cfg.must_pass([c.bb for c in un], start=a.bb, avoid_start=True)
        ctx.judge(oki, "C05.unlog-on-trace", "%s unlogs objects it marks in place" % short(q), expected="unlog_object_if_needed on every path after a successful in-place mark",
                  found="attempt_mark=%d unlog=%d" % (len(am), len(un)), where=where(f), key="C05.unlog-on-trace|inplace|" + q)
    args = {"get_mature_space_args": (True, True), "get_mixed_age_space_args": (False, True), "get_nursery_space_args": (False, False), "get_normal_space_args": (False, False)}
    for nm, (ua, ut) in args.items():
        f = F.fn("plan::global::CreateSpecificPlanArgs::" + nm)
        cs = live_calls(f, name="_get_space_args")
        okc = len(cs) == 1 and const_arg(f.flow.arg_tree(cs[0], 4)) is ua and const_arg(f.flow.arg_tree(cs[0], 5)) is ut
        ctx.judge(okc, "C05.unlog-on-trace", "%s passes (unlog_allocated_object, unlog_traced_object) = (%s, %s)" % (nm, ua, ut), expected=str((ua, ut)),
                  found=str([(const_arg(f.flow.arg_tree(c, 4)), const_arg(f.flow.arg_tree(c, 5))) for c in cs]), where=where(f), key="C05.unlog-on-trace|args|" + nm)
    gb = F.fn("plan::global::CreateSpecificPlanArgs::get_base_space_args")
    m = live_calls(gb, name="get_mature_space_args")
    ctx.judge(len(m) == 1 and bool(guard_find(gb, m[0].bb, r"^arg2$", True)), "C05.unlog-on-trace", "common spaces of generational plans are mature spaces", expected="get_mature_space_args iff generational",
              found=str([guard_strs(gb, c.bb) for c in m]), where=where(gb), key="C05.unlog-on-trace|base-args")
    _alloc_unlog(ctx, F)


def _alloc_unlog(ctx, F):
    """C05.alloc-unlog: spaces of CommonPlan/BasePlan are created as mature spaces in generational plans (unlog_allocated_object =
    true): their objects are not traced by nursery GCs, so a store into a freshly allocated one must already be seen by the
    object barrier - initialize_object_metadata sets the unlog bit when the space asks for it."""
    cpa = F.adts.get("plan::global::CommonPlan")
    bpa = F.adts.get("plan::global::BasePlan")
    tys = set()
    for a in (cpa, bpa):
        if not a:
            continue
        for fld in a["variants"][0]["fields"]:
            m = re.match(r"^(policy::[\w:]+Space)<", fld["ty"])
            if m:
                tys.add(m.group(1))
    n = 0
    for ty in sorted(tys):
        f = F.fns.get("<%s as policy::sft::SFT>::initialize_object_metadata" % ty)
        if f is None or f.cfg.noreturn:
            continue
        n += 1
        ul = [c for c in live_calls(f) if c.name == "mark_as_unlogged"]
        ok = len(ul) >= 1 and all(show(strip(f.flow.arg_tree(c, 1))) == "arg2" and any(show(p.tree) == "arg1.common.unlog_allocated_object" and p.val is True for p in guards(f, c.bb)) for c in ul)
        ctx.judge(ok, "C05.alloc-unlog", "%s unlogs a newly allocated object when it is created as a mature space" % last_seg(ty), expected="if self.common.unlog_allocated_object { GLOBAL_LOG_BIT_SPEC.mark_as_unlogged(object) }",
                  found="%d mark_as_unlogged call(s); guards %s" % (len(ul), [guard_strs(f, c.bb) for c in ul]), where=where(f), key="C05.alloc-unlog|" + last_seg(ty))
    ctx.floor("C05.alloc-unlog", n, 2, "policies used as common/base spaces")
    g = F.fn("plan::global::CreateSpecificPlanArgs::get_base_space_args")
    mat = [c for c in live_calls(g) if c.name == "get_mature_space_args"]
    ctx.judge(len(mat) == 1 and any(show(p.tree) == "arg2" and p.val is True for p in guards(g, mat[0].bb)), "C05.alloc-unlog", "common/base spaces of a generational plan are mature spaces", expected="get_mature_space_args under `generational`",
              found=str([guard_strs(g, c.bb) for c in mat]), where=where(g), key="C05.alloc-unlog|preset")
    m = F.fn("plan::global::CreateSpecificPlanArgs::get_mature_space_args")
    cs = [c for c in live_calls(m) if c.name == "_get_space_args"]
    ctx.judge(len(cs) == 1 and const_arg(m.flow.arg_tree(cs[0], 4)) is True and const_arg(m.flow.arg_tree(cs[0], 5)) is True, "C05.alloc-unlog", "a mature space unlogs allocated and traced objects", expected="_get_space_args(.., true, true, ..)",
              found=str([(const_arg(m.flow.arg_tree(c, 4)), const_arg(m.flow.arg_tree(c, 5))) for c in cs]), where=where(m), key="C05.alloc-unlog|mature")
