"""C03 Allocation results honour size, alignment, offset, zeroing, semantics (partial; DESIGN.md 4/C03).

Decided: the structural necessary conditions -- the semantics->allocator table and the allocator->space table are built in the
same order with the same allocator kinds (so a semantics allocates into the space the plan maps it to); the selector->field
tables agree; size/align/offset are handed down unswapped; every allocator aligns with its own align/offset parameters; the
page/byte extent requested covers the aligned object; zeroing is done under exactly the documented condition.
Not decided: the alignment arithmetic itself and termination of the retry loop."""
import re
from .common import *
from . import plans
from ..engine import AnalysisError, show, strip, short, walk, last_seg

PROP = "C03"
LEVEL = "other"
QUICK = ["K0", "K10"]
THOROUGH = ALL_CONFIGS
ASSUMPTIONS = ["align_allocation / get_maximum_aligned_size arithmetic is correct (value-level, not decided)",
               "the binding passes size/align/offset that satisfy the documented preconditions"]
EXPLANATION = (
    "create_allocator_mapping (semantics -> reserved allocator index) and create_space_mapping (reserved allocator index -> space) "
    "hand out indices by calling ReservedAllocators::add_*_allocator in sequence; the two sequences are extracted in dominance order "
    "for every feature configuration and must pair Code/code_space, LargeCode/code_lo_space, ReadOnly/ro_space, Immortal/get_immortal, "
    "Los/get_los, NonMoving/get_nonmoving with the same add_* method under the same include_common_plan guard. Per plan, every "
    "explicit selector in the plan's ALLOCATOR_MAPPING is pushed exactly once in its space mapping with a space type that the allocator "
    "kind can serve. Allocators::get_allocator(_mut) map each AllocatorSelector variant to its own field. Mutator::alloc/alloc_slow/"
    "post_alloc resolve the allocator with allocator_mapping[semantics]; post_alloc initialises metadata in that allocator's space. "
    "Crate-wide, a parameter named size/align/offset that is passed straight to a callee parameter named size/align/offset must keep "
    "its name (no swapped arguments). Every bump-style fast path returns align_allocation(_no_fill)(cursor, align, offset) with its own "
    "parameters. The LOS page request derives from get_maximum_aligned_size(size, align); the precise-stress byte budget is reduced by "
    "new_cursor - old cursor (gap + size). memory::zero sites are guarded by exactly the documented condition."
)

PAIR = {"Code": r"\.code_space$", "LargeCode": r"\.code_lo_space$", "ReadOnly": r"\.ro_space$",
        "Immortal": r"^CommonPlan::get_immortal\(", "Los": r"^CommonPlan::get_los\(", "NonMoving": r"^CommonPlan::get_nonmoving\("}
# which space types an allocator kind can serve (BumpAllocator works on any Space through Space::acquire)
KIND_SPACE = {"Immix": r"ImmixSpace<", "LargeObject": r"LargeObjectSpace<", "FreeList": r"MarkSweepSpace<", "MarkCompact": r"MarkCompactSpace<",
              "Malloc": r"MallocSpace<", "BumpPointer": r"(CopySpace|ImmortalSpace|LockFreeImmortalSpace|CompressorSpace|VMSpace)<"}
FIELD = {"BumpPointer": "bump_pointer", "LargeObject": "large_object", "Malloc": "malloc", "Immix": "immix", "FreeList": "free_list",
         "MarkCompact": "markcompact"}
NAMES = ("size", "align", "offset")


def dom_sorted(f, rows, bbi):
    """Sort rows by dominance of their blocks; AnalysisError if two rows are unordered."""
    import functools

    def cmp(a, b):
        if a[bbi] == b[bbi]:
            return 0
        if f.cfg.dominates(a[bbi], b[bbi]):
            return -1
        if f.cfg.dominates(b[bbi], a[bbi]):
            return 1
        raise AnalysisError("C03: rows of %s at blocks %s/%s are not ordered by dominance" % (short(f.q), a[bbi], b[bbi]))
    return sorted(rows, key=functools.cmp_to_key(cmp))


def typed_pushes(f):
    """(selector, space tree, source type of the &dyn Space coercion, call site) for every Vec::push of a (selector, space) tuple."""
    out = []
    for elems, cs in plans.vec_pushes(f):
        sel = plans.selector_of(elems[0])
        ty = None
        # find the tuple aggregate feeding this push and the unsize cast that produced its 2nd operand
        for i, b in enumerate(f.blocks):
            for st in b["s"]:
                if st[0] == "=" and st[2][0] == "agg" and st[2][1].get("k") == "tuple" and len(st[2][2]) == 2 and f.cfg.dominates(i, cs.bb):
                    op = st[2][2][1]
                    if op[0] not in ("c", "m"):
                        continue
                    src = op[1][0]
                    for b2 in f.blocks:
                        for st2 in b2["s"]:
                            if st2[0] == "=" and st2[1] == [src] and st2[2][0] == "cast" and "Unsize" in st2[2][1] and st2[2][2][0] in ("c", "m"):
                                cand = f.local_ty(st2[2][2][1][0])
                                # choose the aggregate closest to the push: same block wins
                                if ty is None or i == cs.bb:
                                    ty = cand
        out.append((sel, strip(elems[1]), ty, cs))
    return out


def plan_pushes(F, m):
    fs = [m.creator]
    if m.space_mapping_tree is not None:
        for s in walk(m.space_mapping_tree):
            if s and s[0] == "call":
                q = s[2] or s[1]
                if isinstance(q, str) and q in F.fns and not q.endswith("mutator_context::create_space_mapping") and q.split("::")[0] == "plan":
                    fs.append(F.fns[q])
    out = []
    for f in fs:
        out += typed_pushes(f)
    return out


def impl_param_names(F, cs):
    """Parameter names of the callee (from its body, or from every impl of the trait method)."""
    tq = cs.res or cs.q
    cands = []
    if tq in F.fns and F.fns[tq].blocks:
        cands = [F.fns[tq]]
    elif cs.q in F.fns and F.fns[cs.q].blocks:
        cands = [F.fns[cs.q]]
    elif cs.trait:
        nm = last_seg(cs.q)
        cands = [g for k, g in F.fns.items() if g.meta.get("impl_trait") == cs.trait and last_seg(k) == nm and g.blocks]
    names = None
    for g in cands:
        n = [g.local_name(i) for i in range(1, g.argc + 1)]
        if names is None:
            names = n
        elif names != n:
            # impls disagree on names at some position: blank it
            names = [a if a == b else None for a, b in zip(names, n)]
    return names


def run(ctx, F):
    # ---- C03.mapping-agreement
    fa, ra = plans.common_mapping(F)
    fs, rs = plans.common_space_mapping(F)
    ra = dom_sorted(fa, ra, 2)
    rs = dom_sorted(fs, rs, 2)
    ctx.judge(len(ra) == len(rs) and len(ra) >= 3, "C03.mapping-agreement", "both tables reserve the same number of allocators [%s]" % F.config,
              expected="len(create_allocator_mapping rows) == len(create_space_mapping rows) >= 3", found="%d vs %d" % (len(ra), len(rs)), where=where(fa),
              key="C03.mapping-agreement|len")
    for i, (a, s) in enumerate(zip(ra, rs)):
        sem, sela, _, ga = a
        sels, sp, _, gs, cs = s
        want = PAIR.get(sem)
        sps = show(sp)
        okr = want is not None and re.search(want, sps) is not None and sela == sels and ga == gs and sela[0] == "add"
        ctx.judge(okr, "C03.mapping-agreement", "reservation #%d: %s <-> %s" % (i, sem, sps[:60]),
                  expected="semantics %s paired with space %s, same add_* method and include_common_plan guard" % (sem, want),
                  found="allocator side %s guarded=%s; space side %s guarded=%s" % (sela, ga, sels, gs), where=where(fs, cs.line),
                  key="C03.mapping-agreement|%s" % sem)
    sems = {a[0] for a in ra}
    ctx.judge({"Immortal", "Los", "NonMoving"} <= sems, "C03.mapping-agreement", "common semantics are all mapped", expected="Immortal, Los, NonMoving",
              found=str(sorted(x for x in sems if x)), where=where(fa), key="C03.mapping-agreement|common-sems")
    # NonMoving allocator kind agrees with the nonmoving space policy of this configuration
    nm = [a for a in ra if a[0] == "NonMoving"]
    gn = F.fns.get("plan::global::CommonPlan::get_nonmoving")
    if nm and gn is not None:
        out = gn.meta.get("output") or ""
        want_add = {"ImmixSpace": "add_immix_allocator", "MarkSweepSpace": "add_free_list_allocator", "ImmortalSpace": "add_bump_pointer_allocator"}
        kind = [v for k, v in want_add.items() if k in out]
        # the return type is an alias (NonMovingSpace); resolve through the CommonPlan field type
        cp = F.adts.get("plan::global::CommonPlan")
        fty = ""
        if cp:
            for fld in cp["variants"][0]["fields"]:
                if fld["name"] == "nonmoving":
                    fty = fld["ty"]
        kind = kind or [v for k, v in want_add.items() if k in fty]
        ctx.judge(len(kind) == 1 and nm[0][1] == ("add", kind[0]), "C03.mapping-agreement", "NonMoving allocator kind matches the nonmoving space policy [%s]" % F.config,
                  expected="%s for %s" % (kind, fty or out), found=str(nm[0][1]), where=where(fa), key="C03.mapping-agreement|nonmoving-kind")

    # ---- C03.plan-mapping
    nplans = 0
    for m in plans.mutator_configs(F):
        name = short(m.creator.q)
        try:
            table, init, inc = plans.plan_mapping(F, m)
        except AnalysisError:
            table = {}
        pushes = plan_pushes(F, m)
        explicit = {v for v in table.values() if v and v[0] != "add"}
        pushed = [p[0] for p in pushes if p[0] and p[0][0] != "add"]
        if table:
            nplans += 1
            ctx.judge(explicit <= set(pushed), "C03.plan-mapping", "%s: every selector used by ALLOCATOR_MAPPING has a space" % name,
                      expected="explicit selectors %s each pushed in space_mapping" % sorted(explicit), found="pushed %s" % pushed, where=where(m.creator),
                      key="C03.plan-mapping|covered|" + m.creator.q)
        ctx.judge(len(pushed) == len(set(pushed)), "C03.plan-mapping", "%s: no selector is bound to two spaces" % name, expected="distinct selectors",
                  found=str(pushed), where=where(m.creator), key="C03.plan-mapping|distinct|" + m.creator.q)
        for sel, sp, ty, cs in pushes:
            if not sel or sel[0] == "add":
                continue
            want = KIND_SPACE.get(sel[0])
            ctx.judge(bool(want) and ty is not None and re.search(want, ty) is not None, "C03.plan-mapping",
                      "%s: %s(%s) is bound to a space it can allocate into" % (name, sel[0], sel[1]), expected="space type matching %s" % want,
                      found="%s : %s" % (show(sp)[:80], ty), where=where(cs.fn, cs.line), key="C03.plan-mapping|type|%s|%s%s" % (m.creator.q, sel[0], sel[1]))
    ctx.floor("C03.plan-mapping", nplans, 8, "plans whose ALLOCATOR_MAPPING table was reconstructed")

    # ---- C03.selector-tables
    for q, acc in (("util::alloc::allocators::Allocators::get_allocator", "assume_init_ref"), ("util::alloc::allocators::Allocators::get_allocator_mut", "assume_init_mut")):
        f = F.fn(q)
        seen = set()
        for b, t, g in ret_table(f):
            s = show(strip(t))
            var = [p.val for p in g if show(p.tree) == "arg2"]
            mm = re.match(r"^MaybeUninit::%s\(arg1\.(\w+)\[" % acc, s)
            okv = len(var) == 1 and mm is not None and FIELD.get(var[0]) == mm.group(1)
            if var:
                seen.add(var[0])
            ctx.judge(okv, "C03.selector-tables", "%s: selector %s reads its own array" % (short(q), var), expected="AllocatorSelector::V(i) -> self.<field of V>[i]",
                      found=s[:100], where=where(f), key="C03.selector-tables|%s|%s" % (last_seg(q), var[0] if var else "?"))
            # the index is the payload of the matched variant
            idx = [x for x in walk(strip(t)) if x and x[0] == "index"]
        ctx.judge(seen == set(FIELD), "C03.selector-tables", "%s covers every AllocatorSelector variant" % short(q), expected=str(sorted(FIELD)), found=str(sorted(seen)),
                  where=where(f), key="C03.selector-tables|%s|cover" % last_seg(q))
    sel_adt = F.adts.get("util::alloc::allocators::AllocatorSelector")
    if not sel_adt:
        raise AnalysisError("AllocatorSelector enum not found")
    vs = {v["name"] for v in sel_adt["variants"]}
    ctx.judge(vs - {"None"} == set(FIELD), "C03.selector-tables", "frozen selector->field table lists every AllocatorSelector variant", expected=str(sorted(vs - {"None"})),
              found=str(sorted(FIELD)), key="C03.selector-tables|variants")

    # ---- C03.post-alloc-same-space
    MC = "<plan::mutator_context::Mutator as plan::mutator_context::MutatorContext>::"
    for meth, callee, sem_arg in (("alloc", "alloc", "arg5"), ("alloc_with_options", "alloc_with_options", "arg5"), ("alloc_slow", "alloc_slow", "arg5"),
                                  ("alloc_slow_with_options", "alloc_slow_with_options", "arg5"), ("post_alloc", "get_space", "arg4")):
        f = F.fns.get(MC + meth)
        if f is None:
            if meth == "alloc_slow_with_options":
                continue
            raise AnalysisError("C03: %s missing" % (MC + meth))
        cs = live_calls(f, name=callee)
        want = "Allocators::get_allocator_mut(arg1.allocators, <EnumMap as Index>::index(arg1.config.allocator_mapping, %s))" % sem_arg
        okm = len(cs) == 1 and show(strip(f.flow.arg_tree(cs[0], 0))) == want and f.cfg.must_pass([cs[0].bb])
        ctx.judge(okm, "C03.post-alloc-same-space", "Mutator::%s uses the allocator mapped to the requested semantics" % meth,
                  expected="%s on %s, on every path" % (callee, want), found=str([show(strip(f.flow.arg_tree(c, 0)))[:160] for c in cs]), where=where(f),
                  key="C03.post-alloc-same-space|" + meth)
    f = F.fn(MC + "post_alloc")
    ini = live_calls(f, name="initialize_object_metadata")
    oki = len(ini) == 1 and show(strip(f.flow.arg_tree(ini[0], 0))).startswith("Allocator::get_space(Allocators::get_allocator_mut(") and \
        show(strip(f.flow.arg_tree(ini[0], 1))) == "arg2" and show(strip(f.flow.arg_tree(ini[0], 2))) == "arg3" and f.cfg.must_pass([ini[0].bb])
    ctx.judge(oki, "C03.post-alloc-same-space", "post_alloc initialises the object's metadata in the space it was allocated in",
              expected="allocator.get_space().initialize_object_metadata(refer, bytes) on every path", found=str([show(strip(f.flow.arg_tree(c, 0)))[:120] for c in ini]),
              where=where(f), key="C03.post-alloc-same-space|init")

    # ---- C03.arg-passthrough (crate-wide swapped size/align/offset detector)
    n_sites = 0
    for f in F.fns.values():
        if f.kind == "closure" or not f.blocks:
            continue
        pn = {i: f.local_name(i) for i in range(1, f.argc + 1)}
        if not any(v in NAMES for v in pn.values()):
            continue
        for cs in live_calls(f):
            if not cs.q or cs.ext:
                continue
            names = impl_param_names(F, cs)
            if not names or not any(n in NAMES for n in names):
                continue
            for i, n in enumerate(names):
                if n not in NAMES or i >= len(cs.args):
                    continue
                t = strip(f.flow.arg_tree(cs, i))
                if t and t[0] == "arg" and pn.get(t[1]) in NAMES:
                    n_sites += 1
                    if pn[t[1]] != n:
                        ctx.bad("C03.arg-passthrough", "%s passes its `%s` as `%s` of %s" % (short(f.q), pn[t[1]], n, short(cs.q)),
                                expected="size/align/offset handed down under the same name", found="arg %d of the call is parameter `%s`" % (i, pn[t[1]]),
                                where=where(f, cs.line), key="C03.arg-passthrough|%s|%s|%s" % (f.q, cs.q, n))
    ctx.ok("C03.arg-passthrough", "size/align/offset parameters are handed down unswapped", "%d direct pass-through argument positions checked" % n_sites)
    ctx.floor("C03.arg-passthrough", n_sites, 60, "size/align/offset pass-through positions")

    # ---- C03.align-call
    AL = "util::alloc::allocator::Allocator>::"
    fast = {
        "<util::alloc::bumpallocator::BumpAllocator as " + AL + "alloc": r"bump_pointer\.cursor",
        "<util::alloc::immix_allocator::ImmixAllocator as " + AL + "alloc": r"bump_pointer\.cursor",
        "util::alloc::immix_allocator::ImmixAllocator::overflow_alloc": r"large_bump_pointer\.cursor",
        "<util::alloc::bumpallocator::BumpAllocator as " + AL + "alloc_slow_once_precise_stress": r"bump_pointer\.cursor",
        "<util::alloc::markcompact_allocator::MarkCompactAllocator as " + AL + "alloc": None,
        "<util::alloc::large_object_allocator::LargeObjectAllocator as " + AL + "alloc": None,
        "<util::alloc::free_list_allocator::FreeListAllocator as " + AL + "alloc": None,
    }
    for q, cur in fast.items():
        f = F.fn(q)
        pn = [f.local_name(i) for i in range(1, f.argc + 1)]
        ia, io = pn.index("align") + 1, pn.index("offset") + 1
        als = [c for c in live_calls(f) if c.name in ("align_allocation", "align_allocation_no_fill")]
        okq = True
        for c in als:
            a1, a2 = show(strip(f.flow.arg_tree(c, 1))), show(strip(f.flow.arg_tree(c, 2)))
            if a1 != "arg%d" % ia or a2 != "arg%d" % io:
                okq = False
            if cur and not re.search(cur, show(strip(f.flow.arg_tree(c, 0)))):
                okq = False
        need = cur is not None or "free_list" in q or "large_object" in q
        if need and not als:
            okq = False
        ctx.judge(okq, "C03.align-call", "%s aligns with its own align/offset" % short(q), expected="align_allocation(_no_fill)(%s, align, offset)" % (cur or "addr"),
                  found=str([[show(strip(f.flow.arg_tree(c, i)))[:60] for i in range(3)] for c in als]), where=where(f), key="C03.align-call|" + q)
        if cur:
            # the fast-path result is the aligned address itself
            alts = []
            for r, t in f.flow.return_trees():
                st = strip(t)
                alts += list(st[1]) if st and st[0] == "phi" else [st]
            fastalts = [a for a in alts if a and a[0] == "call" and "align_allocation" in show(a)[:50]]
            ctx.judge(len(fastalts) >= 1 and all(re.match(r"^allocator::align_allocation(_no_fill)?\(arg1\.(large_)?bump_pointer\.cursor, arg%d, arg%d\)$" % (ia, io), show(a)) for a in fastalts),
                      "C03.align-call", "%s returns the aligned cursor" % short(q), expected="result = align_allocation(cursor, align, offset)",
                      found=str([show(a)[:90] for a in alts]), where=where(f), key="C03.align-call|ret|" + q)

    # ---- C03.extent
    la = F.fn("<util::alloc::large_object_allocator::LargeObjectAllocator as util::alloc::allocator::Allocator>::alloc_slow_once")
    ap = live_calls(la, name="allocate_pages")
    ctx.judge(len(ap) >= 1, "C03.extent", "LargeObjectAllocator::alloc_slow_once acquires pages from the LOS", expected=">=1 allocate_pages call", found=str(len(ap)),
              where=where(la), key="C03.extent|los-pages-site")
    for c in ap:
        s = show(strip(la.flow.arg_tree(c, 2)))
        ctx.judge(s == "conversions::bytes_to_pages_up(allocator::get_maximum_aligned_size(arg2, arg3))", "C03.extent",
                  "LOS page count covers size plus worst-case alignment slack on every path",
                  expected="bytes_to_pages_up(get_maximum_aligned_size(size, align)) with no alternative definition", found=s[:200], where=where(la, c.line),
                  key="C03.extent|los-pages")
    lalloc = F.fn("<util::alloc::large_object_allocator::LargeObjectAllocator as util::alloc::allocator::Allocator>::alloc")
    for c in [c for c in live_calls(lalloc) if c.name in ("align_allocation", "align_allocation_no_fill")]:
        s = show(strip(lalloc.flow.arg_tree(c, 0)))
        ctx.judge("alloc_slow" in s, "C03.extent", "LOS aligns the start of the cell returned by the slow path", expected="align_allocation(alloc_slow(size, align, offset), ..)",
                  found=s[:120], where=where(lalloc, c.line), key="C03.extent|los-align-cell")
    ps = F.fn("<util::alloc::bumpallocator::BumpAllocator as util::alloc::allocator::Allocator>::alloc_slow_once_precise_stress")
    sa = [c for c in ps.calls if c.bb in ps.cfg.live and c.name == "sub_assign" and re.search(r"bump_pointer\.limit$", show(strip(ps.flow.arg_tree(c, 0))))]
    cst = [(bb, j) for (bb, j, pl, t) in stores(ps) if re.search(r"bump_pointer\.cursor$", place_str(ps, pl))]
    want = ("<Address as Sub<util::address::Address>>::sub(<Address as Add<usize>>::add(allocator::align_allocation_no_fill(arg1.bump_pointer.cursor, arg3, arg4), arg2), "
            "arg1.bump_pointer.cursor)")
    oks = len(sa) == 1 and len(cst) == 1 and show(strip(ps.flow.arg_tree(sa[0], 1))) == want and ps.cfg.dominates(sa[0].bb, cst[0][0]) and sa[0].bb != cst[0][0]
    ctx.judge(oks, "C03.extent", "precise-stress byte budget shrinks by gap + size, computed before the cursor moves",
              expected="limit -= (align(cursor)+size) - cursor, then cursor = new_cursor", found=str([show(strip(ps.flow.arg_tree(c, 1)))[:200] for c in sa]),
              where=where(ps), key="C03.extent|stress-budget")
    # the stress limit comparison uses cursor + remaining bytes
    gts = [c for c in ps.calls if c.bb in ps.cfg.live and c.name == "gt"]
    okg = any(show(strip(ps.flow.arg_tree(c, 1))) == "<Address as Add<usize>>::add(arg1.bump_pointer.cursor, Address::as_usize(arg1.bump_pointer.limit))" and
              "align_allocation_no_fill" in show(strip(ps.flow.arg_tree(c, 0))) for c in gts)
    ctx.judge(okg, "C03.extent", "precise-stress overflow test compares new_cursor with cursor + remaining bytes", expected="new_cursor > cursor + limit.as_usize()",
              found=str([[show(strip(ps.flow.arg_tree(c, i)))[:100] for i in range(2)] for c in gts]), where=where(ps), key="C03.extent|stress-limit")

    # ---- C03.zeroing
    zsites = {}
    for f in F.fns.values():
        for c in live_calls(f, name="zero"):
            if c.q and c.q.endswith("memory::zero"):
                zsites.setdefault(f.q, []).append(c)
    def zrule(q, a0, a1, guard_rx, guard_val, what):
        f = F.fns.get(q)
        cs = zsites.get(q, [])
        if f is None:
            raise AnalysisError("C03.zeroing: %s missing" % q)
        okz = len(cs) == 1
        found = "no memory::zero call"
        if okz:
            c = cs[0]
            s0, s1 = show(strip(f.flow.arg_tree(c, 0))), show(strip(f.flow.arg_tree(c, 1)))
            gs = guards(f, c.bb)
            found = "zero(%s, %s) under %s" % (s0[:80], s1[:80], guard_strs(f, c.bb))
            okz = re.search(a0, s0) is not None and re.search(a1, s1) is not None
            if guard_rx:
                okz = okz and any(re.search(guard_rx, show(p.tree)) and p.val is guard_val for p in gs)
        ctx.judge(okz, "C03.zeroing", what, expected="memory::zero(%s, %s)%s" % (a0, a1, " iff %s == %s" % (guard_rx, guard_val) if guard_rx else ""), found=found,
                  where=where(f), key="C03.zeroing|" + q)
        return f, cs
    f, cs = zrule("policy::space::Space::get_new_pages_and_initialize", r"get_new_pages\(.*\) as Ok\.0\.start$", r"^conversions::pages_to_bytes\(PageResource::get_new_pages\(.*as Ok\.0\.pages\)$",
                  r"^Space::common\(arg1\)\.zeroed$", True, "freshly acquired pages are zeroed iff the space is declared zeroed")
    if cs:
        # only the `zeroed` flag and success of get_new_pages decide
        extra = [p for p in guards(f, cs[0].bb) if not re.search(r"zeroed$|get_new_pages\(", show(p.tree))]
        ctx.judge(not extra, "C03.zeroing", "zeroing of new pages depends on nothing but common().zeroed", expected="no further guard", found=str([show(p.tree)[:80] for p in extra]),
                  where=where(f), key="C03.zeroing|new-pages-guard")
        # and it happens before the address is returned: zero block is passed on every Ok-path with zeroed==True -> by construction of guards
    f, cs = zrule("util::alloc::immix_allocator::ImmixAllocator::acquire_recyclable_lines", r"^arg1\.bump_pointer\.cursor$",
                  r"^<Address as Sub<util::address::Address>>::sub\(arg1\.bump_pointer\.limit, arg1\.bump_pointer\.cursor\)$", r"get_next_available_lines", "Some",
                  "recycled lines are zeroed before being handed to the bump pointer")
    if cs:
        st = [bb for (bb, j, pl, t) in stores(f) if re.search(r"bump_pointer\.(cursor|limit)$", place_str(f, pl))]
        ctx.judge(len(st) >= 2 and all(f.cfg.dominates(b, cs[0].bb) for b in st) and all(f.cfg.must_pass([cs[0].bb], start=b) for b in st), "C03.zeroing",
                  "the zeroed range is the newly installed [cursor, limit)", expected="cursor/limit stores dominate the zero call and always reach it", found=str(st),
                  where=where(f), key="C03.zeroing|recyclable-order")
    f, cs = zrule("util::alloc::free_list_allocator::FreeListAllocator::block_alloc", r"^Block::load_free_list\(arg2\)$", r"^Block::load_block_cell_size\(arg2\)$",
                  r"^Address::is_zero\(Block::load_free_list\(arg2\)\)$", False, "a free-list cell is zeroed for its whole cell size before it is returned")
    if cs:
        edges = branch_edges(f, r"^Address::is_zero\(.*load_free_list", False)
        ctx.judge(bool(edges) and all(f.cfg.must_pass([cs[0].bb], start=s) for _, s in edges), "C03.zeroing", "every non-null cell return passes the zeroing",
                  expected="must-pass", found=str(edges), where=where(f), key="C03.zeroing|cell-all-paths")
    # spaces are created zeroed unless explicitly not: the flag reaches CommonSpace unchanged
    cn = F.fn("policy::space::CommonSpace::new")
    zs = None
    for i, b in enumerate(cn.blocks):
        for j, st in enumerate(b["s"]):
            if st[0] == "=" and st[2][0] == "agg" and st[2][1].get("adt", "").endswith("space::CommonSpace") and i in cn.cfg.live:
                for n, op in zip(st[2][1]["fields"], st[2][2]):
                    if n == "zeroed":
                        zs = show(strip(cn.flow.operand_tree(op, i, j)))
    ctx.judge(zs is not None and re.search(r"plan_args\.zeroed$", zs) is not None, "C03.zeroing", "CommonSpace.zeroed is the plan's request", expected="args.plan_args.zeroed",
              found=str(zs), where=where(cn), key="C03.zeroing|flag")
