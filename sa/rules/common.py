"""Shared helpers for rule modules."""
import re
from ..engine import (AnalysisError, ctrl_sig, assumed_sig, dom_guards, show, strip, walk, tree_calls, tree_has, last_seg, short, has_leaf)

ALL_CONFIGS = ["K0", "K1", "K2", "K3", "K4", "K5", "K6", "K7", "K8", "K9", "K10", "K11", "K12", "K13"]

_TRANSPARENT_PREFIX = (
    "log::", "core::fmt", "std::fmt", "core::panicking", "std::panicking", "probe::", "std::io::", "alloc::fmt",
    "std::ops::Deref::deref", "std::ops::DerefMut::deref_mut", "std::convert::AsRef::as_ref", "std::borrow::",
    "std::clone::Clone::clone", "std::ops::Index::index", "std::ops::IndexMut::index_mut", "std::ops::Drop::drop",
    "std::mem::drop", "core::mem::drop", "std::convert::Into::into", "std::convert::From::from", "std::fmt::",
    "std::string::ToString", "std::time::", "std::hint::", "std::intrinsics::", "core::intrinsics::",
    "std::iter::", "std::option::Option::", "std::result::Result::", "std::sync::Arc", "std::boxed::Box",
    "std::cmp::", "std::ops::", "std::marker::", "std::default::Default", "std::ptr::", "std::slice::",
    "std::vec::Vec::len", "std::vec::Vec::is_empty", "std::vec::Vec::iter", "std::any::", "std::thread::yield_now",
)


def is_transparent_call(cs):
    """Calls that never count as effects (logging, formatting, smart-pointer plumbing)."""
    q = cs.q
    if q is None:
        return False
    if cs.exp and (q.startswith("core::fmt") or "fmt::" in q or q.startswith("log::")):
        return True
    for p in _TRANSPARENT_PREFIX:
        if q.startswith(p):
            return True
    if cs.res:
        for p in ("<std::sync::Arc as", "<std::boxed::Box as", "<std::sync::MutexGuard as", "<atomic_refcell::", "<std::vec::Vec as std::ops::Deref",
                  "<&", "<std::option::Option as", "<std::result::Result as"):
            if cs.res.startswith(p):
                return True
    return False


def live_calls(fn, name=None, q=None, trait=None, qre=None, include_transparent=True):
    out = []
    live = fn.cfg.live
    for cs in fn.calls:
        if cs.bb not in live:
            continue
        if not match_call(cs, name, q, trait, qre):
            continue
        if not include_transparent and is_transparent_call(cs):
            continue
        out.append(cs)
    return out


def match_call(cs, name=None, q=None, trait=None, qre=None):
    if cs.q is None:
        return name is None and q is None and trait is None and qre is None
    if name is not None and cs.name != name and (not cs.res or last_seg(cs.res) != name):
        return False
    if q is not None and cs.q != q and cs.res != q:
        return False
    if trait is not None and cs.trait != trait:
        return False
    if qre is not None and not (re.search(qre, cs.q) or (cs.res and re.search(qre, cs.res))):
        return False
    return True


def effect_calls(fn):
    return live_calls(fn, include_transparent=False)


_TRY = {"Option": {"Continue": "Some", "Break": "None"}, "Result": {"Continue": "Ok", "Break": "Err"}}


def _try_kind(t):
    t = strip(t)
    if t and t[0] == "call" and isinstance(t[2] or t[1], str) and last_seg(t[2] or t[1]) == "branch" and len(t[3]) == 1:
        r = t[2] or ""
        return "Option" if "option::Option as" in r else "Result" if "result::Result as" in r else None
    return None


def norm_guard(p):
    """(tree, value) of a guard with the `?` desugaring folded: branch(x) == Continue/Break becomes x == Some/None (Ok/Err)."""
    k = _try_kind(p.tree)
    if k and p.val in ("Continue", "Break"):
        return simp(strip(p.tree)[3][0]), _TRY[k][p.val]
    return simp(p.tree), p.val


def simp(t):
    """strip() plus projection folding: field k of a tuple / struct aggregate built in place is the k-th operand (what a helper
    that returns a pair looks like once it has been inlined)."""
    t = strip(t)
    if not isinstance(t, tuple) or not t:
        return t
    if t[0] == "field":
        b = simp(t[1])
        if b and b[0] == "agg" and b[1][0] == "tuple" and str(t[2]).isdigit() and int(t[2]) < len(b[2]):
            return simp(b[2][int(t[2])])
        return ("field", b) + tuple(t[2:])
    # the `?` operator: Try::branch(x) as Continue  ==  x as Some / Ok ;  from_residual(..) of an Option  ==  None
    if t[0] == "variant" and len(t) >= 3:
        k = _try_kind(t[1])
        if k and t[2] in ("Continue", "Break"):
            return ("variant", simp(strip(t[1])[3][0]), _TRY[k][t[2]]) + tuple(t[3:])
    if t[0] == "call" and isinstance(t[2] or t[1], str) and last_seg(t[2] or t[1]) == "from_residual" and "option::Option as" in (t[2] or ""):
        return ("agg", ("adt", "std::option::Option", "None", ()), ())
    return tuple(simp(x) if isinstance(x, tuple) and x and isinstance(x[0], str) else (tuple(simp(y) if isinstance(y, tuple) and y and isinstance(y[0], str) else y for y in x) if isinstance(x, tuple) else x) for x in t)


def is_pure_getter(F, q, depth=2):
    """A crate function that only reads: every parameter is a shared reference or a plain value, and every call it makes is
    transparent plumbing or again a pure getter (interior mutation needs an atomic / lock call, which is neither)."""
    f = F.fns.get(q) if q else None
    if f is None or depth < 0:
        return False
    ins = f.meta.get("inputs") or []
    if any(str(i).startswith("&mut") or str(i).startswith("*mut") for i in ins):
        return False
    return all(is_pure_getter(F, c.res or c.q, depth - 1) or is_pure_getter(F, c.q, depth - 1) for c in effect_calls(f))


def is_log_pred(p):
    s = show(p.tree)
    return "log::max_level" in s or "log::Level" in s or "STATIC_MAX_LEVEL" in s or "Level::" in s and "PartialOrd" in s


def sig(fn, bb):
    """Control-dependence signature without logging guards."""
    return [p for p in ctrl_sig(fn, bb) if not is_log_pred(p)]


def _is_bool_const(t, v):
    return t and t[0] == "const" and t[2] is v


def expand_pred(fn, p, depth=0):
    """Implications of a predicate on a short-circuit temporary:
    (a && b) is lowered to phi(b | false): == true implies b == true and the guards of b's definition (a == true);
    (a || b) is lowered to phi(true | b): == false implies b == false and the guards of b's definition (a == false)."""
    out = [p]
    if depth > 4 or not isinstance(p.val, bool):
        return out
    sw = fn.blocks[p.bb]["t"]
    if sw["k"] != "switch":
        return out
    alts = fn.flow.switch_alternatives(p.bb)
    if len(alts) < 2:
        return out
    neg = False
    # the decoded predicate may have been negated; recompute polarity w.r.t. the raw local
    raw_true = p.label is not None and (p.label == ("else", (0,)) or p.label == ("v", 1))
    other = [(b, t) for (b, t) in alts if not _is_bool_const(strip(t), not raw_true)]
    if len(other) == 1 and len(other) < len(alts) and other[0][0] is not None:
        b, t = other[0]
        from ..engine import Pred
        t2 = strip(t)
        val = raw_true
        while t2 and t2[0] == "un" and t2[1] == "Not":
            t2 = strip(t2[2])
            val = not val
        if not _is_bool_const(t2, raw_true):
            q = Pred(t2, p.label, p.bb, val)
            out.append(q)
        for g in dom_guards(fn, b):
            if g.bb != p.bb:
                out.extend(expand_pred(fn, g, depth + 1))
    elif len(other) >= 2 and len(other) < len(alts) and all(b is not None for b, _ in other):
        # several definitions remain possible (e.g. `let keep = a || (!b && c)` named and tested later): whatever guards ALL of
        # them were defined under holds here
        sets = []
        for b, t in other:
            gs = []
            for g in dom_guards(fn, b):
                if g.bb != p.bb:
                    gs.extend(expand_pred(fn, g, depth + 1))
            sets.append(gs)
        for g in sets[0]:
            key = (show(g.tree), g.val)
            if all(any((show(h.tree), h.val) == key for h in s2) for s2 in sets[1:]):
                out.append(g)
    return out


def guards(fn, bb, assumed=False):
    """Dominating branch edges of bb (loop-stable), without logging guards; short-circuit
    temporaries are expanded into their implied conjuncts."""
    g = []
    for p in dom_guards(fn, bb):
        if is_log_pred(p):
            continue
        for q in expand_pred(fn, p):
            if not is_log_pred(q) and all((q.tree, q.val) != (x.tree, x.val) for x in g):
                g.append(q)
    if assumed:
        g += [p for p in assumed_sig(fn, bb) if not is_log_pred(p)]
    return g


def guard_strs(fn, bb, assumed=False):
    return sorted(set("%s == %s" % (show(p.tree), p.val) for p in guards(fn, bb, assumed)))


def guard_find(fn, bb, rx, val=None, assumed=False):
    out = []
    for p in guards(fn, bb, assumed):
        if re.search(rx, show(p.tree)) and (val is None or p.val == val):
            out.append(p)
    return out


def sig_assumed(fn, bb):
    """Signature plus the conditions of dominating assert-like switches (other arms diverge)."""
    return sig(fn, bb) + [p for p in assumed_sig(fn, bb) if not is_log_pred(p)]


def sig_strs(fn, bb):
    return sorted(set("%s == %s" % (show(p.tree), p.val) for p in sig(fn, bb)))


def sig_find(fn, bb, rx, val=None):
    """Predicates of the signature whose rendered tree matches rx (and value equals val if given)."""
    out = []
    for p in sig(fn, bb):
        if re.search(rx, show(p.tree)) and (val is None or p.val == val):
            out.append(p)
    return out


def where(fn, line=None):
    return "%s:%s in %s" % (fn.file, line if line is not None else fn.line, fn.q)


def callers(F, q):
    """Call sites of callee q (as written or resolved), live blocks only."""
    out = []
    for cs in F.cg.callers_of(q):
        if cs.bb in cs.fn.cfg.live:
            out.append(cs)
    return out


def check_callers(ctx, F, rule, callee_q, allowed, min_sites=1, desc=None):
    """WHO rule: every live call site of callee_q is in a function listed in `allowed`
    (dict caller-q -> reason). Missing callee altogether is an analysis error."""
    sites = callers(F, callee_q)
    desc = desc or short(callee_q)
    if len(sites) < min_sites:
        defined = callee_q in F.fns or any(it["q"] == callee_q for tr in F.traits.values() for it in tr["items"])
        if not defined:
            # the anchor itself is gone (renamed/removed API): the rule cannot judge
            raise AnalysisError("%s [%s]: anchor %s is not defined in the crate" % (rule, F.config, callee_q))
        # the function exists but the required call sites are gone: that is what the rule is about
        ctx.bad(rule, "%s has %d call site(s)" % (desc, len(sites)), "at least %d call site(s) of %s (in %s)" % (min_sites, desc, sorted(allowed)),
                "%d call sites" % len(sites), where="", key="%s|%s|missing" % (rule, desc))
    def _outer(q):
        return re.sub(r"(::\{closure#\d+\})+$", "", q)
    allowed_outer = {_outer(k) for k in allowed}

    def _allowed(q, depth=0):
        # the listed function itself, any closure of it, or a non-public helper all of whose callers are allowed (helper extraction)
        o = _outer(q)
        if q in allowed or o in allowed_outer:
            return True
        h = F.fns.get(o)
        if h is None or depth >= 2 or str(h.meta.get("vis", "")).startswith("Public"):
            return False
        cs2 = callers(F, o)
        return bool(cs2) and all(_allowed(c.fn.q, depth + 1) for c in cs2)
    for cs in sites:
        okc = _allowed(cs.fn.q)
        ctx.judge(okc, rule, "%s <- %s" % (desc, cs.fn.q),
                  expected="callers of %s limited to %s" % (desc, sorted(allowed)),
                  found="call from %s" % cs.fn.q, detail=allowed.get(cs.fn.q, ""), where=where(cs.fn, cs.line),
                  key="%s|%s|%s" % (rule, desc, cs.fn.q))
    return sites


def calls_after(fn, bb, include_transparent=False):
    """Live call sites in blocks reachable from bb (exclusive)."""
    after = fn.cfg.reachable_from(bb)
    out = []
    for cs in fn.calls:
        if cs.bb in after and cs.bb in fn.cfg.live and cs.bb != bb:
            if include_transparent or not is_transparent_call(cs):
                out.append(cs)
    return out


def stores(fn):
    """Assignments through a projection (field / deref writes) in live blocks:
    (bb, stmt index, place, value tree)."""
    out = []
    for i, b in enumerate(fn.blocks):
        if i not in fn.cfg.live:
            continue
        for j, st in enumerate(b["s"]):
            if st[0] == "=" and len(st[1]) > 1:
                out.append((i, j, st[1], fn.flow.rvalue_tree(st[2], i, j)))
    return out


def field_mutators(F, adt_head, field, fns=None):
    """Functions (outermost) that may mutate `field` of struct `adt_head`: a store through a place ending in
    .field..., or a mutable borrow / raw mut pointer of such a place, where the base local's type mentions the struct."""
    out = {}
    short_adt = last_seg(adt_head)
    for f in (fns if fns is not None else F.fns.values()):
        hits = []
        for i, b in enumerate(f.blocks):
            if i not in f.cfg.live:
                continue
            for j, st in enumerate(b["s"]):
                if st[0] != "=":
                    continue
                pl = None
                if len(st[1]) > 1 and ("." + field) in st[1]:
                    pl = st[1]
                elif st[2][0] == "ref" and st[2][1] == "mut" and ("." + field) in st[2][2]:
                    pl = st[2][2]
                elif st[2][0] == "rawptr" and "Mut" in st[2][1] and ("." + field) in st[2][2]:
                    pl = st[2][2]
                if pl is None:
                    continue
                # type of the part of the place that owns the field
                idx = pl.index("." + field)
                owner = f.flow.place_ty(pl[:idx]) or f.local_ty(pl[0])
                if owner and (adt_head in owner or re.search(r"\b%s\b" % re.escape(short_adt), owner)):
                    hits.append((i, st[-1]))
        if hits:
            out[f.q] = hits
    return out


def place_str(fn, pl):
    base = fn.local_name(pl[0]) or ("arg%d" % pl[0] if 1 <= pl[0] <= fn.argc else "_%d" % pl[0])
    return base + "".join(p for p in pl[1:] if p != "*")


def branch_edges(fn, rx, val):
    """(switch block, successor) of every live branch edge whose decoded predicate matches rx == val."""
    from ..engine import decode_pred
    out = []
    for a in sorted(fn.cfg.live):
        succ = fn.cfg.succ[a]
        if len({s for s, _ in succ}) < 2:
            continue
        for (s, lab) in succ:
            p = decode_pred(fn, a, lab)
            for q in expand_pred(fn, p):
                if re.search(rx, show(q.tree)) and q.val == val:
                    out.append((a, s))
                    break
    return out


def bool_switches_on(fn, rx):
    """Live two-way switches on a bool whose discriminant (or one of its reaching definitions, looking
    through short-circuit temporaries) matches rx: [(block, true successor, false successor)]."""
    out = []
    for a in sorted(fn.cfg.live):
        succ = fn.cfg.succ[a]
        if len({s for s, _ in succ}) != 2:
            continue
        t = fn.blocks[a]["t"]
        if t["k"] != "switch":
            continue
        trees = [fn.flow.switch_tree(a)] + [tr for _, tr in fn.flow.switch_alternatives(a)]
        if not any(re.search(rx, show(strip(x))) for x in trees):
            continue
        ts = fs = None
        for s, lab in succ:
            if lab in (("else", (0,)), ("v", 1)):
                ts = s
            elif lab == ("v", 0):
                fs = s
        if ts is not None and fs is not None:
            # account for a negated discriminant
            neg = False
            x = strip(fn.flow.switch_tree(a))
            while x and x[0] == "un" and x[1] == "Not":
                neg = not neg
                x = strip(x[2])
            out.append((a, fs, ts) if neg else (a, ts, fs))
    return out


def ret_table(fn):
    """Decision table of a function's return value: one row per definition of the return place that
    reaches a return: (defining block, value tree, guards of the defining block)."""
    rows = []
    seen = set()
    for r in fn.cfg.live_rets:
        for b, t in fn.flow.alternatives(0, r, "t"):
            if b is None or (b, repr(t)) in seen:
                continue
            seen.add((b, repr(t)))
            rows.append((b, strip(t), guards(fn, b, assumed=True)))
    return rows


def closure_parent(F, fn):
    p = fn.meta.get("parent")
    return F.fns.get(p) if p else None


def outermost(F, fn):
    while fn.kind == "closure":
        p = closure_parent(F, fn)
        if p is None:
            break
        fn = p
    return fn


def closures_of(F, fn, recursive=True):
    out = []
    for (_, _, cq, _, _) in fn.closures_built():
        c = F.fns.get(cq)
        if c:
            out.append(c)
            if recursive:
                out.extend(closures_of(F, c, True))
    return out


def fn_and_closures(F, fn):
    return [fn] + closures_of(F, fn)


def const_arg(tree):
    """If tree is a constant / fieldless-variant aggregate return its printable value."""
    t = strip(tree)
    if t and t[0] == "const":
        return t[2] if t[2] is not None else t[3]
    if t and t[0] == "agg" and t[1][0] == "adt" and not t[2]:
        return t[1][2]
    return None


def ret_consts(fn):
    """Constant values returned at each live return (None when not constant)."""
    out = []
    for r, t in fn.flow.return_trees():
        out.append((r, const_arg(t), t))
    return out
