"""C12 Concurrent Immix preserves the snapshot-at-the-beginning: structural necessary clauses (DESIGN.md 4/C12)."""
import re
from .common import *
from .plans import *
from .sched import stage_sites
from . import C02 as _c02
from ..engine import AnalysisError, show, strip, short, walk, last_seg, tree_calls

PROP = "C12"
LEVEL = "other"
QUICK = ["K0", "K1"]
THOROUGH = ALL_CONFIGS
ASSUMPTIONS = ["the binding invokes the SATB pre-write barrier on every reference store", "actual interleavings of mutator stores and marking packets are not explored"]
EXPLANATION = (
    "Necessary structural conditions of SATB soundness: the pre-write barrier enters the slow path exactly when the source is "
    "unlogged; the slow path records the old value of *every* field of the source (iterate_fields -> enqueue_node -> satb.push(old)) "
    "before clearing its unlog bit; the region-copy barrier records the old value of every destination slot; flush turns a non-empty "
    "SATB buffer into a ProcessModBufSATB packet (Concurrent stage while marking runs, Closure in the final pause) and drops it only "
    "when no marking is in progress; the final-mark pause flushes every mutator's barrier before marking is switched off; objects that "
    "are re-queued from the marker's own queue keep already_marked=true whereas roots / SATB nodes are traced first; while marking is "
    "active every way of obtaining thread-local Immix memory marks its lines eagerly (should_allocate_as_live) and the large object "
    "space marks new objects; the mutator prepare function retires every Immix buffer acquired before the initial pause; the pause "
    "table prepares in Full/InitialMark and releases in Full/FinalMark."
)
SEM = "<plan::concurrent::barrier::SATBBarrierSemantics as plan::barriers::BarrierSemantics>::"
SEMI = "plan::concurrent::barrier::SATBBarrierSemantics::"
CTO = "plan::concurrent::concurrent_marking_work::ConcurrentTraceObjects"


def satb_barrier(F, name):
    c = [f for q, f in F.fns.items() if q.startswith("<plan::barriers::SATBBarrier as plan::barriers::Barrier") and q.endswith("::" + name)]
    if len(c) != 1:
        raise AnalysisError("C12: SATBBarrier::%s not found" % name)
    return c[0]


def run(ctx, F):
    # ---- C12.satb-chain
    pre = satb_barrier(F, "object_reference_write_pre")
    sl = [c for c in live_calls(pre) if c.name == "object_reference_write_slow"]
    okp = len(sl) == 1 and len(sig(pre, sl[0].bb)) == 1 and bool(sig_find(pre, sl[0].bb, r"object_is_unlogged\(arg1, arg2\)", True))
    ctx.judge(okp, "C12.satb-chain", "pre-write barrier takes the slow path exactly when the source is unlogged", expected="control dependent exactly on object_is_unlogged(src)",
              found=str([sig_strs(pre, c.bb) for c in sl]), where=where(pre), key="C12.satb-chain|pre")
    ws = F.fn(SEM + "object_reference_write_slow")
    pw = [c for c in live_calls(ws) if c.name == "object_probable_write_slow"]
    lg = live_calls(ws, q=SEMI + "log_object")
    okw = len(pw) == 1 and len(lg) == 1 and ws.cfg.must_pass([pw[0].bb]) and ws.cfg.dominates(pw[0].bb, lg[0].bb) and strip(ws.flow.arg_tree(pw[0], 1)) == ("arg", 2) and strip(ws.flow.arg_tree(lg[0], 1)) == ("arg", 2)
    ctx.judge(okw, "C12.satb-chain", "the slow path snapshots all fields of the source before logging it", expected="object_probable_write_slow(src) on every path, then log_object(src)",
              found="field-scan=%d log=%d" % (len(pw), len(lg)), where=where(ws), key="C12.satb-chain|slow")
    direct = live_calls(ws, q=SEMI + "enqueue_node")
    ctx.judge(not direct, "C12.satb-chain", "the slow path does not record a single slot only", expected="no direct enqueue_node(src, slot, ..) in place of the whole-object snapshot", found=str(len(direct)),
              where=where(ws), key="C12.satb-chain|no-single-slot")
    pws = F.fn(SEM + "object_probable_write_slow")
    itf = [c for c in live_calls(pws) if c.name == "iterate_fields"]
    okf = len(itf) == 1 and pws.cfg.must_pass([itf[0].bb]) and strip(pws.flow.arg_tree(itf[0], 0)) == ("arg", 2)
    ctx.judge(okf, "C12.satb-chain", "every field of the object is visited", expected="SlotIterator::iterate_fields(obj, ..) on every path", found=str(len(itf)), where=where(pws), key="C12.satb-chain|iterate")
    for cl in closures_of(F, pws):
        en = live_calls(cl, q=SEMI + "enqueue_node")
        okc = len(en) == 1 and cl.cfg.must_pass([en[0].bb]) and strip(cl.flow.arg_tree(en[0], 2)) == ("arg", 2)
        ctx.judge(okc, "C12.satb-chain", "each visited slot is handed to enqueue_node", expected="enqueue_node(.., slot, ..) on every path of the visitor", found=str(len(en)), where=where(cl),
                  key="C12.satb-chain|visitor")
    en = F.fn(SEMI + "enqueue_node")
    sw = live_calls(en, q=SEMI + "slow")
    oke = len(sw) == 1 and bool(guard_find(en, sw[0].bb, r"Slot::load\(arg3\)", "Some")) and len(guards(en, sw[0].bb)) == 1 and "Slot::load(arg3) as Some.0" in show(strip(en.flow.arg_tree(sw[0], 3)))
    ctx.judge(oke, "C12.satb-chain", "the *old* value loaded from the slot is recorded", expected="if let Some(old) = slot.load() { slow(.., old) }", found=str([show(strip(en.flow.arg_tree(c, 3))) for c in sw]), where=where(en),
              key="C12.satb-chain|old-value")
    slow = F.fn(SEMI + "slow")
    ps = [c for c in live_calls(slow, name="push") if "satb" in show(strip(slow.flow.arg_tree(c, 0)))]
    ctx.judge(len(ps) == 1 and slow.cfg.must_pass([ps[0].bb]) and strip(slow.flow.arg_tree(ps[0], 1)) == ("arg", 4), "C12.satb-chain", "recorded values go to the SATB buffer", expected="satb.push(old) on every path",
              found=str(len(ps)), where=where(slow), key="C12.satb-chain|push")
    fs = [c for c in live_calls(slow, q=SEMI + "flush_satb")]
    ctx.judge(len(fs) == 1 and bool(guard_find(slow, fs[0].bb, r"is_full", True)), "C12.satb-chain", "a full SATB buffer is flushed", expected="flush_satb() when satb.is_full()", found=str(len(fs)), where=where(slow),
              key="C12.satb-chain|full")
    mpre = satb_barrier(F, "memory_region_copy_pre")
    ms = [c for c in live_calls(mpre) if c.name == "memory_region_copy_slow"]
    ctx.judge(len(ms) == 1 and mpre.cfg.must_pass([ms[0].bb]) and [strip(mpre.flow.arg_tree(ms[0], i)) for i in (1, 2)] == [("arg", 2), ("arg", 3)], "C12.satb-chain",
              "region-copy pre barrier always reaches the semantics", expected="memory_region_copy_slow(src, dst) on every path", found=str(len(ms)), where=where(mpre), key="C12.satb-chain|region-pre")
    mcs = F.fn(SEM + "memory_region_copy_slow")
    its = live_calls(mcs, name="iter_slots")
    ens = live_calls(mcs, q=SEMI + "enqueue_node")
    okr = len(its) == 1 and strip(mcs.flow.arg_tree(its[0], 0)) == ("arg", 3) and len(ens) == 1 and all(p.val == "Some" for p in guards(mcs, ens[0].bb)) and "next" in show(strip(mcs.flow.arg_tree(ens[0], 2)))
    ctx.judge(okr, "C12.satb-chain", "every destination slot's old value is recorded", expected="for s in dst.iter_slots() { enqueue_node(None, s, None) }", found="iter=%d enqueue=%d" % (len(its), len(ens)),
              where=where(mcs), key="C12.satb-chain|region-slots")

    # ---- C12.flush
    fl = F.fn(SEMI + "flush_satb")
    sites = [s for s in stage_sites(F) if s.fn is fl]
    okfl = len(sites) == 1 and "ProcessModBufSATB" in sites[0].packets and sites[0].method == "add"
    if okfl:
        alts = [strip(t) for b, t in fl.flow.alternatives(fl.flow.fn.blocks[sites[0].cs.bb]["t"]["a"][0][1][0], sites[0].cs.bb, "t")] if False else []
        stg = show(sites[0].recv)
        okfl = "Concurrent" in stg and "Closure" in stg
    ctx.judge(okfl, "C12.flush", "flush_satb schedules ProcessModBufSATB into Concurrent or Closure", expected="bucket = if concurrent_work_in_progress() { Concurrent } else { Closure }", found=str(sites), where=where(fl),
              key="C12.flush|stage")
    if sites:
        g = guards(fl, sites[0].cs.bb)
        okg = any("is_empty" in show(p.tree) and p.val is False for p in g) and any("should_create_satb_packets" in show(p.tree) and p.val is True for p in g) and len(g) == 2
        ctx.judge(okg, "C12.flush", "a non-empty buffer is turned into a packet whenever marking can still use it", expected="guards exactly {!satb.is_empty(), should_create_satb_packets()}", found=str(guard_strs(fl, sites[0].cs.bb)),
                  where=where(fl, sites[0].cs.line), key="C12.flush|guard")
        # the bucket choice follows concurrent_work_in_progress
        bsw = bool_switches_on(fl, r"concurrent_work_in_progress")
        ctx.judge(bool(bsw), "C12.flush", "bucket chosen by concurrent_work_in_progress()", expected="a branch on plan.concurrent_work_in_progress()", found=str(len(bsw)), where=where(fl), key="C12.flush|choice")
    sc = F.fn(SEMI + "should_create_satb_packets")
    rt = " ".join(show(strip(t)) for r, t in sc.flow.return_trees())
    alts = " ".join(show(strip(t)) for b, t in sc.flow.alternatives(0, sc.cfg.live_rets[0], "t")) if sc.cfg.live_rets else ""
    names = {c.name for c in live_calls(sc)}
    ctx.judge({"concurrent_work_in_progress", "current_pause"} <= names and "True" in rt + alts and "current_pause" in rt + alts,
              "C12.flush", "SATB packets are kept while marking is in progress or in the final-mark pause", expected="concurrent_work_in_progress() || current_pause() == Some(FinalMark)", found=(rt + alts)[:200], where=where(sc),
              key="C12.flush|should-create")
    semf = F.fn(SEM + "flush")
    for nm in ("flush_satb", "flush_weak_refs"):
        cs = live_calls(semf, q=SEMI + nm)
        ctx.judge(bool(cs) and semf.cfg.must_pass([c.bb for c in cs]), "C12.flush", "semantics flush reaches %s" % nm, expected="on every path", found=str(len(cs)), where=where(semf), key="C12.flush|sem|" + nm)
    nmp = F.fn("<plan::concurrent::immix::global::ConcurrentImmix as plan::global::Plan>::notify_mutators_paused")
    fls = [c for c in live_calls(nmp) if c.name == "flush" and c.trait and c.trait.endswith("Barrier")]
    off = [c for c in live_calls(nmp, name="set_concurrent_marking_state")]
    fm_off = [c for c in off if any(p.val == "FinalMark" for p in guards(nmp, c.bb))]
    okn = len(fls) == 1 and any(p.val == "FinalMark" for p in guards(nmp, fls[0].bb)) and any(p.val == "Some" and "next" in show(p.tree) for p in guards(nmp, fls[0].bb)) \
        and bool(live_calls(nmp, name="mutators")) and len(fm_off) == 1 and nmp.cfg.dominates(live_calls(nmp, name="mutators")[0].bb, fm_off[0].bb)
    if okn:
        # the state is switched off only after the loop over all mutators has finished
        okn = bool(guard_find(nmp, fm_off[0].bb, r"Iterator>::next", "None"))
    ctx.judge(okn, "C12.flush", "the final-mark pause flushes every mutator's SATB buffer before marking is switched off", expected="for m in mutators() { m.barrier.flush() }; then set_concurrent_marking_state(false)",
              found="flush=%d off(FinalMark)=%d" % (len(fls), len(fm_off)), where=where(nmp), key="C12.flush|final-mark")
    for c in off:
        ctx.judge(const_arg(nmp.flow.arg_tree(c, 1)) is False, "C12.flush", "pauses only switch marking off here", expected="set_concurrent_marking_state(false)", found=show(strip(nmp.flow.arg_tree(c, 1))), where=where(nmp, c.line),
                  key="C12.flush|off-arg")

    # ---- C12.already-marked
    news = []
    for f in F.fns.values():
        for c in live_calls(f, q=CTO + "::new"):
            news.append((f, c))
    ctx.floor("C12.already-marked", len(news), 3, "ConcurrentTraceObjects::new sites")
    for f, c in news:
        objs = show(strip(f.flow.arg_tree(c, 0)))
        flag = const_arg(f.flow.arg_tree(c, 1))
        from_queue = "drain" in objs and "VecDeque" in objs
        want = True if from_queue else False
        ctx.judge(flag is want, "C12.already-marked", "ConcurrentTraceObjects::new in %s" % short(f.q),
                  expected="already_marked = %s (%s)" % (str(want).lower(), "objects drained from the marker's queue were marked when they were enqueued" if from_queue else "roots / SATB nodes have not been traced yet"),
                  found="objects=%s flag=%s" % (objs[:100], flag), where=where(f, c.line), key="C12.already-marked|%s|%s" % (f.q, "queue" if from_queue else "fresh"))
    dw = F.fn("<%s as scheduler::work::GCWork>::do_work" % CTO)
    # insertions into the scan queue made by do_work itself (not by the tracing closures): extend / push_back / push_front / append
    ext = [c for c in live_calls(dw) if c.name in ("extend", "push_back", "push_front", "append", "extend_from_slice")]
    okx = len(ext) >= 1 and all(bool(guard_find(dw, c.bb, r"\.already_marked$", True)) for c in ext)
    tr_else = [c for g in fn_and_closures(F, dw) for c in live_calls(g, name="trace_object")]
    ctx.judge(okx and len(tr_else) >= 2, "C12.already-marked", "objects are queued without tracing only when flagged already marked", expected="do_work itself inserts into the queue only under already_marked, trace_object otherwise",
              found="direct insertions=%d trace sites=%d" % (len(ext), len(tr_else)), where=where(dw), key="C12.already-marked|use")
    for cl in closures_of(F, dw):
        pb = [c for c in live_calls(cl, name="push_back")]
        if pb:
            ctx.judge(all(cl.cfg.must_pass([c.bb for c in pb]) for _ in [0]), "C12.already-marked", "every newly marked object is queued for scanning (%s)" % short(cl.q), expected="queue.push_back(enqueued) on every path",
                      found=str(len(pb)), where=where(cl), key="C12.already-marked|enqueue|" + cl.q)
    vc = [c for c in live_calls(dw) if c.name == "visit_children_non_moving"]
    psn = [c for c in live_calls(dw) if c.name == "post_scan_object"]
    ctx.judge(len(vc) == 1 and len(psn) == 1 and any(p.val == "Some" and "pop_back" in show(p.tree) for p in guards(dw, vc[0].bb)) and dw.cfg.dominates(vc[0].bb, psn[0].bb), "C12.already-marked",
              "every queued object has its children visited", expected="while let Some(o) = queue.pop_back() { visit_children(o); post_scan_object(o) }", found="visit=%d post_scan=%d" % (len(vc), len(psn)), where=where(dw),
              key="C12.already-marked|scan")

    # ---- C12.alloc-live
    scm = F.fn("plan::concurrent::immix::global::ConcurrentImmix::set_concurrent_marking_state")
    fe = [c for c in live_calls(scm) if c.name == "for_each_space"]
    inner = [c for cl in closures_of(F, scm) for c in live_calls(cl, name="set_allocate_as_live")]
    okl = len(fe) == 1 and scm.cfg.must_pass([fe[0].bb]) and len(inner) == 1
    if okl:
        cl = inner[0].fn
        okl = cl.cfg.must_pass([inner[0].bb]) and "upvar" in show(strip(cl.flow.arg_tree(inner[0], 1))) or "arg" in show(strip(cl.flow.arg_tree(inner[0], 1)))
    ctx.judge(okl, "C12.alloc-live", "switching marking on/off tells every space to allocate as live", expected="for_each_space(|s| s.set_allocate_as_live(active)) on every path", found="for_each_space=%d inner=%d" % (len(fe), len(inner)),
              where=where(scm), key="C12.alloc-live|spaces")
    eog = F.fn("<plan::concurrent::immix::global::ConcurrentImmix as plan::global::Plan>::end_of_gc")
    on = [c for c in live_calls(eog, name="set_concurrent_marking_state")]
    ctx.judge(len(on) == 1 and const_arg(eog.flow.arg_tree(on[0], 1)) is True and bool(guard_find(eog, on[0].bb, r"InitialMark|eq\(", True) or any(p.val == "InitialMark" for p in guards(eog, on[0].bb))), "C12.alloc-live",
              "marking (and allocate-as-live) is switched on at the end of the initial-mark pause", expected="set_concurrent_marking_state(true) iff pause == InitialMark", found=str([guard_strs(eog, c.bb) for c in on])[:200], where=where(eog),
              key="C12.alloc-live|on")
    IA = "util::alloc::immix_allocator::ImmixAllocator::"
    # acquire_recyclable_lines: every path that installs a buffer consults should_allocate_as_live and marks the lines
    arl = F.fn(IA + "acquire_recyclable_lines")
    cur = [bb for (bb, j, pl, t) in stores(arl) if re.search(r"bump_pointer\.limit$", place_str(arl, pl))]
    sal = live_calls(arl, name="should_allocate_as_live")
    eml = live_calls(arl, name="eager_mark_lines")
    oka = bool(cur) and len(sal) >= 1 and len(eml) >= 1 and all(arl.cfg.must_pass([c.bb for c in sal], start=b) or any(arl.cfg.dominates(c.bb, b) for c in sal) for b in cur) \
        and all(guard_find(arl, c.bb, r"should_allocate_as_live", True) and len([p for p in sig(arl, c.bb) if "should_allocate_as_live" in show(p.tree)]) >= 1 for c in eml)
    ctx.judge(oka, "C12.alloc-live", "recycled lines handed to an allocator while marking is active are marked eagerly", expected="every path installing [cursor,limit) passes should_allocate_as_live(); eager_mark_lines under it",
              found="installs=%s consults=%d marks=%d" % (cur, len(sal), len(eml)), where=where(arl), key="C12.alloc-live|recyclable")
    if eml:
        rng = show(strip(arl.flow.arg_tree(eml[0], 1)))
        ctx.judge("Range" in rng or "start" in rng, "C12.alloc-live", "the marked range is the acquired hole", expected="eager_mark_lines(state, start_line..end_line)", found=rng[:120], where=where(arl, eml[0].line),
                  key="C12.alloc-live|recyclable-range")
    acb = F.fn(IA + "acquire_clean_block")
    cur = [bb for (bb, j, pl, t) in stores(acb) if re.search(r"bump_pointer\.limit$", place_str(acb, pl))]
    sal = live_calls(acb, name="should_allocate_as_live")
    eml = live_calls(acb, name="eager_mark_lines")
    okb = bool(cur) and len(sal) == 1 and len(eml) == 1 and all(acb.cfg.dominates(sal[0].bb, b) for b in cur) and bool(guard_find(acb, eml[0].bb, r"should_allocate_as_live", True))
    ctx.judge(okb, "C12.alloc-live", "a clean block handed to an allocator while marking is active is marked eagerly", expected="should_allocate_as_live() consulted before the block is installed; eager_mark_lines under it",
              found="installs=%s consults=%d marks=%d" % (cur, len(sal), len(eml)), where=where(acb), key="C12.alloc-live|clean")
    # who installs Immix bump buffers at all
    installers = set()
    for q, f in F.fns.items():
        if q.startswith(IA) and f.kind != "closure":
            if any(re.search(r"bump_pointer\.limit$", place_str(f, pl)) and not (const_arg(t) == 0 or "ZERO" in show(strip(t))) for (bb, j, pl, t) in stores(f)):
                installers.add(last_seg(q))
    allowed_inst = {"acquire_recyclable_lines", "acquire_clean_block", "alloc_slow_once_precise_stress", "restore_limit_for_stress", "set_limit_for_stress", "new", "reset", "rebind", "retry_alloc_slow_hot"}
    ctx.judge(installers <= allowed_inst, "C12.alloc-live", "only the two acquire functions hand out new Immix memory", expected="installers of bump_pointer.limit within %s" % sorted(allowed_inst), found=str(sorted(installers)),
              key="C12.alloc-live|installers")
    los = F.fn("<policy::largeobjectspace::LargeObjectSpace as policy::sft::SFT>::initialize_object_metadata")
    sal = live_calls(los, name="should_allocate_as_live")
    ctx.judge(len(sal) == 1 and los.cfg.must_pass([sal[0].bb]), "C12.alloc-live", "large objects allocated during marking are treated as live", expected="initialize_object_metadata consults should_allocate_as_live() on every path",
              found=str(len(sal)), where=where(los), key="C12.alloc-live|los")
    # prepare_func retires every Immix buffer acquired before the initial pause
    for m in mutator_configs(F):
        if "concurrent" not in m.creator.q:
            continue
        pre_f = F.fns.get(m.prepare)
        ctx.require(pre_f is not None, "C12.alloc-live: ConcurrentImmix prepare_func unresolved")
        table, init, inc = plan_mapping(F, m)
        for sem in ("Default", "NonMoving"):
            if _c02.kind_of(table.get(sem)) == "Immix":
                mn, mx = _c02.reset_summary2(F, pre_f, sem)
                ctx.judge(mn >= 1, "C12.alloc-live", "mutator prepare retires the %s Immix buffer at the initial pause" % sem,
                          expected="ImmixAllocator::reset for %s on every path of %s (a buffer acquired before the pause is not allocated-as-live)" % (sem, short(m.prepare)), found="resets per path min=%s" % mn, where=where(pre_f),
                          key="C12.alloc-live|prepare|" + sem)
    for q, c in F.consts.items():
        if "CONCURRENT_IMMIX_CONSTRAINTS" in q and isinstance(c["v"], dict):
            ctx.judge(c["v"].get("needs_prepare_mutator") is True, "C12.alloc-live", "ConcurrentImmix schedules mutator prepare", expected="needs_prepare_mutator = true", found=str(c["v"].get("needs_prepare_mutator")),
                      key="C12.alloc-live|needs-prepare")

    # ---- C12.pause-table
    P = "<plan::concurrent::immix::global::ConcurrentImmix as plan::global::Plan>::"
    prep, rel = F.fn(P + "prepare"), F.fn(P + "release")

    def arms(f, name):
        out = set()
        for c in live_calls(f):
            if c.name == name and c.args and show(strip(f.flow.arg_tree(c, 0))).startswith("arg1."):
                for p in guards(f, c.bb):
                    if isinstance(p.val, str) and p.val in ("Full", "InitialMark", "FinalMark"):
                        out.add((show(strip(f.flow.arg_tree(c, 0))), p.val))
                    elif isinstance(p.val, tuple) and p.val[0] == "in":
                        for v in p.val[1]:
                            out.add((show(strip(f.flow.arg_tree(c, 0))), v))
        return out
    pa = arms(prep, "prepare")
    ra = arms(rel, "release")
    want_p = {("arg1.immix_space", "Full"), ("arg1.immix_space", "InitialMark"), ("arg1.common", "Full"), ("arg1.common", "InitialMark")}
    want_r = {("arg1.immix_space", "Full"), ("arg1.immix_space", "FinalMark"), ("arg1.common", "Full"), ("arg1.common", "FinalMark")}
    ctx.judge(pa == want_p, "C12.pause-table", "prepare: Full and InitialMark prepare both the Immix space and the common spaces", expected=str(sorted(want_p)), found=str(sorted(pa)), where=where(prep), key="C12.pause-table|prepare")
    ctx.judge(ra == want_r, "C12.pause-table", "release: Full and FinalMark release both the Immix space and the common spaces", expected=str(sorted(want_r)), found=str(sorted(ra)), where=where(rel), key="C12.pause-table|release")
    _barrier_armed_all_spaces(ctx, F)
    _edge_callbacks(ctx, F)
    _los_all_objects(ctx, F)


def _barrier_armed_all_spaces(ctx, F):
    """C12.barrier-armed-all-spaces: the SATB barrier logs an object only if its unlog bit is set; at the initial mark pause the bits
    are set in bulk. The bulk operation on the common/base spaces must reach every space field of CommonPlan / BasePlan."""
    from . import plans
    for adt in ("plan::global::CommonPlan", "plan::global::BasePlan"):
        a = F.adts.get(adt)
        if not a:
            raise AnalysisError("C12: %s not found" % adt)
        spaces = {p[0] for p in plans.space_paths(F, adt) if len(p) == 1}
        sub = {fld["name"] for fld in a["variants"][0]["fields"] if re.match(r"^plan::global::BasePlan<", fld["ty"])}
        for meth in ("set_side_log_bits", "clear_side_log_bits"):
            g = F.fn("%s::%s" % (adt, meth))
            got = set()
            for c in live_calls(g):
                if c.name == meth and c.args and g.cfg.must_pass([c.bb]):
                    m = re.match(r"^arg1\.(\w+)$", show(strip(g.flow.arg_tree(c, 0))))
                    if m:
                        got.add(m.group(1))
            want = spaces | sub
            ctx.judge(want <= got, "C12.barrier-armed-all-spaces", "%s::%s reaches every space of the struct" % (last_seg(adt), meth), expected=str(sorted(want)), found="missing %s" % sorted(want - got), where=where(g),
                      key="C12.barrier-armed-all-spaces|%s|%s" % (last_seg(adt), meth))
    sched = F.fn("plan::global::CommonPlan::schedule_unlog_bits_op")
    pk = {"SetCommonPlanUnlogBits": "set_side_log_bits", "ClearCommonPlanUnlogBits": "clear_side_log_bits"}
    for ty, meth in pk.items():
        dw = [g for q, g in F.fns.items() if q.endswith("%s as scheduler::work::GCWork>::do_work" % ty)]
        ok = len(dw) == 1 and any(c.name == meth and c.q and "CommonPlan" in c.q for c in live_calls(dw[0]))
        ctx.judge(ok, "C12.barrier-armed-all-spaces", "%s runs CommonPlan::%s" % (ty, meth), expected="common_plan.%s()" % meth, found=str(len(dw)), key="C12.barrier-armed-all-spaces|packet|" + ty)
    ci = F.fn("<plan::concurrent::immix::global::ConcurrentImmix as plan::global::Plan>::prepare")
    cs = [c for c in live_calls(ci) if c.name == "schedule_unlog_bits_op"]
    ctx.judge(any("BulkSet" in show(strip(ci.flow.arg_tree(c, 1))) for c in cs), "C12.barrier-armed-all-spaces", "ConcurrentImmix arms the common spaces at the initial mark", expected="common.schedule_unlog_bits_op(BulkSet) in prepare",
              found=str([show(strip(ci.flow.arg_tree(c, 1)))[:40] for c in cs]), where=where(ci), key="C12.barrier-armed-all-spaces|initial-mark")


def _edge_callbacks(ctx, F):
    """C12.visit-children: every closure handed to Scanning::scan_object_and_trace_edges as the edge tracer traces the CHILD it is
    called with and returns that trace's answer (the binding stores it back into the field)."""
    n = 0
    for q, g in sorted(F.fns.items()):
        for c in live_calls(g, name="scan_object_and_trace_edges"):
            t = strip(g.flow.arg_tree(c, len(c.args) - 1))
            clo = [s for s in walk(t) if s and s[0] == "agg" and s[1][0] == "closure" and s[1][1] in F.fns]
            if len(clo) != 1:
                continue  # a tracer object (DefaultObjectTracer), not a closure literal
            cl = F.fns[clo[0][1][1]]
            n += 1
            tr = [x for x in live_calls(cl) if x.name == "trace_object"]
            rtt = [strip(tt) for _, tt in cl.flow.return_trees()]
            rts = [show(x) for x in rtt]
            # the value handed back is computed FROM the child the callback was called with (trace_object(child), forward(child), ..)
            ok = bool(rtt) and all(x and x[0] == "call" and any(strip(a) == ("arg", 2) for a in x[3]) for x in rtt) and \
                all(show(strip(cl.flow.arg_tree(x, len(x.args) - 1))) == "arg2" for x in tr)
            ctx.judge(ok, "C12.visit-children", "%s traces the child it is given and returns the result" % short(cl.q), expected="|child| tracer.trace_object(child)", found="traced %s returns %s" % ([show(strip(cl.flow.arg_tree(x, len(x.args) - 1)))[:30] for x in tr], [r[:60] for r in rts]),
                      where=where(cl), key="C12.visit-children|" + cl.q)
    ctx.floor("C12.visit-children", n, 1, "edge-tracer closures")
    vc = F.fn("util::scanning_helper::visit_children")
    users = {cs.fn.q for cs in callers(F, "util::scanning_helper::visit_children_non_moving")} | {cs.fn.q for cs in callers(F, "util::scanning_helper::visit_children_moving")}
    ctx.judge(any("concurrent_marking_work" in u for u in users), "C12.visit-children", "concurrent marking scans objects through visit_children", expected="ConcurrentTraceObjects uses the helper", found=str(sorted(short(u) for u in users))[:200],
              where=where(vc), key="C12.visit-children|used")


def _los_all_objects(ctx, F):
    """C12.barrier-armed-all-spaces (LOS): after the treadmill flip at the initial mark every large object sits in from_space or the
    collect nursery; arming (and disarming) the barrier must therefore enumerate ALL four sets."""
    for meth in ("set_side_log_bits", "clear_side_log_bits"):
        g = F.fn("<policy::largeobjectspace::LargeObjectSpace as policy::space::Space>::%s" % meth)
        en = [c for c in live_calls(g) if c.name == "enumerate_objects"]
        ok = len(en) == 1 and g.cfg.must_pass([en[0].bb]) and const_arg(g.flow.arg_tree(en[0], 2)) is True
        ctx.judge(ok, "C12.barrier-armed-all-spaces", "LargeObjectSpace::%s visits every large object" % meth, expected="treadmill.enumerate_objects(.., all = true)",
                  found=str([const_arg(g.flow.arg_tree(c, 2)) for c in en]), where=where(g), key="C12.barrier-armed-all-spaces|los|" + meth)
    te = F.fn("util::treadmill::TreadMill::enumerate_objects")
    sets = set()
    for c in live_calls(te):
        for i in range(len(c.args)):
            for m in re.findall(r"\.(alloc_nursery|collect_nursery|from_space|to_space)\b", show(strip(te.flow.arg_tree(c, i)))):
                sets.add(m)
    ctx.judge(sets == {"alloc_nursery", "collect_nursery", "from_space", "to_space"}, "C12.barrier-armed-all-spaces", "TreadMill::enumerate_objects can reach all four sets", expected="all four sets visited when all = true",
              found=str(sorted(sets)), where=where(te), key="C12.barrier-armed-all-spaces|treadmill")
