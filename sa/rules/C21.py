"""C21 Bulk side-metadata zero/set/copy touch exactly the covered regions: structural clauses (DESIGN.md 8.8)."""
import re
import itertools
from .common import *
from .bitiso import upvar_tree
from ..engine import AnalysisError, show, strip, short, last_seg

strip = simp   # fold projections of in-place tuples (an inlined helper returning (addr, shift)) before comparing trees

PROP = "C21"
LEVEL = "other"
QUICK = ["K0"]
THOROUGH = ["K0", "K2", "K10"]
LEVEL_NOTE = ("partial: decides (a) that bzero/bset/bcopy derive the metadata bit range from the data range as [meta(start),shift(start)) .. [meta(start+size),shift(start+size)) of the "
              "destination spec and hand exactly that range, in that order, to the range splitter, (b) that the whole-byte pieces are zeroed / set to 0xff / copied from the source table at "
              "the same offset over exactly [piece.start, piece.end), (c) that the partial-byte pieces are written through one operation whose per-bit result, decided as a boolean function "
              "of (bit >= bit_start, bit >= bit_end, old source bit, old destination bit), is 0 / 1 / the source bit inside the window and the old destination bit outside it, (d) that "
              "no visitor ends the iteration early. The splitting arithmetic of ranges::break_bit_range (which pieces a range is cut into) is value-level and is NOT decided.")
ASSUMPTIONS = ["ranges::break_bit_range cuts [start_addr:start_bit, end_addr:end_bit) into disjoint whole-byte and in-byte pieces that cover it exactly (value-level arithmetic, not decided)",
               "address_to_meta_address / meta_byte_lshift locate a region's field (C20 clause, value-level)",
               "64-bit target: the chunked (discontiguous) path of bulk_update_metadata is compiled out"]
EXPLANATION = (
    "Necessary structural conditions of C21. RANGE: bzero_metadata/bset_metadata call bulk_update_metadata(self, start, size, zero_meta_bits/set_meta_bits); its contiguous closure calls "
    "the updater with (meta(self,start), shift(self,start), meta(self,start+size), shift(self,start+size)) for every non-empty request and the updaters forward their four arguments in "
    "order to break_bit_range; bcopy_metadata_contiguous builds the same four values itself and captures the source base as meta(other,start). BYTES: the Bytes arm of each visitor "
    "performs exactly one memory effect over (start, end-start): memory::zero, memory::set(..,0xff,..) or ptr::copy from src_base + (start - dst_base). BITS: the BitsInByte arm "
    "performs exactly one write to the byte at `addr`; the value it leaves there is evaluated symbolically per bit over the atoms a=(bit>=bit_start), b=(bit>=bit_end), s=old source "
    "bit, d=old destination bit (MAX<<bit_start is a, MAX.checked_shl(bit_end).unwrap_or(0) is b, fetch_and/fetch_or/store combine with d) and must equal "
    "window ? {0,1,s} : d with window = a & !b, on every valuation with b => a. CONTINUE: every visitor returns false on every path."
)
TECHNIQUE = ("static analysis: origin trees of call arguments and stored values over rustc MIR with resolved callees and closure captures; sibling agreement of the three bulk operations; "
             "boolean-function normal form (truth table over four symbolic per-bit atoms) of the partial-byte update expression - no code is executed, the atoms are symbolic")

S = "util::metadata::side_metadata::global::SideMetadataSpec::"
R = "arg2 as BitsInByte"


class NotBool(Exception):
    pass


def _is_const(t, v):
    t = strip(t)
    return bool(t) and t[0] == "const" and t[2] == v


def _uncast(t):
    t = strip(t)
    while t and t[0] == "cast":
        t = strip(t[2])
    return t


def beval(t, env, src_addr):
    """Per-bit value of tree t under env {a,b,s,d} (symbolic atoms, see EXPLANATION)."""
    t = strip(t)
    if not t:
        raise NotBool("empty")
    k = t[0]
    if k == "const":
        if t[2] == 0:
            return False
        if t[2] == 255:
            return True
        raise NotBool("constant %s" % (t[2],))
    if k == "un" and t[1] == "Not":
        return not beval(t[2], env, src_addr)
    if k == "bin" and t[1] in ("BitAnd", "BitOr", "BitXor"):
        l, r = beval(t[2], env, src_addr), beval(t[3], env, src_addr)
        return (l and r) if t[1] == "BitAnd" else (l or r) if t[1] == "BitOr" else (l != r)
    if k == "bin" and t[1] == "Shl" and _is_const(t[2], 255) and show(_uncast(t[3])) == R + ".bit_start":
        return env["a"]          # MAX << bit_start : bits at or above bit_start (bit_start <= 7)
    if k == "call":
        nm = last_seg(t[2] or t[1]) if isinstance(t[2] or t[1], str) else ""
        a = t[3]
        if nm == "unwrap_or" and len(a) == 2 and _is_const(a[1], 0):
            c = strip(a[0])
            if c and c[0] == "call" and last_seg(c[2] or c[1]) == "checked_shl" and _is_const(c[3][0], 255) and show(_uncast(c[3][1])) == R + ".bit_end":
                return env["b"]  # MAX.checked_shl(bit_end).unwrap_or(0) : bits at or above bit_end, empty for bit_end == 8
        if nm == "load" and len(a) >= 1:
            p = strip(a[0])
            if p and p[0] == "call" and last_seg(p[2] or p[1]) == "as_ref":
                ad = show(strip(p[3][0]))
                if ad == R + ".addr":
                    return env["d"]
                if src_addr is not None and ad == src_addr:
                    return env["s"]
        raise NotBool("call %s" % show(t)[:80])
    raise NotBool(show(t)[:80])


def truth(fn_of_env):
    rows = []
    for a, b, s, d in itertools.product((False, True), repeat=4):
        if b and not a:
            continue            # bit >= bit_end implies bit >= bit_start (bit_start <= bit_end)
        rows.append(fn_of_env({"a": a, "b": b, "s": s, "d": d}))
    return tuple(rows)


SPEC = {
    "zero": lambda e: (False if (e["a"] and not e["b"]) else e["d"]),
    "set": lambda e: (True if (e["a"] and not e["b"]) else e["d"]),
    "copy": lambda e: (e["s"] if (e["a"] and not e["b"]) else e["d"]),
}


def _visitor(ctx, F, cl, kind, src_base=None, dst_base=None):
    f = cl
    nm = short(f.q)
    # ---- CONTINUE
    rc = [v for r, v, t in ret_consts(f)]
    ctx.judge(bool(rc) and all(v is False for v in rc), "C21.continue", "%s never ends the iteration early" % nm, expected="the visitor returns false on every path", found=str(rc), where=where(f),
              key="C21.continue|%s" % kind)
    calls = live_calls(f)
    bytes_calls = [c for c in calls if "arg2 == Bytes" in sig_strs(f, c.bb)]
    bits_calls = [c for c in calls if "arg2 == BitsInByte" in sig_strs(f, c.bb)]
    EFFECT = {"zero", "set", "copy", "copy_nonoverlapping", "write_bytes", "store", "fetch_and", "fetch_or", "fetch_xor", "fetch_update", "compare_exchange", "swap", "write", "fetch_add", "fetch_sub"}
    # ---- BYTES
    eff = [c for c in bytes_calls if c.name in EFFECT]
    LEN = "<Address as Sub<util::address::Address>>::sub(arg2 as Bytes.end, arg2 as Bytes.start)"
    found = [show(strip(f.flow.call_tree(c.bb, f.blocks[c.bb]["t"]))) for c in eff]
    if kind == "zero":
        want = ["memory::zero(arg2 as Bytes.start, %s)" % LEN]
    elif kind == "set":
        want = ["memory::set(arg2 as Bytes.start, 255, %s)" % LEN]
    else:
        srcx = "<Address as Add<usize>>::add(upvar(%s), <Address as Sub<util::address::Address>>::sub(arg2 as Bytes.start, upvar(%s)))" % (src_base, dst_base)
        want = ["ptr::copy(Address::to_ptr(%s), Address::to_mut_ptr(arg2 as Bytes.start), %s)" % (srcx, LEN)]
    ctx.judge(found == want, "C21.bytes", "%s updates exactly the bytes of a whole-byte piece" % nm, expected=want[0], found=str(found)[:400], where=where(f), key="C21.bytes|%s" % kind)
    # ---- BITS
    eff = [c for c in bits_calls if c.name in EFFECT]
    ok, why = len(eff) == 1, "write operations in the BitsInByte arm: %s" % [c.name for c in eff]
    if ok:
        c = eff[0]
        dst = show(strip(f.flow.arg_tree(c, 0)))
        ok = dst == "Address::as_ref(%s.addr)" % R
        why = "written location %s" % dst
        src_addr = None
        if kind == "copy":
            src_addr = "<Address as Add<usize>>::add(upvar(%s), <Address as Sub<util::address::Address>>::sub(%s.addr, upvar(%s)))" % (src_base, R, dst_base)
        if ok:
            v = strip(f.flow.arg_tree(c, 1))
            try:
                if c.name == "store":
                    tt = truth(lambda e: beval(v, e, src_addr))
                elif c.name == "fetch_and":
                    tt = truth(lambda e: e["d"] and beval(v, e, src_addr))
                elif c.name == "fetch_or":
                    tt = truth(lambda e: e["d"] or beval(v, e, src_addr))
                else:
                    raise NotBool("operation %s" % c.name)
                ok = tt == truth(SPEC[kind])
                why = "per-bit result of %s(%s) over (a,b,s,d) with b=>a: %s ; required %s" % (c.name, show(v)[:160], "".join("1" if x else "0" for x in tt), "".join("1" if x else "0" for x in truth(SPEC[kind])))
            except NotBool as e:
                ok, why = False, "value not expressible over the window atoms: %s" % e
    ctx.judge(ok, "C21.bits", "%s leaves bits outside [bit_start, bit_end) unchanged and gives those inside the %s value" % (nm, {"zero": "zero", "set": "one", "copy": "source"}[kind]),
              expected="one write to the byte at `addr` whose per-bit result is window ? %s : old, window = (bit >= bit_start) & !(bit >= bit_end)" % {"zero": "0", "set": "1", "copy": "src"}[kind],
              found=why[:400], where=where(f), key="C21.bits|%s" % kind)


def _closure0(F, q):
    cs = [f for k, f in F.fns.items() if f.kind == "closure" and f.meta.get("parent") == q]
    return cs


def run(ctx, F):
    M = lambda spec, a: "helpers::address_to_meta_address(%s, %s)" % (spec, a)
    L = lambda spec, a: "helpers::meta_byte_lshift(%s, %s)" % (spec, a)
    END = "<Address as Add<usize>>::add(%s, %s)"
    # ---- RANGE: entries
    for op, upd in (("bzero_metadata", "zero_meta_bits"), ("bset_metadata", "set_meta_bits")):
        f = F.fn(S + op)
        cs = [c for c in live_calls(f) if c.name == "bulk_update_metadata"]
        found = [(show(strip(f.flow.call_tree(c.bb, f.blocks[c.bb]["t"]))), sig_strs(f, c.bb)) for c in cs]
        want = [("SideMetadataSpec::bulk_update_metadata(arg1, arg2, arg3, fn:SideMetadataSpec::%s)" % upd, [])]
        extra = [c.name for c in live_calls(f, include_transparent=False) if c.name not in ("bulk_update_metadata", "lock", "unwrap") and not (c.q or "").startswith("util::metadata::side_metadata::sanity")]
        ctx.judge(found == want and not extra, "C21.range", "%s updates the whole requested range with its own updater" % op, expected=want[0][0] + " unconditionally, and nothing else", found=str(found)[:300] + " extra=%s" % extra,
                  where=where(f), key="C21.range|entry|%s" % op)
    f = F.fn(S + "bulk_update_metadata")
    cls = _closure0(F, f.q)
    ctx.floor("C21.range", len(cls), 1, "closures of bulk_update_metadata")
    cont = None
    for cl in cls:
        calls = [c for c in live_calls(cl) if c.name == "call"]
        for c in calls:
            s = show(strip(cl.flow.call_tree(c.bb, cl.blocks[c.bb]["t"])))
            if s.startswith("Fn::call(upvar(update_meta_bits)"):
                cont = (cl, c, s)
    if cont is None:
        raise AnalysisError("C21.range: the closure of bulk_update_metadata that invokes update_meta_bits was not found")
    cl, c, s = cont
    e = END % ("arg2", "arg3")
    want = "Fn::call(upvar(update_meta_bits), tuple{%s, %s, %s, %s})" % (M("upvar(self)", "arg2"), L("upvar(self)", "arg2"), M("upvar(self)", e), L("upvar(self)", e))
    g = sig_strs(cl, c.bb)
    okg = all(re.match(r"^\((arg3 Eq 0|0 Eq arg3)\) == False$|^\((arg3 Ne 0|0 Ne arg3|arg3 Gt 0|0 Lt arg3)\) == True$", x) for x in g)
    ctx.judge(s == want and okg, "C21.range", "the contiguous path hands [meta(start):shift(start), meta(start+size):shift(start+size)) of this spec to the updater",
              expected=want + " for every non-empty request", found=(s + " guards=%s" % g)[:500], where=where(cl), key="C21.range|contiguous")
    pu = [(show(strip(t))) for p_, t in [upvar_tree(F, cl, "self"), upvar_tree(F, cl, "update_meta_bits")] if t is not None]
    ctx.judge(pu == ["arg1", "arg4"], "C21.range", "the contiguous closure works on this spec and the caller's updater", expected="captures self and update_meta_bits", found=str(pu), where=where(f), key="C21.range|captures")
    inv = [c for c in live_calls(f) if c.name == "call"]
    found = [(show(strip(f.flow.call_tree(c.bb, f.blocks[c.bb]["t"])))[:200], sig_strs(f, c.bb)) for c in inv]
    okc = len(found) == 1 and re.match(r"^bulk_update_metadata::\{closure#\d+\}\(bulk_update_metadata::\{closure#\d+\}\{arg1, arg4\}, tuple\{arg2, arg3\}\)$", found[0][0]) is not None and not found[0][1]
    ctx.judge(okc, "C21.range", "bulk_update_metadata applies the contiguous path to the whole request", expected="update_contiguous(start, size) unconditionally (64-bit)", found=str(found)[:400], where=where(f),
              key="C21.range|whole")
    # ---- updaters
    for kind, nm in (("zero", "zero_meta_bits"), ("set", "set_meta_bits")):
        f = F.fn(S + nm)
        cs = [c for c in live_calls(f) if c.name == "break_bit_range"]
        found = [(show(strip(f.flow.call_tree(c.bb, f.blocks[c.bb]["t"]))), sig_strs(f, c.bb)) for c in cs]
        okb = len(found) == 1 and re.match(r"^ranges::break_bit_range\(arg1, arg2, arg3, arg4, (True|False), %s::\{closure#\d+\}\{\}\)$" % nm, found[0][0]) is not None and not found[0][1]
        ctx.judge(okb, "C21.range", "%s splits exactly the range it was given" % nm, expected="break_bit_range(meta_start_addr, meta_start_bit, meta_end_addr, meta_end_bit, _, visitor)", found=str(found)[:300], where=where(f),
                  key="C21.range|split|%s" % nm)
        cls = _closure0(F, f.q)
        ctx.floor("C21.bits", len(cls), 1, "visitor closures of %s" % nm)
        for cl in cls[:1]:
            _visitor(ctx, F, cl, kind)
    # ---- copy
    f = F.fn(S + "bcopy_metadata_contiguous")
    cs = [c for c in live_calls(f) if c.name == "break_bit_range"]
    e = END % ("arg2", "arg3")
    args = [[show(strip(f.flow.arg_tree(c, i))) for i in range(4)] for c in cs]
    want = [[M("arg1", "arg2"), L("arg1", "arg2"), M("arg1", e), L("arg1", e)]]
    ctx.judge(args == want and all(not sig_strs(f, c.bb) for c in cs), "C21.range", "bcopy_metadata_contiguous splits [meta(start):shift(start), meta(start+size):shift(start+size)) of the destination spec",
              expected=str(want[0]), found=str(args)[:500], where=where(f), key="C21.range|split|bcopy")
    cls = _closure0(F, f.q)
    ctx.floor("C21.bits", len(cls), 1, "visitor closures of bcopy_metadata_contiguous")
    for cl in cls[:1]:
        names = sorted(set(cl.flow.upvar_names.values()))
        base = {}
        for n in names:
            p_, t = upvar_tree(F, cl, n)
            base[n] = show(simp(t)) if t is not None else None
        src = [n for n, v in base.items() if v == M("arg4", "arg2")]
        dst = [n for n, v in base.items() if v == M("arg1", "arg2")]
        ctx.judge(len(src) == 1 and len(dst) == 1, "C21.range", "the copy visitor knows the source table's address of the same data start", expected="captures meta(other,start) and meta(self,start)", found=str(base)[:300],
                  where=where(f), key="C21.range|bcopy-bases")
        if len(src) == 1 and len(dst) == 1:
            _visitor(ctx, F, cl, "copy", src[0], dst[0])
