"""C23 In-header metadata fields are isolated: extract-before-convert clause (partial) (DESIGN.md 4/C23)."""
import re
from .common import *
from ..engine import AnalysisError, show, strip, short, walk, last_seg, tree_calls

PROP = "C23"
LEVEL = "other"
QUICK = ["K0"]
THOROUGH = ALL_CONFIGS
ASSUMPTIONS = ["the bit arithmetic inside get_bits_from_u8 / set_bits_to_u8 / get_shift_and_mask_for_bits is value-level and not decided here"]
LEVEL_NOTE = "partial: decides only the field-extraction discipline of the sub-byte (<8 bit) paths: no raw header byte is ever converted to the caller's value type, every byte written back is built by set_bits_to_u8 from the current byte, atomic variants write through a read-modify-write"
EXPLANATION = (
    "Partial claim. In every accessor of HeaderMetadataSpec (functions and their closures), each conversion FromPrimitive::from_u8(x) on the "
    "sub-byte path has an argument whose origin contains get_bits_from_u8(..) (or is the result of fetch_ops_on_bits, itself checked), so "
    "value-returning operations - including both arms of compare_exchange and fetch_update - return the field only, never the raw header "
    "byte; every u8 written back on that path (plain store, compare_exchange new/old bytes, fetch_update closure result) has an origin "
    "containing set_bits_to_u8(current_byte, ..); the atomic store/update variants never use a plain store on the sub-byte path. "
    "Neighbours-preserved clause (rules/bitiso.py): set_bits_to_u8 / get_bits_from_u8 / truncate_bits_in_u8 / get_shift_and_mask_for_bits are checked "
    "to be the mask idioms they are taken for, and every byte or word written back (plain store, both CAS operands, fetch_update closure results incl. the "
    "closure mapped over the user's result, AND/OR operands, and the optional-mask paths of store/compare_exchange for >= 1 byte fields) is evaluated in "
    "the abstract domain {RAW, ZERO, ONES, ANY} of its bits outside the mask: stored values must be RAW, an AND operand ONES, an OR operand ZERO; computed "
    "field values must be truncated before set_bits_to_u8. The cas-result clause: Ok/Err payloads of both compare-exchange implementations are computed by "
    "closures that read the byte the hardware CAS returned."
)
P = "util::metadata::header_metadata::HeaderMetadataSpec::"


def check_header_cas(ctx, F, rule):
    """The sub-byte compare_exchange is ONE byte-wide atomic compare-exchange whose expected/new bytes are the freshly
    loaded byte with the old/new field value spliced in (a separate check followed by an update is not a compare-exchange)."""
    f = F.fn(P + "compare_exchange")
    allf = fn_and_closures(F, f)
    sub = [c for g in allf for c in live_calls(g) if c.q == "util::address::Address::compare_exchange" and any("u8" in x for x in c.ga)]
    upd = [c for g in allf for c in live_calls(g) if c.name in ("fetch_update", "store", "atomic_store", "fetch_and", "fetch_or") and c.q and ("MetadataValue" in c.q or "Address" in c.q)
           and (g is not f or guard_find(f, c.bb, r"num_of_bits Lt 8", True))]
    ok = len(sub) == 1 and not upd and bool(guard_find(f, sub[0].bb, r"num_of_bits Lt 8", True))
    ctx.judge(ok, rule, "HeaderMetadataSpec::compare_exchange (sub-byte) is a single atomic byte compare-exchange", expected="one Address::compare_exchange::<AtomicU8>, no separate update on that path",
              found="cas=%d other-updates=%s" % (len(sub), [(c.name, c.line) for c in upd]), where=where(f), key=rule + "|header-cas")
    if len(sub) == 1:
        c = sub[0]
        exp = strip(c.fn.flow.arg_tree(c, 1))
        new = strip(c.fn.flow.arg_tree(c, 2))
        ok2 = bool(tree_calls(exp, name="atomic_load")) and bool(tree_calls(exp, name="set_bits_to_u8")) and "arg3" in show(exp) and "arg4" in show(new) and bool(tree_calls(new, name="set_bits_to_u8"))
        ctx.judge(ok2, rule, "expected byte = loaded byte with the OLD field value; new byte = that with the NEW field value", expected="cas(set_bits(load, old), set_bits(set_bits(load, old), new))",
                  found="expected=%s" % show(exp)[:140], where=where(c.fn, c.line), key=rule + "|header-cas-operands")
        rt = [show(strip(t)) for r, t in f.flow.return_trees()]
        ctx.judge(any("Address::compare_exchange" in r for r in rt), rule, "the caller sees the outcome of that compare-exchange", expected="Ok/Err derived from the byte CAS", found=str(rt)[:200], where=where(f),
                  key=rule + "|header-cas-result")


def fns_under(F, prefix):
    return [f for q, f in sorted(F.fns.items()) if q.startswith(prefix) and "::tests::" not in q]


def run(ctx, F):
    fs = fns_under(F, P)
    ctx.floor("C23.extract-before-convert", len(fs), 20, "HeaderMetadataSpec functions and closures")
    nconv = 0
    for f in fs:
        for c in live_calls(f, name="from_u8"):
            if not (c.trait and "FromPrimitive" in c.trait):
                continue
            nconv += 1
            a = strip(f.flow.arg_tree(c, 0))
            okc = bool(tree_calls(a, name="get_bits_from_u8")) or bool(tree_calls(a, name="fetch_ops_on_bits"))
            ctx.judge(okc, "C23.extract-before-convert", "%s converts only the extracted field" % short(f.q), expected="from_u8(get_bits_from_u8(byte)) (or the result of fetch_ops_on_bits)",
                      found="from_u8(%s)" % show(a)[:120], where=where(f, c.line), key="C23.extract-before-convert|conv|%s" % f.q)
    ctx.floor("C23.extract-before-convert", nconv, 10, "from_u8 conversion sites")
    fo = F.fn(P + "fetch_ops_on_bits")
    rt = [strip(t) for r, t in fo.flow.return_trees()]
    ctx.judge(bool(rt) and all(t and t[0] == "call" and last_seg(t[2] or t[1]) == "get_bits_from_u8" for t in rt), "C23.extract-before-convert", "fetch_ops_on_bits returns the extracted old field",
              expected="get_bits_from_u8(old_raw_byte)", found=str([show(t)[:80] for t in rt]), where=where(fo), key="C23.extract-before-convert|fetch_ops")
    # bytes written back
    nw = 0
    for f in fs:
        outer = outermost(F, f)
        for c in live_calls(f):
            if c.q == "util::address::Address::store" and c.ga and c.ga[0] == "u8":
                nw += 1
                v = strip(f.flow.arg_tree(c, 1))
                ctx.judge(bool(tree_calls(v, name="set_bits_to_u8")), "C23.extract-before-convert", "%s stores a byte rebuilt from the current byte" % short(f.q), expected="store(set_bits_to_u8(old_byte, v))",
                          found=show(v)[:120], where=where(f, c.line), key="C23.extract-before-convert|store|%s" % f.q)
                # a plain byte store only on the non-atomic path
                if outer.q.endswith("store_inner"):
                    ctx.judge(any(p.val == "None" for p in guards(f, c.bb)), "C23.extract-before-convert", "plain byte store only without an ordering", expected="guarded by order == None", found=str(guard_strs(f, c.bb)),
                              where=where(f, c.line), key="C23.extract-before-convert|plain|%s" % f.q)
            if c.q == "util::address::Address::compare_exchange" and any("u8" in g for g in c.ga):
                nw += 1
                for i in (1, 2):
                    v = strip(f.flow.arg_tree(c, i))
                    ctx.judge(bool(tree_calls(v, name="set_bits_to_u8")), "C23.extract-before-convert", "%s: CAS byte %d rebuilt from the loaded byte" % (short(f.q), i), expected="set_bits_to_u8(real_old_byte, ..)",
                              found=show(v)[:120], where=where(f, c.line), key="C23.extract-before-convert|cas%d|%s" % (i, f.q))
        if f.kind == "closure":
            for b, t, g in ret_table(f):
                if t and t[0] == "agg" and t[1][2] == "Some" and f.meta.get("parent", "").startswith(P) and "u8" in (f.local_ty(2) if f.argc >= 2 else ""):
                    top = outermost(F, f)
                    if top.q.endswith(("store_inner", "fetch_ops_on_bits")) and "num_of_bits" in " ".join(guard_strs(top, b2) for b2 in top.cfg.live if False) + "x":
                        pass
                    if top.q.endswith("fetch_ops_on_bits") or (top.q.endswith("store_inner") and f.q.endswith("{closure#0}")):
                        nw += 1
                        ctx.judge(bool(tree_calls(t, name="set_bits_to_u8")) and any(s == ("arg", 2) for s in walk(t)), "C23.extract-before-convert", "%s: RMW closure rebuilds the byte from the one it was given" % short(f.q),
                                  expected="Some(set_bits_to_u8(old_byte, ..))", found=show(t)[:120], where=where(f), key="C23.extract-before-convert|rmw|%s" % f.q)
    ctx.judge(nw >= 1, "C23.extract-before-convert", "byte write-back sites found", expected=">= 1", found=str(nw), key="C23.extract-before-convert|writeback-count")
    check_header_cas(ctx, F, "C23.cas-atomic")
    fu = F.fn(P + "fetch_update")
    inner = [cl for cl in closures_of(F, fu) if tree_calls(ret_table(cl)[0][1], name="set_bits_to_u8")] if closures_of(F, fu) else []
    ctx.judge(bool(inner), "C23.extract-before-convert", "fetch_update writes back through set_bits_to_u8", expected="new byte = set_bits_to_u8(raw_byte, truncated(new))", found=str(len(inner)), where=where(fu),
              key="C23.extract-before-convert|fetch_update-write")
    # ---- C23.neighbours-preserved: abstract interpretation of every byte/word written back (rules/bitiso.py)
    from . import bitiso
    bitiso.check_helpers(ctx, F, "C23.neighbours-preserved", "header")
    # compare_exchange with the caller's optional mask splices old/new in unclipped: the accessor documents that the caller passes
    # values already confined to the mask (store() clips explicitly and is held to that)
    nsites = bitiso.check_isolation(ctx, F, "C23.neighbours-preserved", P, "header", trusted={"compare_exchange": (("arg", 3), ("arg", 4))})
    ctx.floor("C23.neighbours-preserved", nsites, 11, "write-back sites of in-header metadata")
    check_cas_result(ctx, F, "C23.cas-result")


def check_cas_result(ctx, F, rule):
    """What a compare-exchange reports (Ok(previous) / Err(current)) is what the hardware CAS observed, not an earlier read."""
    for q, raw_cas in ((P + "compare_exchange", "util::address::Address::compare_exchange"),
                       ("util::metadata::side_metadata::global::SideMetadataSpec::compare_exchange_atomic", "util::address::Address::compare_exchange")):
        f = F.fn(q)
        n = 0
        for g in fn_and_closures(F, f):
            for c in live_calls(g):
                if c.name in ("map", "map_err") and c.q and "Result" in c.q and len(c.args) == 2:
                    src = show(strip(g.flow.arg_tree(c, 0)))
                    if "compare_exchange" not in src:
                        continue
                    clo = [s for s in walk(strip(g.flow.arg_tree(c, 1))) if s and s[0] == "agg" and s[1][0] == "closure"]
                    okc = False
                    found = "mapper is not a closure literal"
                    if len(clo) == 1 and clo[0][1][1] in F.fns:
                        m = F.fns[clo[0][1][1]]
                        rts = [strip(t) for _, t in m.flow.return_trees()]
                        okc = bool(rts) and all(any(s == ("arg", 2) for s in walk(t)) for t in rts)
                        found = str([show(t)[:100] for t in rts])
                    n += 1
                    ctx.judge(okc, rule, "%s: %s derives the reported field from the byte the CAS observed" % (short(g.q), c.name), expected="closure over the CAS result that reads its argument",
                              found=found, where=where(g, c.line), key="%s|%s|%s" % (rule, last_seg(q), c.name))
        ctx.judge(n == 2, rule, "%s maps both arms of the byte CAS back to field values" % short(q), expected="map + map_err on the compare_exchange result", found=str(n), where=where(f),
                  key="%s|%s|arms" % (rule, last_seg(q)))
