"""C19 Block pool never loses or duplicates a block (DESIGN.md 4/C19)."""
import re
from .common import *
from .paths import PathEval
from ..engine import AnalysisError, show, strip, short, walk, last_seg, tree_calls

PROP = "C19"
LEVEL = "other"
QUICK = ["K0"]
THOROUGH = ALL_CONFIGS
ASSUMPTIONS = ["linearizability of the relaxed/SeqCst mix is not decided", "spin::RwLock semantics (one upgradeable reader at a time) are trusted",
               "facts are extracted with debug assertions off, so code that exists only inside debug_assert! does not count as executed"]
EXPLANATION = (
    "Structural necessary conditions: (count) the only mutators of BlockPool.count are push (+1, exactly once per path, nothing else), "
    "add_global_array (+len of the array it publishes, never reached from push) and pop (-1 exactly once on every path returning Some, "
    "never on a path returning None); (no-loss) in push the overflow arm stores the block into a fresh queue before swapping it in and "
    "publishes the swapped-out queue; (atomic-pop) BlockQueue::pop reserves an index by a fetch_update read-modify-write and reads the "
    "reserved entry; (head-exclusive) BlockPool::pop takes the head array through upgradeable_read (exclusive among poppers), replaces it "
    "only through upgrade() of that guard while holding the global list's write lock, and never takes the locks in the opposite order; "
    "(unsafe-push) census of push_relaxed callers and receivers (own worker-local queue or a fresh queue)."
)
BP = "util::heap::blockpageresource::BlockPool::"
BQ = "util::heap::blockpageresource::BlockQueue::"


def count_ops(f):
    out = []
    for c in live_calls(f):
        if c.name in ("fetch_add", "fetch_sub", "store", "swap", "fetch_update") and c.args:
            r = show(strip(f.flow.arg_tree(c, 0)))
            if r.endswith(".count") and "arg1" in r:
                out.append(c)
    return out


def run(ctx, F):
    # ---- C19.count
    writers = {}
    for q, f in F.fns.items():
        if "blockpageresource::BlockPool" in q or "blockpageresource::BlockQueue" in q:
            ops = count_ops(f)
            if ops:
                writers[q] = ops
    ctx.judge(set(writers) == {BP + "push", BP + "pop", BP + "add_global_array"}, "C19.count", "mutators of BlockPool.count", expected="{push, pop, add_global_array}",
              found=str(sorted(writers)), key="C19.count|writers")
    push = F.fn(BP + "push")
    pop = F.fn(BP + "pop")
    aga = F.fn(BP + "add_global_array")
    w = {c.bb: (1, 1) for c in writers.get(push.q, [])}
    for c in live_calls(push):
        if (c.res or c.q) in (aga.q,):
            w[c.bb] = (1, 1)
    mn, mx = push.cfg.weighted_path_counts(w)
    okv = all(c.name == "fetch_add" and const_arg(push.flow.arg_tree(c, 1)) == 1 for c in writers.get(push.q, []))
    ctx.judge((mn, mx) == (1, 1) and okv, "C19.count", "push counts the block exactly once", expected="exactly one count.fetch_add(1) on every path and no other count update (e.g. via add_global_array)",
              found="updates per path=(%s,%s)" % (mn, mx), where=where(push), key="C19.count|push")
    for c in writers.get(aga.q, []):
        v = show(strip(aga.flow.arg_tree(c, 1)))
        pub = [x for x in live_calls(aga, name="push") if "global_freed_blocks" in show(strip(aga.flow.arg_tree(x, 0)))]
        ctx.judge(c.name == "fetch_add" and "len" in v and "arg2" in v and len(pub) == 1 and strip(aga.flow.arg_tree(pub[0], 1)) == ("arg", 2), "C19.count",
                  "add_global_array adds exactly the length of the array it publishes", expected="count += array.len(); global_freed_blocks.push(array)", found=v, where=where(aga, c.line),
                  key="C19.count|aga")
    for c in callers(F, aga.q):
        ctx.judge(c.fn.q != push.q and "BlockPool" not in c.fn.q, "C19.count", "add_global_array <- %s" % short(c.fn.q), expected="only for arrays of blocks that were not counted yet (never from push/pop)",
                  found=c.fn.q, where=where(c.fn, c.line), key="C19.count|aga-caller|" + c.fn.q)
    subs = {c.bb: (1, 1) for c in writers.get(pop.q, []) if c.name == "fetch_sub"}
    okv = all(const_arg(pop.flow.arg_tree(c, 1)) == 1 for c in writers.get(pop.q, [])) and all(c.name == "fetch_sub" for c in writers.get(pop.q, []))
    rows = ret_table(pop)
    ctx.floor("C19.count", len(rows), 3, "return definitions of BlockPool::pop")
    for b, t, g in rows:
        s = show(t)
        is_some = t and t[0] == "agg" and t[1][2] == "Some"
        # feasible paths only: a return of Some(x) that follows `if let Some(x) = helper()` is not reached from the helper's None exits
        cnt = PathEval(pop, {}).path_counts(set(subs), b)
        if cnt is None:
            continue
        want = (1, 1) if is_some else (0, 0)
        ctx.judge(cnt == want and okv, "C19.count", "pop returning %s at bb%d decrements count %s" % ("Some" if is_some else "None", b, "once" if is_some else "never"),
                  expected="fetch_sub(1) per path = %s" % (want,), found=str(cnt), where=where(pop), key="C19.count|pop|%s" % ("some" if is_some else "none"))
    for q in (BP + "flush", BP + "flush_all", BQ + "replace"):
        f = F.fn(q)
        ctx.judge(not count_ops(f), "C19.count", "%s does not touch count" % last_seg(q), expected="moving arrays between lists keeps the number of held blocks", found="updates", where=where(f),
                  key="C19.count|untouched|" + q)
    ln = F.fn(BP + "len")
    ctx.judge(all("count" in show(strip(t)) and "load" in show(strip(t)) for r, t in ln.flow.return_trees()), "C19.count", "len() reports count", expected="count.load()", found="",
              where=where(ln), key="C19.count|len")

    # ---- C19.no-loss (push overflow arm)
    prs = live_calls(push, q=BQ + "push_relaxed")
    first = [c for c in prs if "worker_local_freed_blocks" in show(strip(push.flow.arg_tree(c, 0)))]
    fresh = [c for c in prs if show(strip(push.flow.arg_tree(c, 0))).startswith("BlockQueue::new")]
    # the arm where the local queue was full: is_err() == true, is_ok() == false, or a match on Err
    edges = branch_edges(push, r"is_err\(BlockQueue::push_relaxed", True) + branch_edges(push, r"is_ok\(BlockQueue::push_relaxed", False) + branch_edges(push, r"^BlockQueue::push_relaxed\(", "Err")
    okn = len(first) == 1 and len(fresh) == 1 and bool(edges) and all(push.cfg.must_pass([fresh[0].bb], start=s) for a, s in edges)
    ctx.judge(okn, "C19.no-loss", "overflowing push stores the block into a fresh queue", expected="on the arm where the local queue is full every path passes push_relaxed(block) on BlockQueue::new()",
              found="push_relaxed sites: local=%d fresh=%d" % (len(first), len(fresh)), where=where(push), key="C19.no-loss|fresh")
    for c in fresh:
        ctx.judge(strip(push.flow.arg_tree(c, 1)) == ("arg", 2), "C19.no-loss", "the re-pushed block is the argument", expected="push_relaxed(block)", found=show(strip(push.flow.arg_tree(c, 1))),
                  where=where(push, c.line), key="C19.no-loss|same-block")
    rep = live_calls(push, q=BQ + "replace")
    pubs = [x for x in live_calls(push, name="push") if "global_freed_blocks" in show(strip(push.flow.arg_tree(x, 0)))]
    okr = len(rep) == 1 and bool(fresh) and push.cfg.dominates(fresh[0].bb, rep[0].bb) and len(pubs) == 1 and "BlockQueue::replace" in show(strip(push.flow.arg_tree(pubs[0], 1))) \
        and all(push.cfg.must_pass([pubs[0].bb], start=s) for a, s in edges)
    ctx.judge(okr, "C19.no-loss", "the full local queue is swapped out and published", expected="replace(fresh) after the re-push; the old queue is pushed to global_freed_blocks on every overflow path",
              found="replace=%d publish=%d" % (len(rep), len(pubs)), where=where(push), key="C19.no-loss|publish")
    fl = F.fn(BP + "flush")
    rp = live_calls(fl, q=BQ + "replace")
    pb = [x for x in live_calls(fl, name="push") if "global_freed_blocks" in show(strip(fl.flow.arg_tree(x, 0)))]
    okf = len(rp) == 1 and len(pb) == 1 and "BlockQueue::replace" in show(strip(fl.flow.arg_tree(pb[0], 1)))
    if okf:
        gs = guard_strs(fl, pb[0].bb)
        okf = all("is_empty" in s and s.endswith("False") for s in gs)
    ctx.judge(okf, "C19.no-loss", "flush publishes every non-empty local queue", expected="the swapped-out queue is pushed to the global list unless empty", found="replace=%d push=%d" % (len(rp), len(pb)),
              where=where(fl), key="C19.no-loss|flush")
    fa = F.fn(BP + "flush_all")
    fc = live_calls(fa, q=BP + "flush")
    okfa = len(fc) == 1 and any(p.val == "Some" for p in guards(fa, fc[0].bb)) and "next" in show(strip(fa.flow.arg_tree(fc[0], 1)))
    if not fc:
        # the same loop as an iterator adaptor: (0..len).for_each(|i| self.flush(i))
        fe = [c for c in live_calls(fa, name="for_each")]
        for cl in closures_of(F, fa):
            cc = live_calls(cl, q=BP + "flush")
            if len(fe) == 1 and len(cc) == 1 and cl.cfg.must_pass([cc[0].bb]) and strip(cl.flow.arg_tree(cc[0], 1)) == ("arg", 2):
                rng = show(strip(fa.flow.arg_tree(fe[0], 0)))
                okfa = re.match(r"^ops::Range\{0, .*len\(.*worker_local_freed_blocks.*\)\}$", rng) is not None and fa.cfg.must_pass([fe[0].bb]) is not None
                fc = cc
    ctx.judge(okfa, "C19.no-loss", "flush_all flushes every worker's queue",
              expected="flush(i) for every i in 0..worker_local_freed_blocks.len()", found=str(len(fc)), where=where(fa), key="C19.no-loss|flush_all")

    # ---- C19.atomic-pop
    qp = F.fn(BQ + "pop")
    fu = live_calls(qp, name="fetch_update")
    plain = [c for c in live_calls(qp) if c.name in ("store", "load") and "cursor" in show(strip(qp.flow.arg_tree(c, 0)))]
    ge = live_calls(qp, q=BQ + "get_entry")
    okp = len(fu) == 1 and not plain and len(ge) == 1
    ctx.judge(okp, "C19.atomic-pop", "BlockQueue::pop reserves the index with one read-modify-write", expected="cursor.fetch_update(..) and no separate load/store of the cursor",
              found="fetch_update=%d plain cursor accesses=%d" % (len(fu), len(plain)), where=where(qp), key="C19.atomic-pop|rmw")
    if okp:
        idx = show(strip(qp.flow.arg_tree(ge[0], 1)))
        okx = "fetch_update" in idx and "Sub" in idx and bool(guard_find(qp, ge[0].bb, r"fetch_update", "Ok"))
        ctx.judge(okx, "C19.atomic-pop", "the entry read is the one just reserved", expected="get_entry(i - 1) with i the Ok value of fetch_update", found=idx[:200], where=where(qp, ge[0].line),
                  key="C19.atomic-pop|index")
        clo = closures_of(F, qp)
        okc = False
        for c in clo:
            rows = ret_table(c)
            somes = [(b, t, g) for b, t, g in rows if t and t[0] == "agg" and t[1][2] == "Some"]
            nones = [(b, t, g) for b, t, g in rows if t and t[0] == "agg" and t[1][2] == "None"]
            POS = {("(arg2 Gt 0)", True), ("(0 Lt arg2)", True), ("(arg2 Ne 0)", True), ("(0 Ne arg2)", True), ("(arg2 Eq 0)", False), ("(0 Eq arg2)", False), ("(arg2 Ge 1)", True), ("(1 Le arg2)", True),
                   ("(arg2 Le 0)", False), ("(arg2 Lt 1)", False)}
            okc = bool(somes) and bool(nones) and all(re.match(r"^option::Option::Some\{\(arg2 Sub 1\)\}$", show(strip(t))) for b, t, g in somes) and all(any((show(p.tree), p.val) in POS for p in g) for b, t, g in somes)
            # the same decision made by the standard library: |i| i.checked_sub(1)
            if not okc and rows and all(re.match(r"^(usize|u32|u64)::checked_sub\(arg2, 1\)$", show(strip(t))) and not g for b, t, g in rows):
                okc = True
        ctx.judge(okc, "C19.atomic-pop", "the cursor is decremented only when positive", expected="closure: if i > 0 { Some(i - 1) } else { None }  (or i.checked_sub(1))", found="closures=%d" % len(clo), where=where(qp),
                  key="C19.atomic-pop|closure")

    # ---- C19.head-exclusive / lock order
    ur = [c for c in live_calls(pop, name="upgradeable_read") if "head_global_freed_blocks" in show(strip(pop.flow.arg_tree(c, 0)))]
    other_head = [c for c in live_calls(pop) if c.name in ("read", "write", "try_read", "try_write") and c.q and "RwLock" in c.q and "head_global_freed_blocks" in show(strip(pop.flow.arg_tree(c, 0)))]
    ctx.judge(len(ur) == 1 and not other_head, "C19.head-exclusive", "pop takes the head array through upgradeable_read only", expected="one upgradeable_read on head_global_freed_blocks, no read()/write() on it",
              found="upgradeable_read=%d other=%s" % (len(ur), [c.name for c in other_head]), where=where(pop), key="C19.head-exclusive|acquire")
    if ur:
        qpops = [c for f2 in fn_and_closures(F, pop) for c in live_calls(f2, q=BQ + "pop")]
        inner = [c for c in live_calls(pop) if c.name in ("and_then", "pop") and c.bb != ur[0].bb]
        okd = all(pop.cfg.dominates(ur[0].bb, c.bb) for c in inner)
        ctx.judge(okd and len(qpops) >= 2, "C19.head-exclusive", "every pop from a block array happens while holding the head guard", expected="upgradeable_read dominates all array pops",
                  found="array pops=%d" % len(qpops), where=where(pop), key="C19.head-exclusive|dominates")
        up = live_calls(pop, name="upgrade")
        gw = [c for c in live_calls(pop, name="write") if "global_freed_blocks" in show(strip(pop.flow.arg_tree(c, 0))) and "head" not in show(strip(pop.flow.arg_tree(c, 0)))]
        oku = len(up) == 1 and "upgradeable_read" in show(strip(pop.flow.arg_tree(up[0], 0))) and len(gw) == 1 and pop.cfg.dominates(gw[0].bb, up[0].bb) and pop.cfg.dominates(ur[0].bb, gw[0].bb)
        ctx.judge(oku, "C19.head-exclusive", "a new head array is installed by upgrading the guard taken at entry, under the global write lock",
                  expected="head.upgradeable_read < global.write < guard.upgrade()", found="upgrade=%d global.write=%d" % (len(up), len(gw)), where=where(pop), key="C19.head-exclusive|upgrade")
        hs = [(bb, pl, t) for (bb, j, pl, t) in stores(pop) if t and "Some" in show(strip(t)) and "BlockQueue" in (pop.flow.place_ty(pl[:1]) or pop.local_ty(pl[0]) or "")]
        # the retry of the head array under the global lock (another popper may have installed one meanwhile in designs without exclusivity) is optional
    # lock order elsewhere: nobody takes global write and then the head lock
    for q, f in F.fns.items():
        if "blockpageresource::BlockPool" not in q:
            continue
        heads = [c for c in live_calls(f) if c.name in ("read", "write", "upgradeable_read") and c.q and "RwLock" in c.q and "head_global_freed_blocks" in show(strip(f.flow.arg_tree(c, 0)))]
        globs = [c for c in live_calls(f) if c.name in ("write",) and c.q and "RwLock" in c.q and show(strip(f.flow.arg_tree(c, 0))).endswith("arg1.global_freed_blocks")]
        bad = [(h.line, g.line) for h in heads for g in globs if f.cfg.dominates(g.bb, h.bb) and g.bb != h.bb]
        if heads and globs:
            ctx.judge(not bad, "C19.lock-order", "%s takes head before global" % last_seg(q), expected="head_global_freed_blocks is never acquired after global_freed_blocks.write()", found=str(bad),
                      where=where(f), key="C19.lock-order|" + q)

    # ---- C19.unsafe-push
    pr = F.fn(BQ + "push_relaxed")
    ctx.judge(pr.meta.get("unsafe") is True, "C19.unsafe-push", "push_relaxed is an unsafe fn", expected="unsafe fn", found=str(pr.meta.get("unsafe")), where=where(pr), key="C19.unsafe-push|unsafe")
    for c in check_callers(ctx, F, "C19.unsafe-push", pr.q, {
            push.q: "own worker-local queue or a queue not yet shared",
            "util::heap::blockpageresource::BlockPageResource::alloc_pages_slow_sync": "fills a fresh array with newly acquired blocks before publishing it via add_global_array"}, min_sites=2):
        r = show(strip(c.fn.flow.arg_tree(c, 0)))
        okr = bool(re.fullmatch(r"<Vec as Index>::index\(arg1\.worker_local_freed_blocks, worker::current_worker_ordinal\(\)\)", r)) or bool(re.fullmatch(r"(phi\()?BlockQueue::new\(\)( \| BlockQueue::new\(\))*\)?", r))
        ctx.judge(okr, "C19.unsafe-push", "push_relaxed receiver at line %s" % c.line, expected="worker_local_freed_blocks[current_worker_ordinal()] or a fresh BlockQueue::new()", found=r[:160],
                  where=where(c.fn, c.line), key="C19.unsafe-push|recv")
