"""C02 New allocations never overlap live objects: structural necessary clauses (DESIGN.md 4/C02)."""
import re
from .common import *
from .plans import *
from ..engine import AnalysisError, show, strip, short, walk, tree_calls, last_seg

PROP = "C02"
LEVEL = "other"
QUICK = ["K0", "K1", "K3", "K4", "K9"]
THOROUGH = ALL_CONFIGS
ASSUMPTIONS = ["hole-search and free-list cell arithmetic are value-level and not decided",
               "a thread-local buffer is stale after its space was swept/reset; every plan must retire it in its mutator release function"]
EXPLANATION = (
    "Necessary structural conditions for 'allocations never overlap': (tlab-reset) from every MutatorConfig in the crate the "
    "registered release_func is extracted, and for every semantics mapped (ALLOCATOR_MAPPING + create_allocator_mapping, "
    "cfg-folded) to a thread-local-buffer allocator of a collected space the release function must reset/rebind/release that "
    "allocator on every path (exactly once for FreeListAllocator::release, which counts release packets); (copy-tlab) the GC "
    "worker copy context resets every copy allocator in prepare and release; (take-before-return) bump/free-list fast paths "
    "advance the cursor / unlink the cell on every path that returns fast-path memory; (free-only-from-sweep) census of every "
    "caller of the page/block-returning functions. Decided per feature configuration on all non-panicking paths."
)


def receiver_semantics(F, fn, tree, depth=0):
    sems = list(consts_of_type(tree, "AllocationSemantics"))
    if depth < 2:
        for s in walk(tree):
            if s and s[0] == "call" and isinstance(s[1], str):
                h = F.fns.get(s[2] or s[1])
                if h is not None and h.q.startswith("plan::") and h.kind != "closure":
                    for r, t in h.flow.return_trees():
                        sems += receiver_semantics(F, h, t, depth + 1)
    return sems


def reset_summary2(F, fn, sem, depth=0, memo=None):
    """Like plans.reset_summary but resolving semantics through plan-local accessor helpers."""
    memo = memo if memo is not None else {}
    key = (fn.q, sem)
    if key in memo:
        return memo[key]
    memo[key] = (0, 0)
    weights = {}
    for cs in live_calls(fn):
        if cs.q is None:
            continue
        if cs.name in RESET_METHODS and cs.args and re.search(r"Allocator", cs.q + (cs.res or "")):
            recv = fn.flow.arg_tree(cs, 0)
            if sem in receiver_semantics(F, fn, recv):
                weights[cs.bb] = (1, 1)
                continue
        h = local_helper(F, cs)
        if h is not None and depth < 4 and h.q.startswith("plan::") and h.kind != "closure":
            s = reset_summary2(F, h, sem, depth + 1, memo)
            if s != (0, 0):
                weights[cs.bb] = s
    r = fn.cfg.weighted_path_counts(weights) if weights else (0, 0)
    memo[key] = r
    return r


def kind_of(sel):
    if sel is None:
        return None
    if sel[0] == "add":
        return {"add_bump_pointer_allocator": "BumpPointer", "add_immix_allocator": "Immix", "add_free_list_allocator": "FreeList",
                "add_large_object_allocator": "LargeObject", "add_malloc_allocator": "Malloc", "add_mark_compact_allocator": "MarkCompact"}.get(sel[1], sel[1])
    if sel[0] == "phi":
        ks = {kind_of(a) for a in sel[1]}
        return ks.pop() if len(ks) == 1 else "phi"
    return sel[0]


def run(ctx, F):
    # ---- C02.tlab-reset
    cfgs = mutator_configs(F)
    ctx.floor("C02.tlab-reset", len(cfgs), 11, "MutatorConfig constructions (one per plan)")
    for m in cfgs:
        name = short(m.creator.q)
        ctx.require(m.release and m.prepare, "C02.tlab-reset: cannot resolve prepare/release function constants of %s" % m.creator.q)
        rel = F.fns.get(m.release)
        ctx.require(rel is not None, "C02.tlab-reset: release function %s has no body" % m.release)
        if diverges(rel):
            ctx.ok("C02.tlab-reset", "%s: release_func diverges (plan never collects)" % name, "exempt: " + short(m.release), where(m.creator))
            continue
        table, init, inc = plan_mapping(F, m)
        for sem in ("Default", "NonMoving"):
            kind = kind_of(table.get(sem))
            if kind is None:
                continue
            if kind not in TLAB_KINDS:
                ctx.ok("C02.tlab-reset", "%s: %s -> %s has no thread-local buffer" % (name, sem, kind), "", where(m.creator))
                continue
            if sem == "NonMoving" and kind == "BumpPointer":
                ctx.ok("C02.tlab-reset", "%s: NonMoving -> immortal bump allocator (never reclaimed)" % name, "", where(m.creator))
                continue
            mn, mx = reset_summary2(F, rel, sem)
            if kind == "FreeList":
                okc = (mn, mx) == (1, 1)
                exp = "exactly one FreeListAllocator::release per path (it counts release packets)"
            else:
                okc = mn >= 1
                exp = "at least one reset/rebind of the %s allocator on every path" % kind
            ctx.judge(okc, "C02.tlab-reset", "%s: release_func %s retires the %s (%s) allocator" % (name, short(m.release), sem, kind),
                      expected=exp, found="calls per path: min=%s max=%s" % (mn, mx), where=where(rel),
                      key="C02.tlab-reset|%s|%s" % (m.creator.q, sem))

    # ---- C02.copy-tlab
    for meth in ("prepare", "release"):
        f = F.fn("util::copy::GCWorkerCopyContext::" + meth)
        seen = {}
        for cs in live_calls(f, name=meth):
            if cs.trait and cs.trait.endswith("PolicyCopyContext") and cs.res:
                g = [p.val for p in guards(f, cs.bb) if isinstance(p.val, str)]
                seen[last_seg(cs.recv_head or "?")] = (cs, g)
        for ty, variant in (("CopySpaceCopyContext", "CopySpace"), ("ImmixCopyContext", "Immix"), ("ImmixHybridCopyContext", "ImmixHybrid")):
            okc = ty in seen and variant in seen[ty][1]
            ctx.judge(okc, "C02.copy-tlab", "GCWorkerCopyContext::%s reaches %s::%s for selector %s" % (meth, ty, meth, variant),
                      expected="the arm of CopySelector::%s calls %s::%s" % (variant, ty, meth), found=str({k: v[1] for k, v in seen.items()}),
                      where=where(f), key="C02.copy-tlab|%s|%s" % (meth, ty))
    for ty in ("policy::immix::immixspace::ImmixCopyContext", "policy::immix::immixspace::ImmixHybridCopyContext"):
        for meth in ("prepare", "release"):
            q = "<%s as policy::copy_context::PolicyCopyContext>::%s" % (ty, meth)
            f = F.fn(q)
            rs = [c for c in live_calls(f, name="reset") if "ImmixAllocator" in (c.q or "")]
            fields = sorted({show(strip(f.flow.arg_tree(c, 0))) for c in rs})
            want = 1 if ty.endswith("ImmixCopyContext") else 2
            okc = len(fields) >= want and f.cfg.must_pass([c.bb for c in rs])
            ctx.judge(okc, "C02.copy-tlab", "%s::%s resets its Immix allocator(s)" % (last_seg(ty), meth),
                      expected="%d ImmixAllocator::reset on every path" % want, found=str(fields), where=where(f), key="C02.copy-tlab|" + q)

    # ---- C02.take-before-return
    def cursor_rule(q, cursor_re, slow_names):
        f = F.fn(q)
        st = [(bb, pl, t) for (bb, j, pl, t) in stores(f) if re.search(cursor_re, place_str(f, pl))]
        slow = [c.bb for c in live_calls(f) if c.name in slow_names]
        okp = bool(st) and f.cfg.must_pass([bb for bb, _, _ in st] + slow)
        ctx.judge(okp, "C02.take-before-return", "%s advances the cursor on every fast-path return" % short(q),
                  expected="every path to a return passes a store to %s or the slow path %s" % (cursor_re, sorted(slow_names)),
                  found="cursor stores at blocks %s, slow calls at %s" % ([bb for bb, _, _ in st], slow), where=where(f),
                  key="C02.take-before-return|" + q)
        for bb, pl, t in st:
            s = show(strip(t))
            okv = ("align_allocation" in s) and ("Add" in s or "add" in s)
            ctx.judge(okv, "C02.take-before-return", "%s: new cursor = aligned result + size" % short(q),
                      expected="stored cursor derives from align_allocation(_no_fill)(cursor, ..) + size", found=s[:200], where=where(f),
                      key="C02.take-before-return|val|" + q)
    cursor_rule("<util::alloc::bumpallocator::BumpAllocator as util::alloc::allocator::Allocator>::alloc", r"bump_pointer\.cursor$", {"alloc_slow"})
    cursor_rule("<util::alloc::immix_allocator::ImmixAllocator as util::alloc::allocator::Allocator>::alloc", r"bump_pointer\.cursor$", {"alloc_slow", "overflow_alloc", "alloc_slow_hot"})
    cursor_rule("util::alloc::immix_allocator::ImmixAllocator::overflow_alloc", r"large_bump_pointer\.cursor$", {"alloc_slow", "alloc_slow_inline"})
    fb = F.fn("util::alloc::free_list_allocator::FreeListAllocator::block_alloc")
    sf = live_calls(fb, name="store_free_list")
    edges = branch_edges(fb, r"^Address::is_zero\(.*load_free_list", False)
    okf = bool(sf) and bool(edges) and all(fb.cfg.must_pass([c.bb for c in sf], start=s) for _, s in edges)
    ctx.judge(okf, "C02.take-before-return", "FreeListAllocator::block_alloc unlinks the cell before returning it",
              expected="on the arm where the free list head is non-null every path passes Block::store_free_list(next)",
              found="store sites=%s edges=%s" % ([c.line for c in sf], edges), where=where(fb), key="C02.take-before-return|block_alloc")
    for c in sf:
        s = show(strip(fb.flow.arg_tree(c, 1)))
        ctx.judge("load" in s and "load_free_list" in s, "C02.take-before-return", "new free-list head is the link loaded from the returned cell",
                  expected="store_free_list(load(cell)) with cell = load_free_list()", found=s[:200], where=where(fb, c.line),
                  key="C02.take-before-return|block_alloc-next")
    fr = F.fn("util::alloc::immix_allocator::ImmixAllocator::acquire_recyclable_lines")
    line_st = [(bb, pl, t) for (bb, j, pl, t) in stores(fr) if re.search(r"\.line$", place_str(fr, pl))]
    # every path that stores the new cursor/limit also updates self.line
    cur_st = [bb for (bb, j, pl, t) in stores(fr) if re.search(r"bump_pointer\.(cursor|limit)$", place_str(fr, pl))]
    okl = bool(cur_st) and bool(line_st) and all(fr.cfg.must_pass([b for b, _, _ in line_st], start=b) or any(fr.cfg.dominates(b2, b) for b2, _, _ in line_st) for b in cur_st)
    ctx.judge(okl, "C02.take-before-return", "acquire_recyclable_lines advances the hole cursor with the new buffer",
              expected="every path that installs cursor/limit also stores self.line", found="cursor stores %s line stores %s" % (cur_st, [b for b, _, _ in line_st]),
              where=where(fr), key="C02.take-before-return|recyclable")

    # ---- C02.extent: what the allocator / the line marker accounts for covers the whole object
    la = F.fn("<util::alloc::large_object_allocator::LargeObjectAllocator as util::alloc::allocator::Allocator>::alloc_slow_once")
    ap = live_calls(la, name="allocate_pages")
    ctx.judge(len(ap) >= 1, "C02.extent", "LargeObjectAllocator::alloc_slow_once acquires pages from the LOS", expected=">=1 allocate_pages call", found=str(len(ap)),
              where=where(la), key="C02.extent|los-pages-site")
    for c in ap:
        s = show(strip(la.flow.arg_tree(c, 2)))
        okp = re.match(r"^conversions::bytes_to_pages_up\(allocator::get_maximum_aligned_size\(arg2, arg3\)\)$", s) is not None
        ctx.judge(okp, "C02.extent", "LOS page count covers size plus worst-case alignment slack on every path",
                  expected="allocate_pages(.., bytes_to_pages_up(get_maximum_aligned_size(size, align)), ..) with no alternative definition", found=s[:200],
                  where=where(la, c.line), key="C02.extent|los-pages")
    ml = F.fn("policy::immix::line::Line::mark_lines_for_object")
    ri = live_calls(ml, name="new")
    ri = [c for c in ri if c.q and "RegionIterator" in c.q]
    ctx.judge(len(ri) == 1, "C02.extent", "Line::mark_lines_for_object iterates one line range", expected="one RegionIterator::new", found=str(len(ri)), where=where(ml),
              key="C02.extent|line-iter-site")
    for c in ri:
        a0 = show(strip(ml.flow.arg_tree(c, 0)))
        a1 = show(strip(ml.flow.arg_tree(c, 1)))
        ok0 = a0 == "Region::from_unaligned_address(ObjectReference::to_object_start(arg1))"
        endx = "<Address as Add<usize>>::add(ObjectReference::to_object_start(arg1), ObjectModel::get_current_size(arg1))"
        ok1 = "Region::next(Region::from_unaligned_address(%s))" % endx in a1 and "to_raw_address" not in a1 and a1.startswith("phi(")
        ctx.judge(ok0 and ok1, "C02.extent", "marked line range spans [object start, object start + current size)",
                  expected="first line = line of to_object_start(object); end line = line after (start + get_current_size) unless aligned",
                  found="start=%s end=%s" % (a0[:120], a1[:200]), where=where(ml, c.line), key="C02.extent|line-range")
    mk = live_calls(ml, name="mark")
    ctx.judge(len(mk) == 1 and not [p for p in guards(ml, mk[0].bb) if "is_marked" not in show(p.tree) and "Iterator>::next" not in show(p.tree)], "C02.extent",
              "every line of the range is marked", expected="Line::mark guarded only by the iterator (and the optional already-marked test)",
              found=str([guard_strs(ml, c.bb) for c in mk])[:200], where=where(ml), key="C02.extent|line-mark")
    # callers: every Immix path that keeps an object alive marks its lines (unless block-only)
    mlc = {cs.fn.q for cs in callers(F, ml.q)}
    for need in ("policy::immix::immixspace::ImmixSpace::mark_lines",):
        ctx.judge(need in mlc, "C02.extent", "%s calls Line::mark_lines_for_object" % short(need), expected="present", found=str(sorted(mlc)), key="C02.extent|line-caller|" + need)

    # ---- C02.reuse-reset: the reusable-block list is rebuilt by every sweep, so every release must empty it first
    rel = F.fn("policy::immix::immixspace::ImmixSpace::release")
    rs = [c for c in live_calls(rel, name="reset") if c.q and "ReusableBlockPool" in c.q]
    sweep = live_calls(rel, name="generate_sweep_tasks")
    okr = bool(rs) and bool(sweep) and all(any(rel.cfg.dominates(r.bb, s.bb) for r in rs) for s in sweep)
    ctx.judge(okr, "C02.reuse-reset", "ImmixSpace::release empties the reusable-block list before every sweep that refills it",
              expected="ReusableBlockPool::reset dominates generate_sweep_tasks (nursery and full GCs alike)",
              found="reset guards=%s" % [guard_strs(rel, c.bb) for c in rs], where=where(rel), key="C02.reuse-reset|release")
    push_callers = {cs.fn.q for cs in callers(F, "policy::immix::block::ReusableBlockPool::push")}
    ctx.judge(push_callers == {"policy::immix::block::Block::sweep"}, "C02.reuse-reset", "reusable blocks are pushed only by Block::sweep", expected="Block::sweep only",
              found=str(sorted(push_callers)), key="C02.reuse-reset|push")

    # ---- C02.reset-clears-all-buffers: retiring an allocator drops EVERY thread-local buffer it owns (a buffer that survives a GC
    # keeps allocating into memory the collector may have reclaimed and handed to somebody else)
    ir = F.fn("util::alloc::immix_allocator::ImmixAllocator::reset")
    rsts = {show(strip(ir.flow.arg_tree(c, 0))): c for c in live_calls(ir) if c.q == "util::alloc::bumpallocator::BumpPointer::reset"}
    okb = set(rsts) == {"arg1.bump_pointer", "arg1.large_bump_pointer"} and all(ir.cfg.must_pass([c.bb]) and not guard_strs(ir, c.bb) and
                                                                                 [const_arg(ir.flow.arg_tree(c, i)) for i in (1, 2)] == [0, 0] for c in rsts.values())
    ctx.judge(okb, "C02.reset-clears-all-buffers", "ImmixAllocator::reset drops both bump buffers unconditionally", expected="bump_pointer.reset(ZERO, ZERO) and large_bump_pointer.reset(ZERO, ZERO) on every path",
              found=str({k: guard_strs(ir, c.bb) for k, c in rsts.items()}), where=where(ir), key="C02.reset-clears-all-buffers|immix")
    ln = [(show(strip(t)), guard_strs(ir, bb)) for (bb, j, pl, t) in stores(ir) if place_str(ir, pl).endswith(".line")]
    ctx.judge(ln == [("option::Option::None{}", [])], "C02.reset-clears-all-buffers", "ImmixAllocator::reset forgets the hole-search cursor", expected="self.line = None unconditionally", found=str(ln), where=where(ir),
              key="C02.reset-clears-all-buffers|immix-line")
    bp = F.fn("util::alloc::bumpallocator::BumpPointer::reset")
    bst = sorted((place_str(bp, pl).split(".")[-1], show(strip(t)), tuple(guard_strs(bp, bb))) for (bb, j, pl, t) in stores(bp))
    ctx.judge(bst == [("cursor", "arg2", ()), ("limit", "arg3", ())], "C02.reset-clears-all-buffers", "BumpPointer::reset installs exactly (start, end)", expected="cursor = start; limit = end", found=str(bst), where=where(bp),
              key="C02.reset-clears-all-buffers|bump-pointer")
    for q in ("util::alloc::bumpallocator::BumpAllocator::reset", "util::alloc::markcompact_allocator::MarkCompactAllocator::reset"):
        g = F.fns.get(q)
        if g is None:
            continue
        ok1 = any(c.name == "reset" and not guard_strs(g, c.bb) for c in live_calls(g)) or \
            len([1 for (bb, j, pl, t) in stores(g) if re.search(r"\.(cursor|limit)$", place_str(g, pl)) and not guard_strs(g, bb)]) >= 2
        ctx.judge(ok1, "C02.reset-clears-all-buffers", "%s drops its buffer unconditionally" % short(q), expected="cursor/limit reset on every path", found="conditional or missing", where=where(g),
                  key="C02.reset-clears-all-buffers|" + q)
    lf = F.fns.get("<policy::lockfreeimmortalspace::LockFreeImmortalSpace as policy::space::Space>::acquire")
    if lf is not None and not lf.cfg.noreturn:
        cur = [c for c in live_calls(lf) if c.args and show(strip(lf.flow.arg_tree(c, 0))) == "arg1.cursor" and c.q and "Atomic" in c.q]
        names = sorted(c.name for c in cur)
        okl = bool(names) and all(n in ("fetch_update", "fetch_add", "compare_exchange", "compare_exchange_weak", "load") for n in names) and \
            any(n in ("fetch_update", "fetch_add") for n in names) and "store" not in names
        ctx.judge(okl, "C02.take-before-return", "LockFreeImmortalSpace::acquire claims its range with one atomic read-modify-write of the cursor", expected="cursor.fetch_update / fetch_add (no load-then-store)", found=str(names),
                  where=where(lf), key="C02.take-before-return|lockfree")
        rts = [show(strip(t)) for _, t in lf.flow.return_trees()]
        ctx.judge(bool(rts) and all("fetch_update" in r or "fetch_add" in r for r in rts), "C02.take-before-return", "the range handed out starts at the value the atomic operation returned", expected="start = previous cursor from the RMW",
                  found=str(rts)[:160], where=where(lf), key="C02.take-before-return|lockfree-start")

    # ---- C02.free-only-from-sweep
    census = {
        "util::heap::blockpageresource::BlockPageResource::release_block": {
            "policy::immix::immixspace::ImmixSpace::release_block": "Immix block sweep",
            "policy::marksweepspace::native_ms::global::MarkSweepSpace::release_block": "native MS block release"},
        "util::heap::freelistpageresource::FreeListPageResource::release_pages": {
            "<policy::largeobjectspace::LargeObjectSpace as policy::space::Space>::release_multiple_pages": "Space API used by LOS sweep",
            "policy::largeobjectspace::LargeObjectSpace::sweep_large_pages::{closure#0}": "LOS sweep of unmarked objects"},
        "util::heap::monotonepageresource::MonotonePageResource::reset": {"policy::copyspace::CopySpace::release": "from-space release"},
        "util::heap::monotonepageresource::MonotonePageResource::reset_cursor": {"policy::markcompactspace::MarkCompactSpace::compact": "after compaction"},
        "util::heap::regionpageresource::RegionPageResource::reset_cursor": {"policy::compressor::compressorspace::CompressorSpace::compact_region::{closure#0}": "after region compaction"},
        "policy::immix::immixspace::ImmixSpace::release_block": {"policy::immix::block::Block::sweep": "Immix block sweep"},
        "policy::marksweepspace::native_ms::global::MarkSweepSpace::release_block": {"policy::marksweepspace::native_ms::block::Block::attempt_release": "MS release of an unmarked block"},
        "policy::immix::block::ReusableBlockPool::push": {"policy::immix::block::Block::sweep": "partially free block after sweep"},
    }
    for callee, allowed in census.items():
        if callee not in F.fns:
            raise AnalysisError("C02.free-only-from-sweep: anchor %s missing" % callee)
        check_callers(ctx, F, "C02.free-only-from-sweep", callee, allowed, min_sites=1)
    # the sweep entry points themselves are called from release-time packets / lazy sweeping only
    sw = {"policy::immix::block::Block::sweep": {"<policy::immix::immixspace::SweepChunk as scheduler::work::GCWork>::do_work": "Release-stage packet"},
          "policy::copyspace::CopySpace::release": None}
    for cs in callers(F, "policy::immix::block::Block::sweep"):
        ctx.judge("SweepChunk" in cs.fn.q, "C02.free-only-from-sweep", "Immix Block::sweep <- %s" % short(cs.fn.q),
                  expected="called only from the SweepChunk packet", found=cs.fn.q, where=where(cs.fn, cs.line),
                  key="C02.free-only-from-sweep|Block::sweep|" + cs.fn.q)
    for cs in callers(F, "policy::copyspace::CopySpace::release"):
        ctx.judge(re.search(r"as plan::global::Plan>::release$|::release$", cs.fn.q) is not None, "C02.free-only-from-sweep",
                  "CopySpace::release <- %s" % short(cs.fn.q), expected="called only from a plan's release", found=cs.fn.q,
                  where=where(cs.fn, cs.line), key="C02.free-only-from-sweep|CopySpace::release|" + cs.fn.q)
