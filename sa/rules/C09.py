"""C09 Garbage is fully reclaimable: structural necessary clauses (DESIGN.md 4/C09)."""
import re
from .common import *
from .plans import *
from . import C02 as _c02
from ..engine import AnalysisError, show, strip, short, walk, last_seg

PROP = "C09"
LEVEL = "other"
QUICK = ["K0", "K1", "K3", "K4", "K6"]
THOROUGH = ALL_CONFIGS
ASSUMPTIONS = ["the numeric floor of used bytes and fragmentation are not decided",
               "a space that is prepared but never released (or released with the wrong method) keeps all garbage of that space"]
EXPLANATION = (
    "Necessary structural conditions for 'garbage is reclaimable in every cycle': (plan-pairing) for every impl of Plan the set "
    "of Space-typed fields (by type, through the parent plan structs) is computed and every one of them must receive a "
    "prepare-role call reachable from Plan::prepare and a release-role call reachable from Plan::release through the plan's own "
    "helpers; inside a release-role function no prepare* method is called on a space (and vice versa); (release-reaches-pages) "
    "from each collecting policy's release entry a page/block-returning page-resource call is reachable in the call graph "
    "(including work packets constructed there) and those calls reach PageAccounting::release/reset; (release-counting) the "
    "native mark-sweep space arms number_of_mutators()+1 release packets and each mutator/space packet counts down exactly once "
    "per path; (mutator-release) = C02.tlab-reset for FreeList allocators. Per feature configuration, all non-panicking paths."
)

PAGE_RETURN = [
    "util::heap::blockpageresource::BlockPageResource::release_block",
    "util::heap::freelistpageresource::FreeListPageResource::release_pages",
    "util::heap::monotonepageresource::MonotonePageResource::reset",
    "util::heap::monotonepageresource::MonotonePageResource::reset_cursor",
    "util::heap::regionpageresource::RegionPageResource::reset_cursor",
]


def run(ctx, F):
    spaces = space_types(F)
    plans = [im["self"] for im in F.impls_of("plan::global::Plan")]
    ctx.floor("C09.plan-pairing", len(plans), 11, "impl Plan")
    for p in plans:
        pname = last_seg(p)
        roots = {r: F.fns.get("<%s as plan::global::Plan>::%s" % (p, r)) for r in ("prepare", "release", "end_of_gc")}
        ctx.require(all(roots.values()), "C09.plan-pairing: %s lacks prepare/release/end_of_gc bodies" % p)
        if diverges(roots["prepare"]) and diverges(roots["release"]):
            ctx.ok("C09.plan-pairing", "%s: prepare/release diverge (plan never collects)" % pname, "exempt", where(roots["prepare"]))
            continue
        cov = {}
        for role in ("prepare", "release"):
            covered, wrong, sp, root = role_calls(F, p, role, spaces)
            cov[role] = covered
            for path, ty in sorted(sp.items()):
                hit = covered.get(path)
                ctx.judge(bool(hit), "C09.plan-pairing", "%s.%s (%s) gets a %s-role call from Plan::%s" % (pname, ".".join(path), last_seg(ty), role, role),
                          expected="a call to %s::%s* on this field reachable from <%s as Plan>::%s" % (last_seg(ty), role, pname, role),
                          found="no such call (fields covered: %s)" % sorted(".".join(x) for x in covered),
                          detail=("at %s" % where(hit[0][0], hit[0][1].line)) if hit else "", where=where(root),
                          key="C09.plan-pairing|cover|%s|%s|%s" % (p, ".".join(path), role))
            for path, fn, cs in wrong:
                ctx.bad("C09.plan-pairing", "%s: %s called on %s inside the %s role (%s)" % (pname, cs.name, ".".join(path), role, short(fn.q)),
                        "only %s-role methods on space fields inside %s-role functions" % (role, role),
                        "%s at %s" % (short(cs.target_q), where(fn, cs.line)), where(fn, cs.line),
                        key="C09.plan-pairing|role|%s" % fn.q)
        # end_of_gc reaching the parent's end_of_gc: informational only (not a necessary condition)
        covered, wrong, sp, root = role_calls(F, p, "end_of_gc", spaces)
        eo = [c for c in live_calls(roots["end_of_gc"]) if c.name == "end_of_gc" and c.q and "Plan" in c.q and "Space" not in c.q]
        if not eo:
            ctx.note("%s [%s]: Plan::end_of_gc does not call its parent plan's end_of_gc (informational; not a necessary condition of C09)" % (pname, F.config))

    # ---- C09.release-reaches-pages
    entries = {
        "policy::copyspace::CopySpace::release": "CopySpace",
        "policy::immix::immixspace::ImmixSpace::release": "ImmixSpace",
        "policy::largeobjectspace::LargeObjectSpace::release": "LargeObjectSpace",
        "policy::markcompactspace::MarkCompactSpace::compact": "MarkCompactSpace",
        "policy::compressor::compressorspace::CompressorSpace::release": "CompressorSpace (after_compact is scheduled by the plan)",
    }
    if "policy::marksweepspace::native_ms::global::MarkSweepSpace::release" in F.fns:
        entries["policy::marksweepspace::native_ms::global::MarkSweepSpace::release"] = "MarkSweepSpace"
    targets = [t for t in PAGE_RETURN if t in F.fns]
    ctx.floor("C09.release-reaches-pages", len(targets), 4, "page-returning page-resource functions")
    for e, what in entries.items():
        if e not in F.fns:
            raise AnalysisError("C09.release-reaches-pages: anchor %s missing" % e)
        if "CompressorSpace" in e:
            # pages are returned by compact_region, called from the plan's packets
            e2 = "policy::compressor::compressorspace::CompressorSpace::compact_region"
            par = F.cg.reach([e2] if e2 in F.fns else [e])
        else:
            par = F.cg.reach([e])
        hit = [t for t in targets if t in par]
        ctx.judge(bool(hit), "C09.release-reaches-pages", "%s reaches a page-returning call" % what,
                  expected="one of %s reachable from %s (call graph incl. constructed work packets)" % ([short(t) for t in targets], short(e)),
                  found="none reachable", detail=" -> ".join(short(x) for x in F.cg.path_to(par, hit[0])) if hit else "", where=where(F.fns[e]),
                  key="C09.release-reaches-pages|" + e)
    for t in targets:
        f = F.fns[t]
        par = F.cg.reach([t], stop=lambda q: not q.startswith("util::heap"))
        acc = [q for q in par if re.search(r"PageAccounting::(release|reset)$", q)]
        ctx.judge(bool(acc), "C09.release-reaches-pages", "%s updates the page accounting" % short(t),
                  expected="reaches PageAccounting::release or ::reset", found="not reached", detail=str([short(a) for a in acc]), where=where(f),
                  key="C09.release-reaches-pages|acct|" + t)

    # ---- C09.reservation-resolved: a failed acquisition gives its page reservation back on every path (otherwise the pages stay
    # "reserved" forever and no GC can return them)
    na = F.fn("policy::space::Space::not_acquiring")
    cr = [c for c in live_calls(na, name="clear_request")]
    okc = len(cr) == 1 and na.cfg.must_pass([cr[0].bb]) and strip(na.flow.arg_tree(cr[0], 1)) == ("arg", 5)
    ctx.judge(okc, "C09.reservation-resolved", "Space::not_acquiring always returns the reservation", expected="pr.clear_request(pages_reserved) on every path (also when not at a safepoint)",
              found="sites=%d guards=%s" % (len(cr), [guard_strs(na, c.bb) for c in cr]), where=where(na), key="C09.reservation-resolved|clear")
    acq = F.fn("policy::space::Space::acquire")
    rs = live_calls(acq, name="reserve_pages")
    gn = live_calls(acq, name="get_new_pages_and_initialize")
    nq = live_calls(acq, name="not_acquiring")
    okr = len(rs) == 1 and bool(gn) and bool(nq) and acq.cfg.must_pass([c.bb for c in gn + nq], start=rs[0].bb, avoid_start=True)
    for c in nq:
        okr = okr and "reserve_pages" in show(strip(acq.flow.arg_tree(c, 4)))
    # on the None arm of get_new_pages_and_initialize the reservation is handed to not_acquiring
    edges = branch_edges(acq, r"get_new_pages_and_initialize", "None")
    okr = okr and bool(edges) and all(acq.cfg.must_pass([c.bb for c in nq], start=s) for a, s in edges)
    ctx.judge(okr, "C09.reservation-resolved", "Space::acquire resolves every reservation", expected="after reserve_pages every path reaches get_new_pages_and_initialize (commit) or not_acquiring(.., pages_reserved, ..)",
              found="reserve=%d get=%d not_acquiring=%d" % (len(rs), len(gn), len(nq)), where=where(acq), key="C09.reservation-resolved|acquire")

    # ---- C09.all-bins: loops over the size-class bins of the native mark-sweep block lists cover the whole array
    nb = 0
    for q, f in F.fns.items():
        if not (("free_list_allocator" in q or "native_ms" in q) and f.kind != "closure"):
            continue
        for i, b in enumerate(f.blocks):
            if i not in f.cfg.live:
                continue
            for j, st in enumerate(b["s"]):
                if st[0] == "=" and st[2][0] == "agg" and st[2][1].get("adt", "").endswith("ops::Range"):
                    t = strip(f.flow.rvalue_tree(st[2], i, j))
                    ends = show(t)
                    if "MI_BIN" in ends or "MAX_BIN" in ends or "BIN" in ends.upper():
                        nb += 1
                        lo, hi = strip(t[2][0]), strip(t[2][1])
                        okb = const_arg(lo) == 0 and hi and hi[0] == "const" and (hi[3] or "").endswith("MI_BIN_FULL")
                        ctx.judge(okb, "C09.all-bins", "%s visits every bin" % short(q), expected="for bin in 0..MI_BIN_FULL (the length of the block-list arrays)", found=ends[:80], where=where(f, st[-1]),
                                  key="C09.all-bins|%s" % q)
    if "policy::marksweepspace::native_ms::global::MarkSweepSpace::release" in F.fns:
        ctx.judge(nb >= 3, "C09.all-bins", "bin loops found in the native mark-sweep release path", expected=">= 3", found=str(nb), key="C09.all-bins|count")
    # ---- C09.abandoned-lists: at every GC all three global abandoned block lists are offered for release (a block whose objects
    # all died while it sat on the `unswept` list is otherwise never given back unless its size class is allocated from again)
    sl = F.fns.get("policy::marksweepspace::native_ms::global::AbandonedBlockLists::sweep_later")
    if sl is not None:
        rb = {}
        for c in live_calls(sl, name="release_blocks"):
            m = re.match(r"^arg1\.(available|consumed|unswept)\.", show(strip(sl.flow.arg_tree(c, 0))))
            if m:
                rb[m.group(1)] = [g for g in guard_strs(sl, c.bb) if "Iterator>::next" not in g]
        # with eager sweeping nothing is ever moved to `unswept` (no append in the compiled body): then two lists suffice
        lazy = any(c.name == "append" and ".unswept." in show(strip(sl.flow.arg_tree(c, 0))) for c in live_calls(sl))
        need = {"available", "consumed", "unswept"} if lazy else {"available", "consumed"}
        ctx.judge(need <= set(rb) and all(not v for v in rb.values()), "C09.abandoned-lists", "sweep_later releases the empty blocks of all three abandoned lists, for every bin",
                  expected="release_blocks on available[i], consumed[i] and unswept[i] inside the bin loop, unconditionally", found=str(rb), where=where(sl), key="C09.abandoned-lists|sweep_later")
    # ---- C09.chunk-return: a freed page run that completes a free chunk gives the chunk back; the test uses the COALESCED size
    rp = F.fn("util::heap::freelistpageresource::FreeListPageResource::release_pages")
    fr = [c for c in live_calls(rp) if c.name == "free" and c.q and c.q.endswith("FreeList::free")]
    rc = live_calls(rp, name="release_free_chunks")
    okc = len(fr) == 1 and const_arg(rp.flow.arg_tree(fr[0], 2)) is True and len(rc) == 1 and "FreeList::free(" in show(strip(rp.flow.arg_tree(rc[0], 2))) and \
        [(show(p.tree), p.val) for p in guards(rp, rc[0].bb)] == [("arg1.common.contiguous", False)]
    ctx.judge(okc, "C09.chunk-return", "release_pages hands the coalesced free run to release_free_chunks (discontiguous spaces)", expected="let freed = free_list.free(page, true); if !contiguous { release_free_chunks(first, freed) }",
              found="free(.., %s); release_free_chunks sites=%d" % ([const_arg(rp.flow.arg_tree(c, 2)) for c in fr], len(rc)), where=where(rp), key="C09.chunk-return|release_pages")

    # ---- C09.release-counting (native mark-sweep)
    msr = F.fns.get("policy::marksweepspace::native_ms::global::MarkSweepSpace::release")
    if msr is not None:
        st = [c for c in live_calls(msr, name="store") if "pending_release_packets" in show(strip(msr.flow.arg_tree(c, 0)))]
        ctx.judge(len(st) == 1, "C09.release-counting", "MarkSweepSpace::release arms the release-packet counter once",
                  expected="one store to pending_release_packets", found=str(len(st)), where=where(msr), key="C09.release-counting|arm")
        for c in st:
            v = show(strip(msr.flow.arg_tree(c, 1)))
            okv = "number_of_mutators" in v and re.search(r"Add", v) and re.search(r"\b1\b", v)
            ctx.judge(bool(okv), "C09.release-counting", "counter = number_of_mutators() + 1", expected="number_of_mutators() + 1 (all ReleaseMutator packets plus the space packet)",
                      found=v, where=where(msr, c.line), key="C09.release-counting|value")
        for q in ("util::alloc::free_list_allocator::FreeListAllocator::release",
                  "<policy::marksweepspace::native_ms::global::ReleaseMarkSweepSpace as scheduler::work::GCWork>::do_work"):
            f = F.fn(q)
            dn = live_calls(f, name="release_packet_done")
            mn, mx = f.cfg.path_counts([c.bb for c in dn])
            ctx.judge((mn, mx) == (1, 1), "C09.release-counting", "%s counts down exactly once" % short(q),
                      expected="exactly one release_packet_done per path", found="min=%s max=%s" % (mn, mx), where=where(f),
                      key="C09.release-counting|done|" + q)
        check_callers(ctx, F, "C09.release-counting", "policy::marksweepspace::native_ms::global::MarkSweepSpace::release_packet_done",
                      {"util::alloc::free_list_allocator::FreeListAllocator::release": "one per mutator allocator",
                       "<policy::marksweepspace::native_ms::global::ReleaseMarkSweepSpace as scheduler::work::GCWork>::do_work": "the space's own packet"}, min_sites=2)
        # every plan's mutator release reaches FreeListAllocator::release exactly once per MarkSweepSpace-backed semantics
        for m in mutator_configs(F):
            rel = F.fns.get(m.release)
            if rel is None or diverges(rel):
                continue
            table, init, inc = plan_mapping(F, m)
            for sem in ("Default", "NonMoving"):
                if _c02.kind_of(table.get(sem)) == "FreeList":
                    mn, mx = _c02.reset_summary2(F, rel, sem)
                    ctx.judge((mn, mx) == (1, 1), "C09.release-counting", "%s: one FreeListAllocator::release for %s" % (short(m.creator.q), sem),
                              expected="exactly one per path", found="min=%s max=%s" % (mn, mx), where=where(rel),
                              key="C09.release-counting|mutator|%s|%s" % (m.creator.q, sem))
