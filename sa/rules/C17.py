"""C17 Concurrent forwarding copies an object once and all tracers agree (DESIGN.md 4/C17)."""
import re
from .common import *
from ..engine import AnalysisError, show, strip, short, walk, last_seg, tree_calls

PROP = "C17"
LEVEL = "other"
QUICK = ["K0", "K1"]
THOROUGH = ALL_CONFIGS
ASSUMPTIONS = ["the binding's ObjectModel::copy and the metadata compare-exchange are atomic as documented",
               "interleavings are not explored: the rules decide the protocol shape every tracer executes"]
EXPLANATION = (
    "Structural necessary conditions of the forwarding protocol: attempt_to_forward claims an object only by a compare-exchange from "
    "the freshly loaded NOT_TRIGGERED value to BEING_FORWARDED, returns the *loaded* value, and on CAS failure always re-reads the "
    "state before returning (a failed CAS is never trusted); no plain store to the forwarding bits in it; forward_object copies, runs "
    "the post-forwarding hook, then publishes (forwarding pointer before FORWARDED bits on the two-step path, SeqCst) and returns the "
    "copy; spin_and_get_forwarded_object reads the forwarding pointer only when the value *its spin loop observed* is FORWARDED, else "
    "returns the original object; in the two copying policies forward_object / clear_forwarding_bits / enqueue happen only on the "
    "winner branch (state of attempt_to_forward not forwarded-or-being-forwarded) and the loser branch returns "
    "spin_and_get_forwarded_object(object, that same status); census of all callers of the forwarding primitives; every "
    "read_forwarding_pointer is dominated by a FORWARDED test."
)
OF = "util::object_forwarding::"


def run(ctx, F):
    # ---- C17.cas
    f = F.fn(OF + "attempt_to_forward")
    cas = live_calls(f, name="compare_exchange_metadata")
    loads = live_calls(f, q=OF + "get_forwarding_status")
    ctx.judge(len(cas) == 1 and len(loads) == 1, "C17.cas", "attempt_to_forward: one load and one compare-exchange", expected="1/1", found="%d/%d" % (len(loads), len(cas)),
              where=where(f), key="C17.cas|sites")
    if len(cas) == 1 and len(loads) == 1:
        c, l = cas[0], loads[0]
        old = strip(f.flow.arg_tree(c, 2))
        new = strip(f.flow.arg_tree(c, 3))
        ctx.judge(bool(tree_calls(old, q=OF + "get_forwarding_status")) and old[0] == "call", "C17.cas", "CAS expects the freshly loaded value",
                  expected="old = get_forwarding_status(object)", found=show(old), where=where(f, c.line), key="C17.cas|old")
        ctx.judge("BEING_FORWARDED" in show(new), "C17.cas", "CAS installs BEING_FORWARDED", expected="new = BEING_FORWARDED", found=show(new), where=where(f, c.line), key="C17.cas|new")
        g = guard_find(f, c.bb, r"get_forwarding_status.* Ne .*FORWARDING_NOT_TRIGGERED_YET|Ne ", False) or guard_find(f, c.bb, r" Eq .*FORWARDING_NOT_TRIGGERED_YET", True)
        ctx.judge(bool(g), "C17.cas", "CAS attempted only from NOT_TRIGGERED", expected="CAS guarded by old_value == FORWARDING_NOT_TRIGGERED_YET", found=str(guard_strs(f, c.bb)),
                  where=where(f, c.line), key="C17.cas|from")
        rets = f.flow.return_trees()
        okr = all(strip(t) and strip(t)[0] == "call" and (strip(t)[2] or strip(t)[1]) == OF + "get_forwarding_status" for r, t in rets) and bool(rets)
        ctx.judge(okr, "C17.cas", "the caller learns the state that was loaded, never the CAS result", expected="returns old_value = get_forwarding_status(object)",
                  found=str([show(strip(t)) for r, t in rets]), where=where(f), key="C17.cas|ret")
        # failed CAS -> re-read before any return
        fails = branch_edges(f, r"is_ok\(", False)
        okf = bool(fails)
        for a, s in fails:
            reach = f.cfg.reachable_from(s, avoid={l.bb}) | {s}
            if any(r in reach for r in f.cfg.live_rets):
                okf = False
        ctx.judge(okf, "C17.cas", "a failed CAS is never trusted: the state is re-read before returning", expected="from the is_ok()==false edge every path to a return passes get_forwarding_status again",
                  found="failure edges=%s" % fails, where=where(f, c.line), key="C17.cas|retry")
        st = [x for x in live_calls(f) if x.name in ("store_atomic", "store", "fetch_or_atomic", "fetch_and_atomic")]
        ctx.judge(not st, "C17.cas", "no plain store to the forwarding bits while claiming", expected="only load + CAS", found=str([x.name for x in st]), where=where(f), key="C17.cas|nostore")

    # ---- C17.publish-order
    fo = F.fn(OF + "forward_object")
    cp = live_calls(fo, q="vm::object_model::ObjectModel::copy")
    hook = [c for c in live_calls(fo) if c.name == "call_once"]
    wfp = live_calls(fo, q=OF + "write_forwarding_pointer")
    sts = [c for c in live_calls(fo) if c.name == "store_atomic"]
    okc = len(cp) == 1 and len(hook) == 1 and fo.cfg.dominates(cp[0].bb, hook[0].bb)
    ctx.judge(okc, "C17.publish-order", "copy, then the post-forwarding hook", expected="ObjectModel::copy dominates on_after_forwarding(new)", found="copy=%d hook=%d" % (len(cp), len(hook)),
              where=where(fo), key="C17.publish-order|copy-hook")
    pubs = sts + wfp
    okp = bool(hook) and bool(pubs) and all(fo.cfg.dominates(hook[0].bb, c.bb) for c in pubs) and fo.cfg.must_pass([c.bb for c in sts], start=hook[0].bb, avoid_start=True)
    ctx.judge(okp, "C17.publish-order", "publication only after copy and hook, on every path", expected="every forwarding store is dominated by the hook and some FORWARDED store is on every path",
              found="stores=%s" % [c.line for c in pubs], where=where(fo), key="C17.publish-order|after")
    for c in sts:
        spec = show(strip(fo.flow.arg_tree(c, 0)))
        val = show(strip(fo.flow.arg_tree(c, 2)))
        order = show(strip(fo.flow.arg_tree(c, 4)))
        ctx.judge("SeqCst" in order, "C17.publish-order", "publishing store at line %s is SeqCst" % c.line, expected="Ordering::SeqCst", found=order, where=where(fo, c.line),
                  key="C17.publish-order|order|" + ("bits" if "BITS" in spec else "ptr"))
        if "LOCAL_FORWARDING_BITS_SPEC" in spec:
            ctx.judge(bool(wfp) and all(fo.cfg.dominates(w.bb, c.bb) for w in wfp) and "FORWARDED" in val, "C17.publish-order", "pointer is written before the FORWARDED bits",
                      expected="write_forwarding_pointer dominates store(FORWARDED)", found="val=%s wfp=%s" % (val, [w.line for w in wfp]), where=where(fo, c.line), key="C17.publish-order|ptr-before-bits")
        else:
            ctx.judge("FORWARDED" in val and "ObjectModel::copy" in val, "C17.publish-order", "single-word publication carries the copy's address and FORWARDED",
                      expected="new_object | (FORWARDED << shift)", found=val[:160], where=where(fo, c.line), key="C17.publish-order|oneword")
    for w in wfp:
        a = show(strip(fo.flow.arg_tree(w, 1)))
        ctx.judge("ObjectModel::copy" in a, "C17.publish-order", "the forwarding pointer is the copy", expected="write_forwarding_pointer(object, new_object)", found=a[:120], where=where(fo, w.line),
                  key="C17.publish-order|ptr-val")
    rets = [show(strip(t)) for r, t in fo.flow.return_trees()]
    ctx.judge(all(r.startswith("ObjectModel::copy") for r in rets) and bool(rets), "C17.publish-order", "forward_object returns the copy", expected="returns new_object", found=str(rets)[:160],
              where=where(fo), key="C17.publish-order|ret")

    # ---- C17.read-after-forwarded
    sp = F.fn(OF + "spin_and_get_forwarded_object")
    rd = live_calls(sp, q=OF + "read_forwarding_pointer")
    ctx.judge(len(rd) == 1, "C17.read-after-forwarded", "one read of the forwarding pointer in the spin function", expected="1", found=str(len(rd)), where=where(sp), key="C17.read-after-forwarded|site")
    for c in rd:
        gs = guards(sp, c.bb)
        fw = [p for p in gs if ((p.val is True and re.search(r" Eq .*FORWARDED=", show(p.tree))) or (p.val is False and re.search(r" Ne .*FORWARDED=", show(p.tree)))) and "BEING" not in show(p.tree)]
        okg = bool(fw)
        loopvar_ok = False
        for p in fw:
            t = p.tree
            lhs = strip(t[2]) if t and t[0] == "bin" else None
            if lhs and lhs[0] == "phi":
                alts = [strip(a) for a in lhs[1]]
                loopvar_ok = any(a == ("arg", 2) for a in alts) and any(a and a[0] == "call" and (a[2] or a[1]) == OF + "get_forwarding_status" for a in alts)
        ctx.judge(okg and loopvar_ok, "C17.read-after-forwarded", "pointer read only if the state observed by the spin loop is FORWARDED",
                  expected="guard (loop variable {argument | last get_forwarding_status of the loop}) == FORWARDED; not a fresh re-read",
                  found=str(guard_strs(sp, c.bb)), where=where(sp, c.line), key="C17.read-after-forwarded|guard")
        ex = [p for p in gs if p.val is False and "BEING_FORWARDED" in show(p.tree)]
        ctx.judge(bool(ex), "C17.read-after-forwarded", "the spin loop is left only when the state is not BEING_FORWARDED", expected="read dominated by (bits == BEING_FORWARDED) == false",
                  found=str(guard_strs(sp, c.bb)), where=where(sp, c.line), key="C17.read-after-forwarded|exit")
    rows = ret_table(sp)
    other = [(b, t, g) for b, t, g in rows if not tree_calls(t, q=OF + "read_forwarding_pointer")]
    ctx.judge(len(other) == 1 and other[0][1] == ("arg", 1), "C17.read-after-forwarded", "otherwise the original object is returned", expected="returns `object` when not FORWARDED",
              found=str([show(t) for b, t, g in other]), where=where(sp), key="C17.read-after-forwarded|else")

    # every reader of the forwarding pointer is dominated by a FORWARDED test
    allowed_dbg = {OF + "debug_print_object_forwarding_info": "debug printing only"}
    for c in callers(F, OF + "read_forwarding_pointer"):
        g = c.fn
        if g.q in allowed_dbg or g.q == sp.q:
            continue
        okr = bool(guard_find(g, c.bb, r"object_forwarding::is_forwarded\(", True))
        ctx.judge(okr, "C17.read-after-forwarded", "%s reads the forwarding pointer only for FORWARDED objects" % short(g.q),
                  expected="dominated by is_forwarded(object) == true (a BEING_FORWARDED object has no pointer yet)", found=str(guard_strs(g, c.bb)), where=where(g, c.line),
                  key="C17.read-after-forwarded|reader|" + g.q)

    # ---- C17.winner-only
    pol = ["policy::copyspace::CopySpace::trace_object", "policy::immix::immixspace::ImmixSpace::trace_object_with_opportunistic_copy"]
    for q in pol:
        g = F.fn(q)
        att = live_calls(g, q=OF + "attempt_to_forward")
        ctx.judge(len(att) == 1, "C17.winner-only", "%s claims the object once" % short(q), expected="one attempt_to_forward", found=str(len(att)), where=where(g), key="C17.winner-only|att|" + q)
        WIN = r"state_is_forwarded_or_being_forwarded\(object_forwarding::attempt_to_forward"
        for c in live_calls(g, q=OF + "forward_object") + live_calls(g, q=OF + "clear_forwarding_bits"):
            okw = bool(guard_find(g, c.bb, WIN, False))
            ctx.judge(okw, "C17.winner-only", "%s: %s only by the winner" % (short(q), c.name), expected="guarded by !state_is_forwarded_or_being_forwarded(attempt_to_forward(object))",
                      found=str(guard_strs(g, c.bb)), where=where(g, c.line), key="C17.winner-only|%s|%s" % (c.name, q))
        for fn2 in fn_and_closures(F, g):
            for c in live_calls(fn2, name="enqueue"):
                host_bb = c.bb
                if fn2 is not g:
                    # closure passed to forward_object: inherits the guards of the forward_object call
                    fos = live_calls(g, q=OF + "forward_object")
                    okw = bool(fos) and all(guard_find(g, x.bb, WIN, False) for x in fos)
                else:
                    okw = bool(guard_find(g, c.bb, WIN, False))
                ctx.judge(okw, "C17.winner-only", "%s: the object is enqueued only by the winner" % short(q), expected="enqueue on the winner branch", found=str(guard_strs(fn2, c.bb))[:200],
                          where=where(fn2, c.line), key="C17.winner-only|enqueue|" + q)
        spins = live_calls(g, q=OF + "spin_and_get_forwarded_object")
        ctx.judge(len(spins) == 1 and bool(guard_find(g, spins[0].bb, WIN, True)), "C17.winner-only", "%s: losers wait for the winner" % short(q),
                  expected="spin_and_get_forwarded_object on the loser branch", found=str([guard_strs(g, c.bb) for c in spins])[:200], where=where(g), key="C17.winner-only|spin|" + q)
        ledges = branch_edges(g, WIN, True)
        okl = bool(ledges) and bool(spins) and all(g.cfg.must_pass([c.bb for c in spins], start=s) for a, s in ledges)
        ctx.judge(okl, "C17.winner-only", "%s: every loser path waits for the winner's result" % short(q),
                  expected="on the branch where the object is forwarded or being forwarded every path passes spin_and_get_forwarded_object", found="loser edges=%s" % ledges,
                  where=where(g), key="C17.winner-only|spin-all|" + q)
        for c in spins:
            st = strip(g.flow.arg_tree(c, 1))
            okst = st and st[0] == "call" and (st[2] or st[1]) == OF + "attempt_to_forward"
            ctx.judge(okst, "C17.winner-only", "%s: the loser passes the status it observed" % short(q), expected="spin_and_get_forwarded_object(object, forwarding_status)", found=show(st),
                      where=where(g, c.line), key="C17.winner-only|status|" + q)
            # the loser's result is what the function returns on that branch
            rows = ret_table(g)
            okret = any(tree_calls(t, q=OF + "spin_and_get_forwarded_object") for b, t, gg in rows)
            ctx.judge(okret, "C17.winner-only", "%s: losers return the winner's result" % short(q), expected="a return value derived from spin_and_get_forwarded_object", found=str([show(t)[:60] for b, t, gg in rows]),
                      where=where(g), key="C17.winner-only|ret|" + q)

    # ---- C17.writers (census)
    check_callers(ctx, F, "C17.writers", OF + "forward_object", {pol[0]: "CopySpace winner", pol[1]: "Immix winner"}, min_sites=2)
    check_callers(ctx, F, "C17.writers", OF + "write_forwarding_pointer", {OF + "forward_object": "two-step publication"})
    check_callers(ctx, F, "C17.writers", OF + "clear_forwarding_bits", {pol[1]: "Immix winner that declines to move", "util::copy::GCWorkerCopyContext::post_copy": "clears the bits copied into the new object's header"}, min_sites=2)
    check_callers(ctx, F, "C17.writers", OF + "attempt_to_forward", {pol[0]: "", pol[1]: ""}, min_sites=2)
    # direct writers of the forwarding specs outside object_forwarding
    for g in F.fns.values():
        if g.q.startswith(OF) or "object_model" in g.q:
            continue
        for c in live_calls(g):
            if c.name in ("store_atomic", "store", "compare_exchange_metadata", "fetch_or_atomic", "fetch_and_atomic") and c.args:
                r = show(strip(g.flow.arg_tree(c, 0)))
                if "LOCAL_FORWARDING_BITS_SPEC" in r or "LOCAL_FORWARDING_POINTER_SPEC" in r:
                    ctx.bad("C17.writers", "direct write to a forwarding spec in %s" % short(g.q), "forwarding metadata is written only inside util::object_forwarding", r[:80], where(g, c.line),
                            key="C17.writers|direct|" + g.q)
    ctx.ok("C17.writers", "no direct writes to LOCAL_FORWARDING_{BITS,POINTER}_SPEC outside util::object_forwarding", "scanned %d functions" % len(F.fns))
