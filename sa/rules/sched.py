"""Shared scheduler tables (SF-STAGE of DESIGN.md): every site that makes a work packet runnable."""
import re
from .common import *
from .plans import consts_of_type
from ..engine import AnalysisError, show, strip, short, walk, last_seg

BUCKET = "scheduler::work_bucket::WorkBucket::"
ADDERS = ("add", "add_boxed", "add_prioritized", "bulk_add", "bulk_add_prioritized", "add_no_notify", "add_boxed_no_notify", "set_sentinel")
STAGE_TY = "scheduler::work_bucket::WorkBucketStage"


class StageSite:
    __slots__ = ("fn", "cs", "method", "stage", "packets", "recv")

    def __repr__(self):
        return "%s(%s <- %s in %s:%s)" % (self.method, self.stage, self.packets, short(self.fn.q), self.cs.line)


def packet_types(F, fn, tree, ga):
    """Names of GCWork types that may flow into a packet argument."""
    out = set()
    for g in ga[1:]:
        m = re.match(r"^([\w:]+)", g)
        if m and not g.startswith("<") and "::" in g:
            out.add(last_seg(m.group(1)))
    for s in walk(tree):
        if s and s[0] == "agg" and s[1][0] == "adt" and s[1][1] and s[1][1] in F.cg._packet_do_work():
            out.add(last_seg(s[1][1]))
        if s and s[0] == "call" and isinstance(s[1], str):
            # T::new(...) constructors of packet types
            m = re.match(r"^(.*)::(new|new_no_scan_roots|new_boxed)$", s[2] or s[1])
            if m and m.group(1) in F.cg._packet_do_work():
                out.add(last_seg(m.group(1)))
    return out


def stage_sites(F):
    sites = []
    for f in F.fns.values():
        for cs in f.calls:
            if cs.bb not in f.cfg.live or not cs.q or not cs.q.startswith(BUCKET):
                continue
            m = cs.q[len(BUCKET):]
            if m not in ADDERS:
                continue
            s = StageSite()
            s.fn, s.cs, s.method = f, cs, m
            s.recv = strip(f.flow.arg_tree(cs, 0))
            st = consts_of_type(s.recv, "WorkBucketStage")
            if not st:
                # FIRST_STW_STAGE style associated constant
                for x in walk(s.recv):
                    if x and x[0] == "const" and x[1] and x[1].endswith("WorkBucketStage") and x[3]:
                        st = [last_seg(x[3])]
            s.stage = st[0] if st else "dynamic:" + show(s.recv)[:80]
            s.packets = packet_types(F, f, f.flow.arg_tree(cs, 1), cs.ga) if len(cs.args) > 1 else set()
            sites.append(s)
    return sites


def check_has_designated_work(ctx, F, rule):
    """has_designated_work() must be true when ANY worker still holds a designated packet; the last parked worker relies on
    it before opening further buckets or declaring the GC finished (and resuming mutators)."""
    hd = F.fn("scheduler::worker::WorkerGroup::has_designated_work")
    anyc = [c for c in live_calls(hd) if c.name == "any"]
    allc = [c for c in live_calls(hd) if c.name == "all"]
    clo_ok = False
    for cl in closures_of(F, hd):
        rt = [strip(t) for r, t in cl.flow.return_trees()]
        clo_ok = bool(rt) and all(t and t[0] == "un" and t[1] == "Not" and "is_empty" in show(t) and "designated_work" in show(t) for t in rt)
    ctx.judge(len(anyc) == 1 and not allc and clo_ok, rule, "has_designated_work is true when ANY worker still holds a designated packet",
              expected="workers_shared.iter().any(|w| !w.designated_work.is_empty())", found="any=%d all=%d closure-ok=%s" % (len(anyc), len(allc), clo_ok), where=where(hd), key=rule + "|any")
    fm = F.fn("scheduler::scheduler::GCWorkScheduler::find_more_work_for_workers")
    falses = [(b, t, g) for b, t, g in ret_table(fm) if const_arg(t) is False]
    okf = bool(falses) and all(any("has_designated_work" in show(p.tree) and p.val is False for p in g) for b, t, g in falses)
    ctx.judge(okf, rule, "'no more work' (GC finished) is only reported when no worker holds designated packets", expected="return false dominated by has_designated_work()==false",
              found=str(len(falses)), where=where(fm), key=rule + "|finished")


def stage_order(F):
    a = F.adts.get(STAGE_TY)
    if not a:
        raise AnalysisError("WorkBucketStage enum not found")
    return {v["name"]: v["discr"] for v in a["variants"]}


def check_trace_kinds(ctx, F, rule, sites, fwd_stages, clo_stages, floor):
    """Two-pass plans (MarkCompact, Compressor) must parameterise the packets of the liveness rounds with their marking trace and the
    packets of the forwarding rounds with their forwarding trace; read from the generic arguments rustc resolved at each add site."""
    # two-pass plans hand the *marking* trace to the liveness rounds and the *forwarding* trace to the
    # forwarding rounds ("objects it traced survive with updated addresses": a forwarding round that marks returns old addresses)
    two_pass = {"markcompact": ("policy::markcompactspace::TRACE_KIND_MARK", "policy::markcompactspace::TRACE_KIND_FORWARD"),
                "compressor": ("policy::compressor::compressorspace::TRACE_KIND_MARK", "policy::compressor::compressorspace::TRACE_KIND_FORWARD_ROOT")}
    nk = 0
    for plan, (mk, fk) in two_pass.items():
        if mk not in F.consts or fk not in F.consts:
            raise AnalysisError(rule + ": trace-kind constants of %s not found" % plan)
        kinds = {"mark": F.consts[mk]["v"], "forward": F.consts[fk]["v"]}
        ctx.judge(kinds["mark"] != kinds["forward"], rule, "%s: marking and forwarding traces are different kinds" % plan, expected="distinct constants", found=str(kinds), key=rule + "|distinct|" + plan)
        for st in sites:
            f = st.fn
            if ("plan::%s::global::" % plan) not in f.q or not f.q.endswith("schedule_collection"):
                continue
            if st.stage not in tuple(fwd_stages) + tuple(clo_stages):
                continue
            texts = list(st.cs.ga[1:])
            if st.method == "set_sentinel":
                texts += [g for c in live_calls(f, name="new") if any(pk in (c.q or "") for pk in st.packets) for g in c.ga]
            ks = set()
            for tx in texts:
                for m in re.finditer(r"PlanTrace<plan::%s::global::\w+<VM>, (\d+)>" % plan, tx):
                    ks.add(int(m.group(1)))
            if not ks:
                continue   # packet without a trace parameter (WeakRefProcessing, PhantomRefProcessing)
            nk += 1
            want = kinds["forward"] if st.stage in tuple(fwd_stages) else kinds["mark"]
            ctx.judge(ks == {want}, rule, "%s: %s on %s uses the %s trace" % (plan, "/".join(sorted(st.packets)), st.stage, "forwarding" if st.stage in tuple(fwd_stages) else "marking"),
                      expected="PlanTrace<_, %s>" % want, found=str(sorted(ks)), where=where(f, st.cs.line), key=rule + "|%s|%s|%s" % (plan, st.stage, "/".join(sorted(st.packets))))
    ctx.floor(rule, nk, floor, "trace-parameterised weak-reference packets of the two-pass plans")



def check_poll_clears_one(ctx, F, rule):
    """WorkerGoals::poll_next_goal takes exactly one pending request: the only write to the request table is one store of `false`
    into the entry it returns (a poll that wiped the table would drop a pending fork / shutdown / GC request). Shared by C14, C16."""
    png = F.fn("scheduler::worker_goals::WorkerGoals::poll_next_goal")
    # poll_next_goal clears exactly the request it returns: the store of `false` is under *requested == true
    clr = [(bb, pl, t) for (bb, j, pl, t) in stores(png) if const_arg(t) is False]
    def found_by_find(fn, tree):
        """The entry comes out of `iter_mut().find(|(_, r)| **r)`: the first entry whose flag is set (idiom equivalent to the loop)."""
        for s in walk(strip(tree)):
            if s and s[0] == "call" and last_seg(s[2] or s[1]) == "find" and len(s[3]) == 2 and "requests" in show(s[3][0]):
                cl = [x for x in walk(s[3][1]) if x and x[0] == "agg" and x[1][0] == "closure" and x[1][1] in F.fns]
                if len(cl) == 1:
                    rts = [strip(t2) for _, t2 in F.fns[cl[0][1][1]].flow.return_trees()]
                    if rts and all(any(y == ("arg", 2) for y in walk(r)) and "Not(" not in show(r) for r in rts):
                        return True
        return False
    okp = len(clr) == 1 and (any(p.val is True for p in guards(png, clr[0][0])) or found_by_find(png, png.flow.place_tree(clr[0][1], clr[0][0], 0)) or
                             any(p.val in ("Continue", "Some") and found_by_find(png, p.tree) for p in guards(png, clr[0][0])))
    ctx.judge(okp, rule, "poll_next_goal clears only the request it takes", expected="one store of false, under *requested == true (or on the entry returned by find(|r| *r))",
              found=str([(bb, guard_strs(png, bb)) for bb, _, _ in clr])[:300], where=where(png), key=rule + "|poll-clears-one")
    bulk = [c for c in live_calls(png) if c.name in ("clear", "fill", "drain", "take", "replace", "swap") and "requests" in show(strip(png.flow.arg_tree(c, 0)))]
    ctx.judge(not bulk, rule, "poll_next_goal never wipes the request table", expected="no clear/fill/drain/take/replace on self.requests", found=str([c.name for c in bulk]), where=where(png), key=rule + "|poll-no-bulk")
