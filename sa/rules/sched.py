"""Shared scheduler tables (SF-STAGE of DESIGN.md): every site that makes a work packet runnable."""
import re
from .common import *
from .plans import consts_of_type
from ..engine import AnalysisError, show, strip, short, walk, last_seg

BUCKET = "scheduler::work_bucket::WorkBucket::"
ADDERS = ("add", "add_boxed", "add_prioritized", "bulk_add", "bulk_add_prioritized", "add_no_notify", "add_boxed_no_notify", "set_sentinel")
STAGE_TY = "scheduler::work_bucket::WorkBucketStage"


class StageSite:
    __slots__ = ("fn", "cs", "method", "stage", "packets", "recv")

    def __repr__(self):
        return "%s(%s <- %s in %s:%s)" % (self.method, self.stage, self.packets, short(self.fn.q), self.cs.line)


def packet_types(F, fn, tree, ga):
    """Names of GCWork types that may flow into a packet argument."""
    out = set()
    for g in ga[1:]:
        m = re.match(r"^([\w:]+)", g)
        if m and not g.startswith("<") and "::" in g:
            out.add(last_seg(m.group(1)))
    for s in walk(tree):
        if s and s[0] == "agg" and s[1][0] == "adt" and s[1][1] and s[1][1] in F.cg._packet_do_work():
            out.add(last_seg(s[1][1]))
        if s and s[0] == "call" and isinstance(s[1], str):
            # T::new(...) constructors of packet types
            m = re.match(r"^(.*)::(new|new_no_scan_roots|new_boxed)$", s[2] or s[1])
            if m and m.group(1) in F.cg._packet_do_work():
                out.add(last_seg(m.group(1)))
    return out


def stage_sites(F):
    sites = []
    for f in F.fns.values():
        for cs in f.calls:
            if cs.bb not in f.cfg.live or not cs.q or not cs.q.startswith(BUCKET):
                continue
            m = cs.q[len(BUCKET):]
            if m not in ADDERS:
                continue
            s = StageSite()
            s.fn, s.cs, s.method = f, cs, m
            s.recv = strip(f.flow.arg_tree(cs, 0))
            st = consts_of_type(s.recv, "WorkBucketStage")
            if not st:
                # FIRST_STW_STAGE style associated constant
                for x in walk(s.recv):
                    if x and x[0] == "const" and x[1] and x[1].endswith("WorkBucketStage") and x[3]:
                        st = [last_seg(x[3])]
            s.stage = st[0] if st else "dynamic:" + show(s.recv)[:80]
            s.packets = packet_types(F, f, f.flow.arg_tree(cs, 1), cs.ga) if len(cs.args) > 1 else set()
            sites.append(s)
    return sites


def check_has_designated_work(ctx, F, rule):
    """has_designated_work() must be true when ANY worker still holds a designated packet; the last parked worker relies on
    it before opening further buckets or declaring the GC finished (and resuming mutators)."""
    hd = F.fn("scheduler::worker::WorkerGroup::has_designated_work")
    anyc = [c for c in live_calls(hd) if c.name == "any"]
    allc = [c for c in live_calls(hd) if c.name == "all"]
    clo_ok = False
    for cl in closures_of(F, hd):
        rt = [strip(t) for r, t in cl.flow.return_trees()]
        clo_ok = bool(rt) and all(t and t[0] == "un" and t[1] == "Not" and "is_empty" in show(t) and "designated_work" in show(t) for t in rt)
    ctx.judge(len(anyc) == 1 and not allc and clo_ok, rule, "has_designated_work is true when ANY worker still holds a designated packet",
              expected="workers_shared.iter().any(|w| !w.designated_work.is_empty())", found="any=%d all=%d closure-ok=%s" % (len(anyc), len(allc), clo_ok), where=where(hd), key=rule + "|any")
    fm = F.fn("scheduler::scheduler::GCWorkScheduler::find_more_work_for_workers")
    falses = [(b, t, g) for b, t, g in ret_table(fm) if const_arg(t) is False]
    okf = bool(falses) and all(any("has_designated_work" in show(p.tree) and p.val is False for p in g) for b, t, g in falses)
    ctx.judge(okf, rule, "'no more work' (GC finished) is only reported when no worker holds designated packets", expected="return false dominated by has_designated_work()==false",
              found=str(len(falses)), where=where(fm), key=rule + "|finished")


def stage_order(F):
    a = F.adts.get(STAGE_TY)
    if not a:
        raise AnalysisError("WorkBucketStage enum not found")
    return {v["name"]: v["discr"] for v in a["variants"]}
