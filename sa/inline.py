"""Make unknown private helpers transparent.

A behaviour-preserving clean-up often moves part of a function into a new private helper. The rules are written against named
functions; a helper whose name no rule knows would hide the code it took with it. Before the facts are analysed, every function
that (a) is not public, (b) is called from at most eight places in the whole crate (a helper that defines closures: exactly one), (c) is not
recursive and (d) whose name does not occur anywhere in the rule sources (sa/rules/*.py) is spliced into each caller at
the MIR level (locals and blocks renumbered, arguments assigned, returns turned into an assignment of the call's destination
followed by a jump to the call's target). Closures defined in the helper are re-parented to the caller. The helper itself is
removed from the function table. Helpers that a rule names, and every function that existed when the rules were written
(sa/known_fns.txt), stay what they are: on the tree the rules were confirmed on nothing is inlined.

This is a source-independent MIR transformation: nothing is executed."""
import glob
import json
import os
import re

_PROTECTED = None


def protected_names():
    global _PROTECTED
    if _PROTECTED is None:
        s = set()
        here = os.path.dirname(os.path.abspath(__file__))
        for p in glob.glob(os.path.join(here, "rules", "*.py")):
            with open(p) as f:
                s |= set(re.findall(r"[A-Za-z_][A-Za-z0-9_]{2,}", f.read()))
        _PROTECTED = s
    return _PROTECTED


_KNOWN = None


def known_functions():
    """Functions that existed when the rules were written (sa/known_fns.txt, all configurations): they are never inlined, so the
    analysis of the tree the rules were confirmed on is exactly what it was."""
    global _KNOWN
    if _KNOWN is None:
        here = os.path.dirname(os.path.abspath(__file__))
        try:
            with open(os.path.join(here, "known_fns.txt")) as f:
                _KNOWN = set(x.strip() for x in f if x.strip())
        except FileNotFoundError:
            _KNOWN = set()
    return _KNOWN


def _place(pl, off):
    return [pl[0] + off] + [(x + off if isinstance(x, int) and not isinstance(x, bool) else x) for x in pl[1:]]


def _operand(op, off, poff):
    if isinstance(op, list) and op and op[0] in ("c", "m"):
        return [op[0], _place(op[1], off)]
    if isinstance(op, list) and op and op[0] == "k" and isinstance(op[1], dict) and "promoted" in op[1] and "fn" not in op[1]:
        d = dict(op[1])
        d["promoted"] = d["promoted"] + poff
        return ["k", d]
    return op


def _rvalue(rv, off, poff):
    k = rv[0]
    if k == "use":
        return ["use", _operand(rv[1], off, poff)]
    if k in ("ref", "rawptr"):
        return [k, rv[1], _place(rv[2], off)]
    if k == "agg":
        return ["agg", rv[1], [_operand(o, off, poff) for o in rv[2]]]
    if k == "bin":
        return ["bin", rv[1], _operand(rv[2], off, poff), _operand(rv[3], off, poff)]
    if k == "un":
        return ["un", rv[1], _operand(rv[2], off, poff)]
    if k == "cast":
        return ["cast", rv[1], _operand(rv[2], off, poff)] + list(rv[3:])
    if k == "discr":
        return ["discr", _place(rv[1], off)]
    if k == "repeat":
        return ["repeat", _operand(rv[1], off, poff)] + list(rv[2:])
    if k in ("tls",):
        return rv
    raise ValueError("unknown rvalue " + k)


def _stmt(st, off, poff):
    if st[0] == "=":
        return ["=", _place(st[1], off), _rvalue(st[2], off, poff)] + list(st[3:])
    raise ValueError("unknown statement " + str(st[0]))


def _bb(x, boff):
    return None if x is None else x + boff


def _term(t, off, boff, poff):
    k = t.get("k")
    t = dict(t)
    if k == "call":
        f = t["f"]
        if isinstance(f, list) and f and f[0] in ("c", "m"):
            t["f"] = _operand(f, off, poff)
        t["a"] = [_operand(o, off, poff) for o in t["a"]]
        if t.get("d") is not None:
            t["d"] = _place(t["d"], off)
        t["t"] = _bb(t.get("t"), boff)
        t["u"] = _bb(t.get("u"), boff)
    elif k == "goto":
        t["t"] = _bb(t["t"], boff)
    elif k == "switch":
        t["d"] = _operand(t["d"], off, poff)
        t["arms"] = [[v, b + boff] for v, b in t["arms"]]
        t["else"] = _bb(t.get("else"), boff)
    elif k == "drop":
        t["p"] = _place(t["p"], off)
        t["t"] = _bb(t.get("t"), boff)
        t["u"] = _bb(t.get("u"), boff)
    elif k == "assert":
        t["c"] = _operand(t["c"], off, poff)
        t["t"] = _bb(t.get("t"), boff)
        t["u"] = _bb(t.get("u"), boff)
    elif k == "asm":
        t["ts"] = [b + boff for b in t.get("ts", [])]
    elif k in ("ret", "resume", "unreachable", None):
        pass
    else:
        raise ValueError("unknown terminator " + str(k))
    return t


def inline_unknown_helpers(fns, log=None):
    """fns: dict qname -> meta (with "body"). Mutates in place. Returns the list of (helper, caller) pairs inlined."""
    prot = protected_names()
    text = {q: json.dumps(m.get("body")) for q, m in fns.items() if m.get("body")}
    alltext = "\n".join(text.values())
    done = []
    for _round in range(3):
        cands = {}
        refs = {}
        spliced = {}
        for q, m in fns.items():
            body = m.get("body")
            if not body or m.get("kind") not in ("fn", "assoc_fn") or not str(m.get("vis", "")).startswith("Restricted"):
                continue
            nm = m.get("name") or q.split("::")[-1]
            if nm in prot or q in known_functions() or "__" in nm or "{" in q.split("::")[-1]:
                continue
            jq = json.dumps(q)
            # one reference in the whole crate (a call may name its callee twice: as written and as resolved)
            nq, nr = alltext.count('"q": %s' % jq), alltext.count('"res": %s' % jq)
            both = alltext.count('"q": %s, "res": %s' % (jq, jq)) + alltext.count('"res": %s, "q": %s' % (jq, jq))
            n = nq + nr - both
            if n < 1 or n > 8 or ('"q": %s' % jq) in text.get(q, "") or ('"res": %s' % jq) in text.get(q, ""):
                continue  # unreferenced, too widely used to be a clean-up helper, or recursive
            if len(body["blocks"]) > 150:
                continue
            if n > 1 and any(m2.get("parent") == q for m2 in fns.values()):
                continue  # a helper with closures can be re-parented to one caller only
            cands[q] = m
            refs[q] = n
        if not cands:
            break
        progressed = False
        for cq, cm in list(fns.items()):
            body = cm.get("body")
            if not body or cq in cands:
                continue  # inline into non-candidate callers first (next round handles chains)
            i = 0
            while i < len(body["blocks"]):
                b = body["blocks"][i]
                t = b.get("t") or {}
                f = t.get("f")
                hq = None
                if t.get("k") == "call" and isinstance(f, list) and f and f[0] == "k" and isinstance(f[1], dict) and "fn" in f[1]:
                    c = f[1]["fn"]
                    hq = c.get("res") if c.get("res") in cands else (c.get("q") if c.get("q") in cands else None)
                if hq is None or hq == cq or hq not in fns:
                    i += 1
                    continue
                hm = fns[hq]
                hb = hm["body"]
                if len(t["a"]) != hb["argc"]:
                    i += 1
                    continue
                off = len(body["locals"])
                boff = len(body["blocks"])
                pm = dict(cm.get("promoted") or {})
                poff = (max([int(k) for k in pm] + [-1]) + 1)
                try:
                    newblocks = []
                    for hb_i, hblk in enumerate(hb["blocks"]):
                        nb = {"s": [_stmt(s, off, poff) for s in hblk["s"]], "cleanup": hblk.get("cleanup", False)}
                        ht = hblk.get("t") or {}
                        if ht.get("k") == "ret":
                            if t.get("d") is not None:
                                nb["s"].append(["=", t["d"], ["use", ["m", [off]]], t.get("line")])
                            nb["t"] = {"k": "goto", "t": t["t"]} if t.get("t") is not None else {"k": "unreachable"}
                        else:
                            nb["t"] = _term(ht, off, boff, poff)
                        newblocks.append(nb)
                except ValueError as e:
                    if log is not None:
                        log.append("skip %s: %s" % (hq, e))
                    i += 1
                    continue
                body["locals"] += [dict(x) for x in hb["locals"]]
                for k2, v2 in (hm.get("promoted") or {}).items():
                    pm[str(int(k2) + poff)] = v2
                if pm:
                    cm["promoted"] = pm
                for j, a in enumerate(t["a"]):
                    b["s"].append(["=", [off + 1 + j], ["use", a], t.get("line")])
                b["t"] = {"k": "goto", "t": boff}
                body["blocks"] += newblocks
                # closures of the helper now belong to the caller
                for q2, m2 in fns.items():
                    if m2.get("parent") == hq:
                        m2["parent"] = cq
                spliced[hq] = spliced.get(hq, 0) + 1
                done.append((hq, cq))
                progressed = True
                i += 1
        for hq, k in spliced.items():
            if k == refs.get(hq) and hq in fns:
                del fns[hq]   # every reference was a call and has been replaced by the body
        if not progressed:
            break
        text = {q: json.dumps(m.get("body")) for q, m in fns.items() if m.get("body")}
        alltext = "\n".join(text.values())
    return done
