"""Rule-run context: collects judged instances, violations, notes; handles known findings,
replay files and the evidence file."""
import json, os, time, hashlib, re
from .engine import Facts, AnalysisError, show
from . import extract

VERIF = extract.VERIF
EVID = os.path.join(VERIF, "evidence")
REPLAY = os.path.join(EVID, "replay")
KNOWN = os.path.join(VERIF, "known_findings.json")

_FACTS_CACHE = {}


def load_facts(config, repo=None):
    p = extract.extract(config, repo)
    if p not in _FACTS_CACHE:
        _FACTS_CACHE[p] = Facts(p, config)
    return _FACTS_CACHE[p]


class Instance:
    __slots__ = ("rule", "config", "subject", "ok", "detail", "key", "where", "expected", "found")

    def __init__(self, rule, config, subject, ok, detail="", key=None, where="", expected="", found=""):
        self.rule, self.config, self.subject, self.ok = rule, config, subject, ok
        self.detail, self.where, self.expected, self.found = detail, where, expected, found
        self.key = key or "%s|%s" % (rule, subject)

    def to_json(self):
        d = {"rule": self.rule, "config": self.config, "subject": self.subject, "ok": self.ok}
        if self.detail:
            d["detail"] = self.detail
        if self.where:
            d["where"] = self.where
        if not self.ok:
            d["expected"] = self.expected
            d["found"] = self.found
            d["key"] = self.key
        return d


class Ctx:
    def __init__(self, prop, tier="quick", seed=0, repo=None, only_rule=None):
        self.prop = prop
        self.tier = tier
        self.seed = seed
        self.repo = repo
        self.only_rule = only_rule
        self.instances = []
        self.notes = []
        self.configs_used = {}
        self.floors = []
        self.shortfalls = []
        self.t0 = time.time()
        self.cur_config = None
        self.extra = {}

    # ---- facts
    def facts(self, config):
        F = load_facts(config, self.repo)
        if config not in self.configs_used:
            self.configs_used[config] = {
                "features": extract.CONFIGS[config],
                "functions": len(F.fns),
                "call_sites": sum(len(f.calls) for f in F.fns.values()),
                "consts": len(F.consts),
                "impls": len(F.impls),
            }
        self.cur_config = config
        return F

    # ---- recording
    def ok(self, rule, subject, detail="", where="", config=None):
        self.instances.append(Instance(rule, config or self.cur_config, subject, True, detail, where=where))

    def bad(self, rule, subject, expected, found, where="", key=None, config=None):
        self.instances.append(Instance(rule, config or self.cur_config, subject, False, "", key=key or "%s|%s" % (rule, subject),
                                       where=where, expected=expected, found=found))

    def judge(self, cond, rule, subject, expected="", found="", detail="", where="", key=None):
        if cond:
            self.ok(rule, subject, detail or expected, where)
        else:
            self.bad(rule, subject, expected, found, where, key)
        return cond

    def note(self, text):
        if text not in self.notes:
            self.notes.append(text)

    def require(self, cond, msg):
        if not cond:
            raise AnalysisError(msg)

    def floor(self, rule, n, floor, what):
        self.floors.append({"rule": rule, "config": self.cur_config, "what": what, "counted": n, "floor": floor})
        if n < floor and n > 0 and 2 * n >= floor:
            # a moderate drop (at least half of the sites confirmed by hand are still matched) is what a clean-up that merges
            # duplicated code produces (e.g. hoisting a repeated conversion into one helper): every remaining site was judged,
            # so this is reported as a note, not as an inability to analyse
            self.note("%s [%s]: %d instances where %d were confirmed by hand (%s)" % (rule, self.cur_config, n, floor, what))
        elif n < floor:
            # deferred: the remaining rules still run, so that a violation which explains the shortfall is reported as such;
            # a shortfall with no violation ends the run as ANALYSIS-ERROR (exit 2, never a pass) -- see check_shortfalls()
            self.shortfalls.append("%s [%s]: instance count %d below floor %d (%s)" % (rule, self.cur_config, n, floor, what))

    def check_shortfalls(self):
        if self.shortfalls and not any(not i.ok for i in self.instances):
            raise AnalysisError("; ".join(self.shortfalls))
        for s in self.shortfalls:
            self.note("floor shortfall (reported together with the violations above): " + s)

    def wants(self, rule):
        return self.only_rule is None or rule == self.only_rule or rule.startswith(self.only_rule)


def load_known():
    try:
        with open(KNOWN) as f:
            return json.load(f)
    except FileNotFoundError:
        return {"known": [], "fixed": []}


def finish(ctx, level, explanation, assumptions, trusted_base, checker_cmd):
    """Print the report, write replay + evidence; return exit code."""
    known = load_known()
    known_keys = {}
    for k in known.get("known", []):
        if k["property"] == ctx.prop:
            known_keys[k["key"]] = k
    viol = []
    matched = []
    seen_keys = set()
    for inst in ctx.instances:
        if inst.ok:
            continue
        if inst.key in known_keys:
            if inst.key not in [m.key for m in matched]:
                matched.append(inst)
            continue
        if (inst.key, inst.config) in seen_keys:
            continue
        seen_keys.add((inst.key, inst.config))
        viol.append(inst)
    os.makedirs(REPLAY, exist_ok=True)
    printed_keys = set()
    for inst in matched:
        k = known_keys[inst.key]
        print("KNOWN-FINDING: property=%s %s" % (ctx.prop, k["what"]))
    for inst in viol:
        rid = hashlib.sha1(inst.key.encode()).hexdigest()[:10]
        rp = os.path.join(REPLAY, "%s-%s.json" % (ctx.prop, rid))
        if inst.key not in printed_keys:
            with open(rp, "w") as f:
                json.dump({"property": ctx.prop, "rule": inst.rule, "config": inst.config, "key": inst.key,
                           "subject": inst.subject, "where": inst.where, "expected": inst.expected, "found": inst.found}, f, indent=1)
            print("VIOLATION property=%s replay=%s" % (ctx.prop, rp))
            printed_keys.add(inst.key)
        print("  rule=%s config=%s" % (inst.rule, inst.config))
        print("  site=%s  subject=%s" % (inst.where, inst.subject))
        print("  expected: %s" % inst.expected)
        print("  found   : %s" % inst.found)
    for n in ctx.notes:
        print("NOTE: " + n)
    total = len(ctx.instances)
    good = sum(1 for i in ctx.instances if i.ok)
    rules = sorted(set(i.rule for i in ctx.instances))
    distinct = len(set((i.rule, i.subject) for i in ctx.instances))
    samples = []
    per_rule_seen = {}
    for i in ctx.instances:
        c = per_rule_seen.get(i.rule, 0)
        if c < 2:
            samples.append(i.to_json())
            per_rule_seen[i.rule] = c + 1
    per_rule = {}
    for i in ctx.instances:
        d = per_rule.setdefault(i.rule, {"judged": 0, "holding": 0})
        d["judged"] += 1
        d["holding"] += 1 if i.ok else 0
    coverage = {
        "explanation": explanation,
        "obligations": total,
        "discharged": good + len([i for i in ctx.instances if not i.ok and i.key in known_keys]) if False else good,
        "checker_cmd": checker_cmd,
        "trusted_base": trusted_base,
        "evaluations": total,
        "distinct_nontrivial": distinct,
        "rule": "one evaluation = one rule instance (rule id, subject function/call site/table row) judged on the MIR facts of one "
                "feature configuration; distinct_nontrivial counts distinct (rule, subject) pairs, each of which has at least one "
                "concrete site/row that the rule inspected",
        "samples": samples[:40],
        "rules": rules,
        "per_rule": per_rule,
        "configurations": ctx.configs_used,
        "floors": ctx.floors,
        "known_findings_matched": [known_keys[i.key]["what"] for i in matched],
        "notes": ctx.notes,
        "violations_detail": [i.to_json() for i in viol][:50],
        "tree_hash": extract.tree_hash(ctx.repo),
    }
    coverage.update(ctx.extra)
    ev = {
        "property_id": ctx.prop,
        "tier": ctx.tier,
        "seed": ctx.seed,
        "level": level,
        "coverage": coverage,
        "assumptions": assumptions,
        "wall_s": round(time.time() - ctx.t0, 2),
        "violations": len(viol),
    }
    os.makedirs(EVID, exist_ok=True)
    if ctx.repo is None and ctx.only_rule is None:
        tmp = os.path.join(EVID, ".%s.json.%d" % (ctx.prop, os.getpid()))
        with open(tmp, "w") as f:
            json.dump(ev, f, indent=1, default=str)
        os.replace(tmp, os.path.join(EVID, "%s.json" % ctx.prop))
    print("%s: %d rule instances judged (%d rules, %d configurations), %d holding, %d known findings, %d violations [%.1fs]" % (
        ctx.prop, total, len(rules), len(ctx.configs_used), good, len(matched), len(viol), time.time() - ctx.t0))
    return 1 if viol else 0
