"""Both-ways self-test: apply seeded breaks (mutants/*.json, seeded/*/patch.diff) to a scratch copy
of the repository, re-extract the facts, re-run the rule module and require a violation of the
named rule. Evidence about the checker only: never changes a property verdict."""
import json, os, shutil, subprocess, sys, importlib, hashlib, glob, io, contextlib
from . import extract, report
from .engine import AnalysisError

SCRATCH = os.environ.get("VERIF_SCRATCH", "/var/tmp/verif-scratch")
MUT_DIR = os.path.join(extract.VERIF, "mutants")
SEEDED_DIR = os.path.join(extract.VERIF, "seeded")


def make_scratch(slot=None):
    slot = slot or "p%d" % os.getpid()
    dst = os.path.join(SCRATCH, slot, "repo")
    if os.path.isdir(dst):
        shutil.rmtree(dst)
    os.makedirs(dst)
    for item in ("src", "macros", "Cargo.toml", "Cargo.lock", "build.rs", "benches"):
        s = os.path.join(extract.REPO, item)
        if os.path.isdir(s):
            shutil.copytree(s, os.path.join(dst, item), ignore=shutil.ignore_patterns("target"))
        elif os.path.exists(s):
            shutil.copy2(s, os.path.join(dst, item))
    return dst


def drop_scratch(slot=None):
    slot = slot or "p%d" % os.getpid()
    shutil.rmtree(os.path.join(SCRATCH, slot), ignore_errors=True)


def apply_mutant(repo, m):
    """m: {file, find, replace[, count]}; returns False when the anchor is stale."""
    edits = m.get("edits") or [m]
    for e in edits:
        p = os.path.join(repo, e["file"])
        if not os.path.exists(p):
            return False
        src = open(p).read()
        if src.count(e["find"]) < 1:
            return False
        if e.get("unique", True) and src.count(e["find"]) != 1:
            return False
        src = src.replace(e["find"], e["replace"], 1)
        open(p, "w").write(src)
    return True


def apply_patch(repo, patch_file):
    r = subprocess.run(["patch", "-p1", "-s", "-i", patch_file], cwd=repo, stdout=subprocess.PIPE, stderr=subprocess.STDOUT, text=True)
    return r.returncode == 0


def run_rules_on(repo, prop, configs, rule=None):
    """Run a property's rule module on a scratch repo; returns (violations, error)."""
    mod = importlib.import_module("sa.rules." + prop)
    ctx = report.Ctx(prop, "quick", 0, repo=repo, only_rule=None)
    try:
        for K in configs:
            F = ctx.facts(K)
            mod.run(ctx, F)
        if hasattr(mod, "finish"):
            mod.finish(ctx)
        ctx.check_shortfalls()
    except extract.ExtractionError as e:
        return None, "does-not-compile: " + str(e)[-800:]
    except AnalysisError as e:
        return None, "analysis-error: " + str(e)
    known = {k["key"] for k in report.load_known().get("known", []) if k["property"] == prop}
    v = [i for i in ctx.instances if not i.ok and i.key not in known]
    return v, None


def cleanup_scratch_facts(repo):
    th = extract.tree_hash(repo)
    shutil.rmtree(os.path.join(extract.CACHE, "facts", th), ignore_errors=True)


def load_mutants(prop=None):
    out = []
    for p in sorted(glob.glob(os.path.join(MUT_DIR, "*.json"))):
        with open(p) as f:
            for m in json.load(f):
                if prop is None or m["property"] == prop:
                    out.append(m)
    return out


def test_mutant(m, slot=None, verbose=False):
    slot = slot or "p%d" % os.getpid()
    repo = make_scratch(slot)
    try:
        if not apply_mutant(repo, m):
            return {"id": m["id"], "status": "stale-mutant"}
        mod = importlib.import_module("sa.rules." + m["property"])
        configs = m.get("configs") or mod.QUICK
        v, err = run_rules_on(repo, m["property"], configs)
        cleanup_scratch_facts(repo)
        if err:
            return {"id": m["id"], "status": err}
        want = m.get("rule")
        hits = [i for i in v if (want is None or i.rule.startswith(want))]
        others = [i for i in v if i not in hits]
        res = {"id": m["id"], "status": "detected" if hits else "MISSED", "rule": want,
               "hits": ["%s: %s" % (i.rule, i.subject) for i in hits][:4],
               "other_violations": ["%s: %s" % (i.rule, i.subject) for i in others][:4]}
        return res
    finally:
        drop_scratch(slot)


def run_for(ctx, prop):
    """Thorough tier: run every mutant of the property, record in evidence."""
    res = []
    for m in load_mutants(prop):
        r = test_mutant(m, slot="st-%s-%d" % (prop, os.getpid()))
        res.append(r)
        print("SELFTEST %s %s -> %s" % (prop, r["id"], r["status"]))
    ctx.extra["mutants_applied"] = len([r for r in res if r["status"] in ("detected", "MISSED")])
    ctx.extra["mutants_detected"] = len([r for r in res if r["status"] == "detected"])
    ctx.extra["mutants"] = res


if __name__ == "__main__":
    # usage: python3 -m sa.selftest [Cxx|mutant-id ...]
    args = sys.argv[1:]
    ms = load_mutants()
    if args:
        ms = [m for m in ms if m["property"] in args or m["id"] in args]
    bad = 0
    for m in ms:
        r = test_mutant(m)
        print(json.dumps(r))
        if r["status"] != "detected":
            bad += 1
    print("%d mutants, %d not detected" % (len(ms), bad))
