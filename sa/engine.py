import os
"""Analysis engine over the extracted fact base: function/CFG model, abort-free CFG,
dominators / post-dominators / control dependence, reaching definitions and origin
trees (symbolic provenance), call graph with trait-impl expansion.

Nothing here executes mmtk-core; everything is computed from the MIR facts."""
import json, re, sys
from collections import defaultdict

sys.setrecursionlimit(10000)

TRANSPARENT_NAMES = {
    "deref", "deref_mut", "as_ref", "as_mut", "borrow", "borrow_mut", "as_mut_ptr", "as_ptr",
}
TRANSPARENT_Q = {
    "std::ops::Deref::deref", "std::ops::DerefMut::deref_mut", "std::convert::AsRef::as_ref",
    "std::convert::AsMut::as_mut", "std::borrow::Borrow::borrow", "std::borrow::BorrowMut::borrow_mut",
}


class AnalysisError(Exception):
    """The analysis could not be performed (anchor missing, floor not met): exit 2, never a VIOLATION."""


# --------------------------------------------------------------------------- facts
class CallSite:
    __slots__ = ("fn", "bb", "callee", "q", "res", "trait", "recv", "recv_head", "ga", "args", "dest", "target",
                 "line", "exp", "div", "ext", "indirect")

    def __init__(self, fn, bb, t):
        self.fn = fn
        self.bb = bb
        f = t["f"]
        self.indirect = None
        c = None
        if f[0] == "k" and "fn" in f[1]:
            c = f[1]["fn"]
        else:
            self.indirect = f
        self.callee = c
        self.q = c["q"] if c else None
        self.res = c.get("res") if c else None
        self.trait = c.get("trait") if c else None
        self.recv = c.get("recv") if c else None
        self.recv_head = c.get("recv_head") if c else None
        self.ga = c.get("ga", []) if c else []
        self.ext = bool(c.get("ext")) if c else False
        self.args = t["a"]
        self.dest = t.get("d")
        self.target = t.get("t")
        self.line = t.get("line")
        self.exp = t.get("exp", False)
        self.div = t.get("div", False)

    @property
    def name(self):
        if not self.q:
            return None
        return last_seg(self.q)

    @property
    def target_q(self):
        """Most specific known callee."""
        return self.res or self.q

    def where(self):
        return "%s:%s" % (self.fn.file, self.line)

    def __repr__(self):
        return "<call %s in %s bb%d line %s>" % (self.target_q or "indirect", self.fn.q, self.bb, self.line)


def last_seg(q):
    # last path segment, ignoring '#n' suffix
    q = re.sub(r"#\d+$", "", q)
    depth = 0
    i = len(q) - 1
    while i >= 0:
        ch = q[i]
        if ch in ">)}":
            depth += 1
        elif ch in "<({":
            depth -= 1
        elif ch == ":" and depth == 0 and i > 0 and q[i - 1] == ":":
            return q[i + 1:]
        i -= 1
    return q


class Fn:
    def __init__(self, facts, q, meta):
        self.facts = facts
        self.q = q
        self.meta = meta
        self.body = meta["body"]
        self.blocks = self.body["blocks"]
        self.locals = self.body["locals"]
        self.argc = self.body["argc"]
        self.kind = meta["kind"]
        self.file = meta["loc"][0]
        self.line = meta["loc"][1]
        self.name = meta.get("name") or last_seg(q)
        self._calls = None
        self._cfg = None
        self._flow = None

    def __repr__(self):
        return "<fn %s>" % self.q

    @property
    def calls(self):
        if self._calls is None:
            out = []
            for i, b in enumerate(self.blocks):
                t = b["t"]
                if t["k"] in ("call", "tailcall") and not b.get("cleanup"):
                    out.append(CallSite(self, i, t))
            self._calls = out
        return self._calls

    @property
    def cfg(self):
        if self._cfg is None:
            self._cfg = CFG(self)
        return self._cfg

    @property
    def flow(self):
        if self._flow is None:
            self._flow = Flow(self)
        return self._flow

    def local_ty(self, l):
        return self.locals[l]["ty"]

    def local_name(self, l):
        return self.locals[l].get("name")

    def closures_built(self):
        """(bb, stmt_idx, closure q, operands) for every closure aggregate constructed here."""
        out = []
        for i, b in enumerate(self.blocks):
            if b.get("cleanup"):
                continue
            for j, st in enumerate(b["s"]):
                if st[0] == "=" and st[2][0] == "agg" and st[2][1].get("k") == "closure":
                    out.append((i, j, st[2][1]["q"], st[2][2], st[1]))
        return out

    def adts_built(self):
        """ADT paths of every struct/enum aggregate constructed in this body (plus `T::new`-style
        constructor calls are not included: only literal aggregates)."""
        out = set()
        for i, b in enumerate(self.blocks):
            if b.get("cleanup"):
                continue
            for st in b["s"]:
                if st[0] == "=" and st[2][0] == "agg" and st[2][1].get("k") == "adt":
                    out.add(st[2][1]["adt"])
        return out

    def fn_refs(self):
        """fn items used as values (not as the callee of a call): (bb, q)."""
        out = []

        def scan_op(op, bb):
            if op and op[0] == "k" and isinstance(op[1], dict) and "fn" in op[1]:
                out.append((bb, op[1]["fn"].get("res") or op[1]["fn"]["q"], op[1]["fn"]))

        for i, b in enumerate(self.blocks):
            if b.get("cleanup"):
                continue
            for st in b["s"]:
                if st[0] != "=":
                    continue
                rv = st[2]
                k = rv[0]
                if k in ("use", "un"):
                    scan_op(rv[-1], i)
                elif k == "cast":
                    scan_op(rv[2], i)
                elif k == "bin":
                    scan_op(rv[2], i)
                    scan_op(rv[3], i)
                elif k == "agg":
                    for o in rv[2]:
                        scan_op(o, i)
                elif k == "repeat":
                    scan_op(rv[1], i)
            t = b["t"]
            if t["k"] in ("call", "tailcall"):
                for a in t["a"]:
                    scan_op(a, i)
        return out


class Facts:
    def __init__(self, path, config="?"):
        with open(path) as f:
            d = json.load(f)
        self.path = path
        self.config = config
        self.raw = d
        try:
            from .extract import CONFIGS as _C
            self.features = set(x for x in _C.get(config, "").split(",") if x)
        except Exception:
            self.features = set()
        self.inlined = []
        if os.environ.get("VERIF_NO_INLINE") != "1":
            from .inline import inline_unknown_helpers
            self.inlined = inline_unknown_helpers(d["fns"])
        self.fns = {q: Fn(self, q, m) for q, m in d["fns"].items()}
        self.consts = d["consts"]
        self.adts = d["adts"]
        self.impls = d["impls"]
        self.traits = d["traits"]
        self._cg = None
        self._impl_index = None
        self._by_name = None

    # -- lookup helpers
    def fn(self, q):
        f = self.fns.get(q)
        if f is None:
            raise AnalysisError("anchor function not found in %s: %s" % (self.config, q))
        return f

    def fns_named(self, name):
        if self._by_name is None:
            idx = defaultdict(list)
            for f in self.fns.values():
                idx[last_seg(f.q)].append(f)
            self._by_name = idx
        return self._by_name.get(name, [])

    def fns_matching(self, rx):
        r = re.compile(rx)
        return [f for q, f in self.fns.items() if r.search(q)]

    def const(self, q):
        c = self.consts.get(q)
        if c is None:
            raise AnalysisError("anchor constant not found in %s: %s" % (self.config, q))
        return c["v"]

    def impl_index(self):
        """(trait path, method name) -> [item q]"""
        if self._impl_index is None:
            idx = defaultdict(list)
            for im in self.impls:
                tr = im.get("trait")
                if not tr:
                    continue
                for it in im["items"]:
                    if it["kind"] == "fn":
                        idx[(tr, it["name"])].append(it["q"])
            self._impl_index = idx
        return self._impl_index

    def impls_of(self, trait):
        return [im for im in self.impls if im.get("trait") == trait]

    def enum_variants(self, adt):
        a = self.adts.get(adt)
        if not a:
            return None
        return {v["discr"]: v["name"] for v in a["variants"]}

    @property
    def cg(self):
        if self._cg is None:
            self._cg = CallGraph(self)
        return self._cg

    def all_calls(self):
        for f in self.fns.values():
            for c in f.calls:
                yield c


# --------------------------------------------------------------------------- CFG
class CFG:
    """Abort-free CFG: unwind edges dropped, constant branches folded, blocks that cannot reach
    a return pruned (assert!/unwrap/panic arms are not branches)."""

    def __init__(self, fn):
        self.fn = fn
        B = fn.blocks
        n = len(B)
        self.n = n
        self.defs = self._collect_defs()
        raw = [[] for _ in range(n)]      # list of (target, label)
        for i, b in enumerate(B):
            if b.get("cleanup"):
                continue
            t = b["t"]
            k = t["k"]
            if k == "goto":
                raw[i].append((t["t"], None))
            elif k == "switch":
                cv = self._const_of(t["d"])
                arms = t["arms"]
                if cv is not None:
                    tgt = t["else"]
                    for v, bb in arms:
                        if v == cv:
                            tgt = bb
                    raw[i].append((tgt, None))
                else:
                    vals = [v for v, _ in arms]
                    for v, bb in arms:
                        raw[i].append((bb, ("v", v)))
                    raw[i].append((t["else"], ("else", tuple(vals))))
            elif k in ("call",):
                if t["t"] is not None:
                    raw[i].append((t["t"], None))
            elif k in ("drop", "assert"):
                raw[i].append((t["t"], None))
            elif k == "asm":
                for x in t.get("ts", []):
                    raw[i].append((x, None))
        self.raw = raw
        self.assertlike = {}
        # blocks that can reach a return
        rets = [i for i, b in enumerate(B) if b["t"]["k"] in ("ret", "tailcall") and not b.get("cleanup")]
        self.rets = rets
        rpred = [[] for _ in range(n)]
        for i in range(n):
            for (s, _) in raw[i]:
                rpred[s].append(i)
        can = set(rets)
        work = list(rets)
        while work:
            x = work.pop()
            for p in rpred[x]:
                if p not in can:
                    can.add(p)
                    work.append(p)
        self.noreturn = 0 not in can
        if self.noreturn:
            can = set(range(n))  # diverging function: keep everything
        succ = [[] for _ in range(n)]
        for i in range(n):
            if i in can:
                seen = set()
                for (s, lab) in raw[i]:
                    if s in can:
                        succ[i].append((s, lab))
                # a switch with a single surviving target is not a branch (assert-like): remember
                # the label of the surviving edge so that rules can still use it as an assumption
                tg = {s for s, _ in succ[i]}
                if len(tg) == 1 and len(succ[i]) >= 1:
                    labs = [lab for _, lab in succ[i] if lab is not None]
                    if len({s for s, _ in raw[i]}) > 1 and len(labs) == 1:
                        self.assertlike[i] = labs[0]
                    succ[i] = [(next(iter(tg)), None)]
        # reachable from entry
        reach = set([0])
        work = [0]
        while work:
            x = work.pop()
            for (s, _) in succ[x]:
                if s not in reach:
                    reach.add(s)
                    work.append(s)
        self.live = reach
        self.succ = [succ[i] if i in reach else [] for i in range(n)]
        self.pred = [[] for _ in range(n)]
        for i in reach:
            for (s, lab) in self.succ[i]:
                self.pred[s].append((i, lab))
        self.live_rets = [r for r in rets if r in reach]
        self._dom = None
        self._pdom = None
        self._cd = None

    def _collect_defs(self):
        defs = defaultdict(list)
        for i, b in enumerate(self.fn.blocks):
            if b.get("cleanup"):
                continue
            for j, st in enumerate(b["s"]):
                if st[0] == "=":
                    defs[st[1][0]].append((i, j, len(st[1]) == 1))
                elif st[0] == "setdiscr":
                    defs[st[1][0]].append((i, j, False))
            t = b["t"]
            if t["k"] == "call" and t.get("d"):
                defs[t["d"][0]].append((i, "t", len(t["d"]) == 1))
        return defs

    def _const_of(self, op):
        """Constant value of a switch operand, when it is a literal/evaluated constant or a
        single-assignment temp holding one."""
        if op[0] == "k":
            return _const_int(op[1])
        pl = op[1]
        if len(pl) != 1:
            return None
        ds = self.defs.get(pl[0], [])
        if len(ds) != 1 or ds[0][1] == "t":
            return None
        st = self.fn.blocks[ds[0][0]]["s"][ds[0][1]]
        if st[0] != "=":
            return None
        rv = st[2]
        if rv[0] == "use" and rv[1][0] == "k":
            return _const_int(rv[1][1])
        if rv[0] == "use" and rv[1][0] in ("c", "m") and len(rv[1][1]) == 1 and rv[1][1][0] != pl[0]:
            return self._const_of(rv[1])
        if rv[0] == "un" and rv[1] == "Not":
            v = self._const_of(rv[2])
            if v is not None and self.fn.local_ty(pl[0]) == "bool":
                return 0 if v else 1
        return None

    # ---- dominators (iterative, graphs are small)
    def _idoms(self, entry_nodes, succ_of, pred_of, nodes):
        order = []
        seen = set()
        VIRT = -1

        def dfs(x):
            stack = [(x, iter(succ_of(x)))]
            seen.add(x)
            while stack:
                node, it = stack[-1]
                adv = False
                for s in it:
                    if s not in seen:
                        seen.add(s)
                        stack.append((s, iter(succ_of(s))))
                        adv = True
                        break
                if not adv:
                    order.append(node)
                    stack.pop()
        for e in entry_nodes:
            if e not in seen:
                dfs(e)
        rpo = list(reversed(order))
        idx = {b: i for i, b in enumerate(rpo)}
        idom = {e: VIRT for e in entry_nodes}

        def inter(a, b):
            while a != b:
                if a == VIRT or b == VIRT:
                    return VIRT
                while a != VIRT and b != VIRT and idx[a] > idx[b]:
                    a = idom[a]
                while a != VIRT and b != VIRT and idx[b] > idx[a]:
                    b = idom[b]
            return a
        changed = True
        while changed:
            changed = False
            for b in rpo:
                if b in entry_nodes:
                    continue
                new = None
                for p in pred_of(b):
                    if p in idom:
                        new = p if new is None else inter(p, new)
                if new is not None and idom.get(b) != new:
                    idom[b] = new
                    changed = True
        return idom

    @property
    def idom(self):
        if self._dom is None:
            self._dom = self._idoms([0], lambda x: [s for s, _ in self.succ[x]], lambda x: [p for p, _ in self.pred[x]], self.live)
        return self._dom

    @property
    def ipdom(self):
        if self._pdom is None:
            ex = list(self.live_rets)
            if not ex:
                # diverging function: treat blocks without successors as exits
                ex = [b for b in self.live if not self.succ[b]]
            self._pdom = self._idoms(ex, lambda x: [p for p, _ in self.pred[x]], lambda x: [s for s, _ in self.succ[x]], self.live)
        return self._pdom

    def dominates(self, a, b):
        """a dominates b (reflexive)."""
        idom = self.idom
        x = b
        while x != -1 and x is not None:
            if x == a:
                return True
            x = idom.get(x)
        return False

    def postdominates(self, a, b):
        """a post-dominates b (reflexive): every path from b to a return passes a."""
        ip = self.ipdom
        x = b
        while x != -1 and x is not None:
            if x == a:
                return True
            x = ip.get(x)
        return False

    def control_deps(self):
        """block -> set of (branch block, label) on which it is directly control dependent."""
        if self._cd is None:
            cd = defaultdict(set)
            ip = self.ipdom
            for a in self.live:
                if len({s for s, _ in self.succ[a]}) < 2:
                    continue
                for (s, lab) in self.succ[a]:
                    # walk up the post-dominator tree from s until ipdom(a)
                    stop = ip.get(a)
                    x = s
                    guard = 0
                    while x is not None and x != -1 and x != stop and guard < 10000:
                        cd[x].add((a, lab))
                        x = ip.get(x)
                        guard += 1
            self._cd = cd
        return self._cd

    def control_deps_closure(self, b):
        """Transitive control dependences of block b: set of (branch block, label)."""
        cd = self.control_deps()
        out = set()
        work = [b]
        seen = set([b])
        while work:
            x = work.pop()
            for (a, lab) in cd.get(x, ()):
                if (a, lab) not in out:
                    out.add((a, lab))
                if a not in seen:
                    seen.add(a)
                    work.append(a)
        return out

    def reachable_from(self, b, avoid=()):
        """Blocks reachable from b (exclusive unless on a cycle) without entering `avoid`."""
        out = set()
        work = [s for s, _ in self.succ[b] if s not in avoid]
        while work:
            x = work.pop()
            if x in out:
                continue
            out.add(x)
            for s, _ in self.succ[x]:
                if s not in avoid and s not in out:
                    work.append(s)
        return out

    def must_pass(self, sites, start=0, avoid_start=False):
        """Every path from `start` to a return crosses a block in `sites`."""
        sites = set(sites)
        if start in sites and not avoid_start:
            return True
        seen = set([start])
        work = [start]
        while work:
            x = work.pop()
            if x in self.live_rets:
                return False
            for s, _ in self.succ[x]:
                if s in sites or s in seen:
                    continue
                seen.add(s)
                work.append(s)
        return True

    def path_counts(self, sites, start=0):
        """(min,max) number of site-blocks on acyclic paths start->return; max is None if a site
        lies on a cycle reachable on such a path."""
        sites = set(sites)
        memo = {}
        onstack = set()
        cyc = [False]

        def go(x):
            if x in memo:
                return memo[x]
            if x in onstack:
                return None
            onstack.add(x)
            here = 1 if x in sites else 0
            res = None
            if x in self.live_rets:
                res = (here, here)
            for s, _ in self.succ[x]:
                if s in onstack:
                    # back edge: does the cycle contain a site?
                    if self._cycle_has_site(s, x, sites):
                        cyc[0] = True
                    continue
                r = go(s)
                if r is None:
                    continue
                r = (r[0] + here, r[1] + here)
                res = r if res is None else (min(res[0], r[0]), max(res[1], r[1]))
            onstack.discard(x)
            memo[x] = res
            return res
        r = go(start)
        if r is None:
            return (0, 0)
        return (r[0], None if cyc[0] else r[1])

    def weighted_path_counts(self, weights, start=0, end=None):
        """Like path_counts, but every block carries a (min,max) weight (max None = unbounded),
        e.g. the summary of the function called in that block. With `end`, paths start->end are
        counted instead of paths to a return (end's own weight included; None if unreachable)."""
        memo = {}
        exits = {end} if end is not None else set(self.live_rets)
        onstack = set()
        unb = [False]
        wsites = {b for b, w in weights.items() if w[1] is None or w[1] > 0}

        def go(x):
            if x in memo:
                return memo[x]
            if x in onstack:
                return None
            onstack.add(x)
            w = weights.get(x, (0, 0))
            if w[1] is None:
                unb[0] = True
            here = (w[0], w[1] if w[1] is not None else w[0])
            res = None
            if x in exits:
                res = here
            for s, _ in (self.succ[x] if not (end is not None and x == end) else []):
                if s in onstack:
                    if self._cycle_has_site(s, x, wsites):
                        unb[0] = True
                    continue
                r = go(s)
                if r is None:
                    continue
                r = (r[0] + here[0], r[1] + here[1])
                res = r if res is None else (min(res[0], r[0]), max(res[1], r[1]))
            onstack.discard(x)
            memo[x] = res
            return res
        r = go(start)
        if r is None:
            return None if end is not None else (0, 0)
        return (r[0], None if unb[0] else r[1])

    def _cycle_has_site(self, head, tail, sites):
        # blocks on some path head ->* tail
        fw = {head} | self.reachable_from(head)
        bw = set([tail])
        work = [tail]
        while work:
            x = work.pop()
            for p, _ in self.pred[x]:
                if p not in bw:
                    bw.add(p)
                    work.append(p)
        return bool((fw & bw) & sites)


def _const_int(c):
    if "v" in c:
        v = c["v"]
        if isinstance(v, bool):
            return 1 if v else 0
        if isinstance(v, int):
            return v
        if isinstance(v, str) and v.isdigit():
            return int(v)
    return None


# --------------------------------------------------------------------------- origin trees
# Tree nodes are tuples:
#  ('arg', i) ('const', cdict-as-tuple-key, printable) ('field', base, name) ('deref', base) ('ref', base)
#  ('variant', base, name) ('index', base) ('call', q, res, args_tuple, bb) ('bin', op, a, b) ('un', op, a)
#  ('cast', kind, a) ('discr', a) ('agg', desc, ops_tuple) ('phi', trees_tuple) ('loop',) ('deep',) ('unk', why)
#  ('upvar', name)  ('local', l)  for uninitialised / unknown

MAX_DEPTH = 40


def const_node(c):
    if "fn" in c:
        f = c["fn"]
        return ("fnref", f.get("res") or f["q"], f.get("trait"), f.get("recv_head"))
    if "variant" in c and "ty" in c:
        return ("const", c["ty"], c.get("variant"), c.get("item"))
    if "v" in c:
        return ("const", c["ty"], c["v"], c.get("item"))
    if "str" in c:
        return ("const", c["ty"], c["str"], None)
    if "item" in c:
        return ("const", c["ty"], None, c["item"])
    if "zst" in c:
        return ("const", c["ty"], "()", None)
    return ("const", c.get("ty"), None, c.get("tyconst"))


class Flow:
    def __init__(self, fn):
        self.fn = fn
        self.cfg = fn.cfg
        self.memo = {}
        self._rd_memo = {}
        self.upvar_names = {}
        if fn.kind == "closure":
            for name, pl in fn.body.get("vdi", []):
                # closure env is _1; captured var places look like [1, ('*',) '.N' or name...]
                if pl and pl[0] == 1 and len(pl) >= 2:
                    key = tuple(x for x in pl[1:] if x != "*")
                    if key:
                        self.upvar_names.setdefault(key[0], name)

    # ---- reaching definitions of a whole local at a point
    def reaching_defs(self, l, bb, idx):
        """Definition sites (bb, j) reaching the point just before statement idx of bb
        (idx may be 't' for the terminator). Returns list; includes ('entry',) if the
        function entry reaches without a definition (argument or uninitialised)."""
        key = (l, bb, idx)
        if key in self._rd_memo:
            return self._rd_memo[key]
        defs = self.cfg.defs.get(l, [])
        whole = [(b, j) for (b, j, w) in defs if w]
        by_block = defaultdict(list)
        for (b, j) in whole:
            by_block[b].append(j)
        out = []
        seen = set()

        def last_def_before(b, limit):
            # limit: index or 't' or None (end of block incl. terminator)
            best = None
            for j in by_block.get(b, ()):
                jj = 10**9 if j == "t" else j
                if limit is None:
                    ok = True
                elif limit == "t":
                    ok = j != "t"
                else:
                    ok = jj < limit
                if ok and (best is None or jj > (10**9 if best == "t" else best)):
                    best = j
            return best
        d = last_def_before(bb, idx)
        if d is not None:
            out.append((bb, d))
        else:
            work = [p for p, _ in self.cfg.pred[bb]]
            if bb == 0:
                out.append(("entry",))
            while work:
                x = work.pop()
                if x in seen:
                    continue
                seen.add(x)
                d = last_def_before(x, None)
                if d is not None:
                    out.append((x, d))
                    continue
                if x == 0:
                    if ("entry",) not in out:
                        out.append(("entry",))
                for p, _ in self.cfg.pred[x]:
                    if p not in seen:
                        work.append(p)
        self._rd_memo[key] = out
        return out

    def origin_local(self, l, bb, idx, depth=0, stack=frozenset()):
        if depth > MAX_DEPTH:
            return ("deep",)
        key = (l, bb, idx)
        if key in self.memo:
            return self.memo[key]
        fn = self.fn
        rds = self.reaching_defs(l, bb, idx)
        trees = []
        for d in rds:
            if d == ("entry",):
                if 1 <= l <= fn.argc:
                    trees.append(("arg", l))
                else:
                    trees.append(("local", l))
                continue
            if (l, d) in stack:
                trees.append(("loop",))
                continue
            st2 = stack | {(l, d)}
            b, j = d
            if j == "t":
                t = fn.blocks[b]["t"]
                trees.append(self.call_tree(b, t, depth + 1, st2))
            else:
                st = fn.blocks[b]["s"][j]
                if st[0] == "=":
                    trees.append(self.rvalue_tree(st[2], b, j, depth + 1, st2))
                else:
                    trees.append(("unk", st[0]))
        if not trees:
            r = ("arg", l) if 1 <= l <= fn.argc else ("local", l)
        elif len(trees) == 1:
            r = trees[0]
        else:
            uniq = []
            for t in trees:
                if t not in uniq:
                    uniq.append(t)
            r = uniq[0] if len(uniq) == 1 else ("phi", tuple(uniq))
        if not stack:
            self.memo[key] = r
        return r

    def call_tree(self, b, t, depth=0, stack=frozenset()):
        f = t["f"]
        if f[0] == "k" and "fn" in f[1]:
            c = f[1]["fn"]
            q, res = c["q"], c.get("res")
        else:
            q, res = ("indirect", self.operand_tree(f, b, "t", depth + 1, stack)), None
        args = tuple(self.operand_tree(a, b, "t", depth + 1, stack) for a in t["a"])
        return ("call", q, res, args, b)

    def place_tree(self, pl, bb, idx, depth=0, stack=frozenset()):
        base = self.origin_local(pl[0], bb, idx, depth, stack)
        if self.fn.kind == "closure" and pl[0] == 1 and len(pl) >= 2:
            # captured variable
            projs = [x for x in pl[1:] if x != "*"]
            if projs:
                nm = self.upvar_names.get(projs[0], projs[0].lstrip("."))
                base = ("upvar", nm)
                for p in projs[1:]:
                    base = self._proj(base, p)
                return base
        for p in pl[1:]:
            base = self._proj(base, p)
        return base

    @staticmethod
    def _proj(base, p):
        if p == "*":
            return ("deref", base)
        if p.startswith("."):
            return ("field", base, p[1:])
        if p.startswith("@"):
            return ("variant", base, p[1:])
        if p.startswith("["):
            return ("index", base, p)
        return ("proj", base, p)

    def operand_tree(self, op, bb, idx, depth=0, stack=frozenset()):
        if depth > MAX_DEPTH:
            return ("deep",)
        k = op[0]
        if k in ("c", "m"):
            return self.place_tree(op[1], bb, idx, depth, stack)
        if k == "k":
            c = op[1]
            if "promoted" in c and "fn" not in c:
                # a promoted constant of this body: name the constant(s) it is built from
                refs = (self.fn.meta.get("promoted") or {}).get(str(c["promoted"]), [])
                if len(refs) == 1:
                    return ("const", c.get("ty"), c.get("v"), refs[0])
                if refs:
                    return ("const", c.get("ty"), c.get("v"), "+".join(refs))
            return const_node(c)
        return ("unk", "operand")

    def rvalue_tree(self, rv, bb, idx, depth=0, stack=frozenset()):
        if depth > MAX_DEPTH:
            return ("deep",)
        k = rv[0]
        if k == "use":
            return self.operand_tree(rv[1], bb, idx, depth, stack)
        if k == "ref":
            return ("ref", self.place_tree(rv[2], bb, idx, depth, stack))
        if k == "rawptr":
            return ("ref", self.place_tree(rv[2], bb, idx, depth, stack))
        if k == "bin":
            return ("bin", rv[1], self.operand_tree(rv[2], bb, idx, depth + 1, stack), self.operand_tree(rv[3], bb, idx, depth + 1, stack))
        if k == "un":
            return ("un", rv[1], self.operand_tree(rv[2], bb, idx, depth + 1, stack))
        if k == "cast":
            return ("cast", rv[1], self.operand_tree(rv[2], bb, idx, depth + 1, stack))
        if k == "discr":
            return ("discr", self.place_tree(rv[1], bb, idx, depth + 1, stack), self.place_ty(rv[1]))
        if k == "agg":
            d = rv[1]
            desc = (d.get("k"), d.get("adt") or d.get("q"), d.get("variant"), tuple(d.get("fields", ())))
            return ("agg", desc, tuple(self.operand_tree(o, bb, idx, depth + 1, stack) for o in rv[2]))
        if k == "repeat":
            return ("repeat", self.operand_tree(rv[1], bb, idx, depth + 1, stack))
        return ("unk", k)

    def place_ty(self, pl):
        """Best-effort printed type of a place (only for whole locals / simple derefs)."""
        t = self.fn.local_ty(pl[0])
        variant = None
        adts = self.fn.facts.adts
        for p in pl[1:]:
            if t is None:
                return None
            if p == "*":
                t = re.sub(r"^&('\w+ )?(mut )?", "", t)
                t = re.sub(r"^\*(const|mut) ", "", t)
                m = re.match(r"^std::boxed::Box<(.*)>$", t)
                if m:
                    t = split_generics(t)[0]
            elif p.startswith("@"):
                variant = p[1:]
            elif p.startswith("."):
                name = p[1:]
                head = type_head(t)
                ga = split_generics(t)
                if head in ("std::option::Option", "core::option::Option"):
                    t = ga[0] if ga else None
                elif head in ("std::result::Result", "core::result::Result"):
                    t = (ga[1] if variant == "Err" else ga[0]) if len(ga) >= 2 else None
                elif t.startswith("("):
                    parts = split_generics("T<" + t[1:-1] + ">")
                    t = parts[int(name)] if name.isdigit() and int(name) < len(parts) else None
                elif head in adts:
                    a = adts[head]
                    vs = [v for v in a["variants"] if variant is None or v["name"] == variant] or a["variants"]
                    ft = None
                    for fld in vs[0]["fields"]:
                        if fld["name"] == name:
                            ft = fld["ty"]
                    t = ft
                else:
                    return None
                variant = None
            else:
                return None
        return t

    def alternatives(self, l, bb, idx, deep=True, _depth=0):
        """[(def block or None, tree)] for each definition of local l reaching (bb, idx); a single
        definition that is a plain copy/move of another whole local is looked through (deep)."""
        rds = self.reaching_defs(l, bb, idx)
        if deep and len(rds) == 1 and rds[0] != ("entry",) and rds[0][1] != "t":
            b, j = rds[0]
            st = self.fn.blocks[b]["s"][j]
            if st[0] == "=":
                rv = st[2]
                src = None
                if rv[0] == "use" and rv[1][0] in ("c", "m"):
                    src = rv[1][1]
                elif rv[0] == "ref":
                    src = rv[2]
                elif rv[0] == "cast" and rv[2][0] in ("c", "m"):
                    src = rv[2][1]
                # `_a = _b`, `_a = &*_b`, `_a = _b as T`: pure re-borrows / copies of a whole local
                if src is not None and src[0] != l and all(p == "*" for p in src[1:]) and not (1 <= src[0] <= self.fn.argc):
                    return self.alternatives(src[0], b, j, deep, _depth)
        out = []
        for d in rds:
            if d == ("entry",):
                out.append((None, ("arg", l) if 1 <= l <= self.fn.argc else ("local", l)))
                continue
            b, j = d
            if j == "t":
                out.append((b, self.call_tree(b, self.fn.blocks[b]["t"])))
            else:
                st = self.fn.blocks[b]["s"][j]
                # one of several definitions that is itself a plain copy of another whole local which has several definitions
                # (e.g. the result of an inlined helper): report the source's definitions instead of one merged value
                if deep and st[0] == "=" and _depth < 4:
                    rv = st[2]
                    src = rv[1][1] if rv[0] == "use" and rv[1][0] in ("c", "m") else None
                    if src is not None and len(src) == 1 and src[0] != l and not (1 <= src[0] <= self.fn.argc) and len(self.reaching_defs(src[0], b, j)) > 1:
                        out.extend(self.alternatives(src[0], b, j, deep, _depth + 1))
                        continue
                out.append((b, self.rvalue_tree(st[2], b, j) if st[0] == "=" else ("unk", st[0])))
        return out

    def switch_alternatives(self, bb):
        """Alternatives of the switch discriminant of block bb when it is a plain local (looking
        through one level of copies)."""
        t = self.fn.blocks[bb]["t"]
        op = t["d"]
        if op[0] not in ("c", "m") or len(op[1]) != 1:
            return []
        alts = self.alternatives(op[1][0], bb, "t")
        # look through `_a = copy _b`
        if len(alts) == 1 and alts[0][0] is not None:
            b = alts[0][0]
            for (bb2, j, w) in self.cfg.defs.get(op[1][0], []):
                if bb2 == b and j != "t":
                    st = self.fn.blocks[b]["s"][j]
                    if st[0] == "=" and st[2][0] == "use" and st[2][1][0] in ("c", "m") and len(st[2][1][1]) == 1:
                        return self.alternatives(st[2][1][1][0], b, j)
        return alts

    # ---- convenience
    def arg_tree(self, cs, i):
        return self.operand_tree(cs.args[i], cs.bb, "t")

    def switch_tree(self, bb):
        t = self.fn.blocks[bb]["t"]
        assert t["k"] == "switch"
        return self.operand_tree(t["d"], bb, "t")

    def return_trees(self):
        """origin of _0 at each live return block."""
        out = []
        for r in self.cfg.live_rets:
            out.append((r, self.origin_local(0, r, "t")))
        return out


def type_head(t):
    """Path of a printed type without generic arguments and reference sigils."""
    t = t.strip()
    t = re.sub(r"^&('\w+ )?(mut )?", "", t)
    depth = 0
    for i, ch in enumerate(t):
        if ch == "<" and depth == 0 and i > 0:
            return t[:i]
    return t


def split_generics(t):
    """Top-level generic arguments of a printed type: 'A<B<C>, D>' -> ['B<C>', 'D']."""
    i = t.find("<")
    if i < 0 or not t.endswith(">"):
        return []
    inner = t[i + 1:-1]
    out, depth, cur = [], 0, ""
    for ch in inner:
        if ch in "<([":
            depth += 1
        elif ch in ">)]":
            depth -= 1
        if ch == "," and depth == 0:
            out.append(cur.strip())
            cur = ""
        else:
            cur += ch
    if cur.strip():
        out.append(cur.strip())
    return [x for x in out if not x.startswith("'")]


# ---- tree utilities
def strip(t, extra_transparent=()):
    """Remove reference/deref/copy wrappers and transparent smart-pointer calls."""
    if not isinstance(t, tuple) or not t:
        return t
    k = t[0]
    if k in ("ref", "deref"):
        return strip(t[1], extra_transparent)
    if k == "cast":
        return ("cast", t[1], strip(t[2], extra_transparent)) if t[1] in ("IntToInt",) else strip(t[2], extra_transparent)
    if k == "call":
        q = t[1]
        if isinstance(q, str) and (q in TRANSPARENT_Q or last_seg(q) in extra_transparent) and t[3]:
            return strip(t[3][0], extra_transparent)
        return ("call", q, t[2], tuple(strip(a, extra_transparent) for a in t[3]), t[4])
    if k == "field":
        return ("field", strip(t[1], extra_transparent), t[2])
    if k == "variant":
        return ("variant", strip(t[1], extra_transparent), t[2])
    if k == "index":
        return ("index", strip(t[1], extra_transparent), t[2])
    if k == "bin":
        return ("bin", t[1], strip(t[2], extra_transparent), strip(t[3], extra_transparent))
    if k == "un":
        return ("un", t[1], strip(t[2], extra_transparent))
    if k == "discr":
        return ("discr", strip(t[1], extra_transparent), t[2])
    if k == "agg":
        return ("agg", t[1], tuple(strip(a, extra_transparent) for a in t[2]))
    if k == "phi":
        xs = []
        for a in t[1]:
            a = strip(a, extra_transparent)
            if a not in xs:
                xs.append(a)
        return xs[0] if len(xs) == 1 else ("phi", tuple(xs))
    return t


def walk(t):
    """All sub-trees (pre-order)."""
    if not isinstance(t, tuple):
        return
    yield t
    k = t[0] if t else None
    if k in ("ref", "deref"):
        yield from walk(t[1])
    elif k in ("field", "variant", "index", "proj"):
        yield from walk(t[1])
    elif k == "call":
        if isinstance(t[1], tuple):
            yield from walk(t[1][1])
        for a in t[3]:
            yield from walk(a)
    elif k == "bin":
        yield from walk(t[2])
        yield from walk(t[3])
    elif k in ("un", "cast"):
        yield from walk(t[2])
    elif k == "discr":
        yield from walk(t[1])
    elif k == "agg":
        for a in t[2]:
            yield from walk(a)
    elif k == "phi":
        for a in t[1]:
            yield from walk(a)
    elif k == "repeat":
        yield from walk(t[1])


def tree_calls(t, name=None, q=None):
    """Call nodes inside t whose callee name / q matches."""
    out = []
    for s in walk(t):
        if s and s[0] == "call" and isinstance(s[1], str):
            if name is not None and last_seg(s[1]) != name and (s[2] is None or last_seg(s[2]) != name):
                continue
            if q is not None and s[1] != q and s[2] != q:
                continue
            out.append(s)
    return out


def tree_has(t, pred):
    return any(pred(s) for s in walk(t))


def has_leaf(t, kinds=("deep", "unk")):
    return tree_has(t, lambda s: s and s[0] in kinds)


def show(t, depth=0):
    """Compact human-readable rendering of a tree."""
    if not isinstance(t, tuple) or not t:
        return str(t)
    if depth > 8:
        return "..."
    k = t[0]
    if k == "arg":
        return "arg%d" % t[1]
    if k == "local":
        return "_%d" % t[1]
    if k == "upvar":
        return "upvar(%s)" % t[1]
    if k == "const":
        if t[3]:
            return "%s" % short(t[3]) if t[2] is None else "%s=%s" % (short(t[3]), t[2])
        return "%s" % (t[2],) if t[2] is not None else "const:%s" % short(t[1] or "?")
    if k == "fnref":
        return "fn:" + short(t[1])
    if k == "field":
        return "%s.%s" % (show(t[1], depth + 1), t[2])
    if k == "variant":
        return "%s as %s" % (show(t[1], depth + 1), t[2])
    if k == "index":
        return "%s%s" % (show(t[1], depth + 1), t[2])
    if k == "deref":
        return "*%s" % show(t[1], depth + 1)
    if k == "ref":
        return "&%s" % show(t[1], depth + 1)
    if k == "call":
        q = t[2] or t[1]
        qn = short(q) if isinstance(q, str) else "(%s)" % show(q[1], depth + 1)
        return "%s(%s)" % (qn, ", ".join(show(a, depth + 1) for a in t[3]))
    if k == "bin":
        return "(%s %s %s)" % (show(t[2], depth + 1), t[1], show(t[3], depth + 1))
    if k == "un":
        return "%s(%s)" % (t[1], show(t[2], depth + 1))
    if k == "cast":
        return "(%s as _)" % show(t[2], depth + 1)
    if k == "discr":
        return "discr(%s)" % show(t[1], depth + 1)
    if k == "agg":
        d = t[1]
        nm = short(d[1]) if d[1] else d[0]
        if d[2] and d[0] == "adt":
            nm = "%s::%s" % (nm, d[2]) if d[2] != last_seg(d[1] or "") else nm
        return "%s{%s}" % (nm, ", ".join(show(a, depth + 1) for a in t[2]))
    if k == "phi":
        return "phi(%s)" % " | ".join(show(a, depth + 1) for a in t[1])
    return k


def short(q):
    if not isinstance(q, str):
        return str(q)
    # keep the last two path segments of a qualified name
    m = re.match(r"^<(.+) as (.+)>::(\w+)(#\d+)?$", q)
    if m:
        return "<%s as %s>::%s" % (last_seg(m.group(1)), last_seg(m.group(2)), m.group(3))
    parts = split_path(q)
    return "::".join(parts[-2:]) if len(parts) >= 2 else q


def split_path(q):
    parts, depth, cur = [], 0, ""
    i = 0
    while i < len(q):
        ch = q[i]
        if ch in "<({":
            depth += 1
        elif ch in ">)}":
            depth -= 1
        if ch == ":" and depth == 0 and i + 1 < len(q) and q[i + 1] == ":":
            parts.append(cur)
            cur = ""
            i += 2
            continue
        cur += ch
        i += 1
    parts.append(cur)
    return parts


# --------------------------------------------------------------------------- predicates / control signature
class Pred:
    """A branch condition: tree of the switch discriminant and the label of the edge taken."""
    __slots__ = ("tree", "label", "bb", "val")

    def __init__(self, tree, label, bb, val):
        self.tree, self.label, self.bb, self.val = tree, label, bb, val

    def __repr__(self):
        return "%s == %s" % (show(self.tree), self.val)

    def key(self):
        return (show(self.tree), str(self.val))


def decode_pred(fn, bb, label):
    """Turn (switch block, edge label) into Pred(tree, value) with value in
    True/False/variant-name/int/('not', values)."""
    flow = fn.flow
    t = flow.switch_tree(bb)
    t = strip(t)
    sw = fn.blocks[bb]["t"]
    dty = None
    # type of the discriminant operand
    if sw["d"][0] in ("c", "m") and len(sw["d"][1]) == 1:
        dty = fn.local_ty(sw["d"][1][0])
    val = None
    if label is None:
        val = "?"
    elif label[0] == "v":
        val = label[1]
    else:
        val = ("not", label[1])
    neg = False
    while t and t[0] == "un" and t[1] == "Not":
        t = strip(t[2])
        neg = not neg
    if dty == "bool" or (t and t[0] in ("bin",) and t[1] in ("Eq", "Ne", "Lt", "Le", "Gt", "Ge")):
        if val == 0:
            b = False
        elif val == ("not", (0,)):
            b = True
        elif val == 1:
            b = True
        else:
            b = val
        if isinstance(b, bool) and neg:
            b = not b
        return Pred(t, label, bb, b)
    if t and t[0] == "discr":
        variants = _variants_for(fn.facts, t[2])
        inner = t[1]
        if variants:
            if isinstance(val, int):
                return Pred(inner, label, bb, variants.get(val, val))
            if isinstance(val, tuple) and val[0] == "not":
                rest = [n for d, n in variants.items() if d not in val[1]]
                if len(rest) == 1:
                    return Pred(inner, label, bb, rest[0])
                return Pred(inner, label, bb, ("in", tuple(sorted(rest))))
        return Pred(inner, label, bb, val)
    return Pred(t, label, bb, val)


_STD_ENUMS = {
    "std::option::Option": {0: "None", 1: "Some"},
    "std::result::Result": {0: "Ok", 1: "Err"},
    "core::option::Option": {0: "None", 1: "Some"},
    "core::result::Result": {0: "Ok", 1: "Err"},
    "std::ops::ControlFlow": {0: "Continue", 1: "Break"},
    "std::cmp::Ordering": {-1: "Less", 0: "Equal", 1: "Greater", 255: "Less"},
}


def _variants_for(facts, ty):
    if not ty:
        return None
    head = re.sub(r"<.*$", "", ty.strip())
    head = re.sub(r"^&(mut )?", "", head)
    if head in _STD_ENUMS:
        return _STD_ENUMS[head]
    return facts.enum_variants(head)


def ctrl_sig(fn, bb, transitive=True):
    """Control-dependence signature of a block: list of Pred."""
    cfg = fn.cfg
    deps = cfg.control_deps_closure(bb) if transitive else cfg.control_deps().get(bb, set())
    out = []
    for (a, lab) in sorted(deps, key=lambda x: (x[0], str(x[1]))):
        out.append(decode_pred(fn, a, lab))
    return out


def assumed_sig(fn, bb):
    """Predicates of assert-like switches (all other arms diverge) that dominate bb."""
    cfg = fn.cfg
    out = []
    for a, lab in sorted(cfg.assertlike.items()):
        if a in cfg.live and cfg.dominates(a, bb) and a != bb:
            out.append(decode_pred(fn, a, lab))
    return out


def dom_guards(fn, bb):
    """Branch edges that every entry->bb path must take: Pred list. Unlike the control-dependence
    closure this is stable inside loops (no back-edge conditions)."""
    cfg = fn.cfg
    out = []
    for a in sorted(cfg.live):
        succ = cfg.succ[a]
        if len({s for s, _ in succ}) < 2:
            continue
        for (s, lab) in succ:
            if s == bb or cfg.dominates(s, bb):
                preds = {p for p, _ in cfg.pred[s]}
                # the edge a->s is the only way into s, or all other ways into s come from blocks dominated by s (loop back edges)
                if all(p == a or cfg.dominates(s, p) for p in preds):
                    # several labels may lead a->s (match arms sharing a target): merge
                    labs = [l for (s2, l) in succ if s2 == s]
                    if len(labs) == 1:
                        out.append(decode_pred(fn, a, lab))
                    else:
                        if lab == labs[0]:
                            ps = [decode_pred(fn, a, l) for l in labs]
                            out.append(Pred(ps[0].tree, lab, a, ("in", tuple(sorted(str(p.val) for p in ps)))))
    return out


def sig_keys(preds):
    return sorted(set(p.key() for p in preds))


# --------------------------------------------------------------------------- call graph
class CallGraph:
    def __init__(self, facts):
        self.facts = facts
        self.out = defaultdict(set)      # q -> set of callee q (local bodies only, expanded)
        self.sites = defaultdict(list)   # callee q (as named at site: q and res) -> [CallSite]
        self.by_name = defaultdict(list)
        self.packet_edges = set()
        self._pdw = None
        idx = facts.impl_index()
        for f in facts.fns.values():
            for cs in f.calls:
                if cs.q is None:
                    continue
                self.sites[cs.q].append(cs)
                if cs.res and cs.res != cs.q:
                    self.sites[cs.res].append(cs)
                self.by_name[cs.name].append(cs)
                for tq in self.targets(cs):
                    self.out[f.q].add(tq)
            for (_, _, cq, _, _) in f.closures_built():
                self.out[f.q].add(cq)
            # constructing a work packet may execute its do_work (scheduling edge)
            for adt in f.adts_built():
                dq = self._packet_do_work().get(adt)
                if dq:
                    self.out[f.q].add(dq)
                    self.packet_edges.add((f.q, dq))
            for (_, rq, c) in f.fn_refs():
                for tq in self._expand(rq, c.get("trait"), c.get("res")):
                    self.out[f.q].add(tq)
        self.inn = defaultdict(set)
        for a, bs in self.out.items():
            for b in bs:
                self.inn[b].add(a)

    def _packet_do_work(self):
        """ADT path -> q of its GCWork::do_work implementation."""
        if self._pdw is None:
            d = {}
            for im in self.facts.impls_of("scheduler::work::GCWork"):
                for it in im["items"]:
                    if it["kind"] == "fn" and it["name"] == "do_work":
                        d[im["self"]] = it["q"]
            self._pdw = d
        return self._pdw

    def _expand(self, q, trait, res):
        if res:
            return [res]
        if trait:
            name = last_seg(q)
            tg = list(self.facts.impl_index().get((trait, name), []))
            if q in self.facts.fns:
                tg.append(q)   # default body
            return tg or [q]
        return [q]

    def targets(self, cs):
        return self._expand(cs.q, cs.trait, cs.res)

    def callers_of(self, q):
        """Call sites whose callee (as written or resolved) is q."""
        return list(self.sites.get(q, []))

    def sites_named(self, name):
        return list(self.by_name.get(name, []))

    def reach(self, roots, stop=None, through=None):
        """Functions reachable from roots. `stop(q)` prunes expansion below q (q itself is
        included). Returns dict q -> predecessor (for path reconstruction)."""
        par = {}
        work = []
        for r in roots:
            if r not in par:
                par[r] = None
                work.append(r)
        while work:
            x = work.pop()
            if stop and stop(x) and par[x] is not None:
                continue
            for y in self.out.get(x, ()):
                if y not in par:
                    if through and not through(y):
                        continue
                    par[y] = x
                    work.append(y)
        return par

    def path_to(self, par, q):
        p = []
        while q is not None:
            p.append(q)
            q = par.get(q)
        return list(reversed(p))

    def reverse_reach(self, targets, stop=None):
        par = {}
        work = []
        for r in targets:
            par[r] = None
            work.append(r)
        while work:
            x = work.pop()
            if stop and stop(x) and par[x] is not None:
                continue
            for y in self.inn.get(x, ()):
                if y not in par:
                    par[y] = x
                    work.append(y)
        return par
