#!/bin/sh
# Build the fact extractor and warm the shared dependency target directory (offline).
set -e
cd "$(dirname "$0")"
export CARGO_NET_OFFLINE=true
python3 -c "
import sys; sys.path.insert(0,'.')
from sa import extract
extract.ensure_driver()
for k in ('K0','K1','K3'):
    print(extract.extract(k, quiet=False))
"
