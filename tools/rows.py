#!/usr/bin/env python3
"""debug aid: print the return table of functions (substring match) on a scratch copy with a patch applied.
usage: rows.py <patch.diff|-> <config> <substr>..."""
import sys, os
sys.path.insert(0, os.path.dirname(os.path.dirname(os.path.abspath(__file__))))
from sa import selftest
from sa.report import load_facts
from sa.rules.common import *
from sa.engine import show, strip
patch, cfg, subs = sys.argv[1], sys.argv[2], sys.argv[3:]
slot = "rows-%d" % os.getpid()
repo = None
if patch != "-":
    repo = selftest.make_scratch(slot)
    assert selftest.apply_patch(repo, os.path.abspath(patch))
try:
    F = load_facts(cfg, repo)
    for q, f in sorted(F.fns.items()):
        if any(s in q for s in subs):
            print("##", q)
            for b, t, g in ret_table(f):
                print("   RET", show(simp(t))[:400], [(show(simp(p.tree))[:160], p.val) for p in g])
finally:
    if repo:
        selftest.cleanup_scratch_facts(repo)
        selftest.drop_scratch(slot)
