#!/usr/bin/env python3
"""Debug helper: dump live calls of functions matching a regex with control signatures.
usage: tools/q.py K0 'regex' [--all] [--trees] [--repo DIR]"""
import sys, os, re
sys.path.insert(0, os.path.dirname(os.path.dirname(os.path.abspath(__file__))))
from sa.engine import *
from sa import extract
from sa.rules.common import *
K = sys.argv[1]; rx = sys.argv[2]
repo = None
if '--repo' in sys.argv: repo = sys.argv[sys.argv.index('--repo')+1]
F = Facts(extract.extract(K, repo), K)
for f in F.fns_matching(rx):
    print("==", f.q, f.file, f.line, "blocks", len(f.blocks), "live", len(f.cfg.live), "rets", f.cfg.live_rets)
    if '--names' in sys.argv: continue
    for cs in f.calls:
        if cs.bb not in f.cfg.live: continue
        if '--all' not in sys.argv and is_transparent_call(cs): continue
        print("  bb%d L%s %s ga=%s" % (cs.bb, cs.line, short(cs.target_q) if cs.q else 'indirect', [short(g) for g in cs.ga][:3]))
        print("       guards:", guard_strs(f, cs.bb, True))
        if '--sig' in sys.argv: print("       sig:", sig_strs(f, cs.bb))
        if '--trees' in sys.argv:
            for i in range(len(cs.args)):
                print("       arg%d:" % i, show(strip(f.flow.arg_tree(cs, i))))
    if '--rets' in sys.argv:
        for r, t in f.flow.return_trees():
            print("  ret bb%d: %s   sig: %s" % (r, show(strip(t)), sig_strs(f, r)))
