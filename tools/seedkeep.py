#!/usr/bin/env python3
"""Keep a confirmed seeded change under /verif/seeded/<prop>-<name>/ (patch.diff, demo/, meta.json) and record
which of this repository's checks detect it.
usage: seedkeep.py <seed-dir> <prop> [check props to run ...]"""
import json, os, shutil, subprocess, sys
ROOT = os.path.dirname(os.path.dirname(os.path.abspath(__file__)))
sd = os.path.abspath(sys.argv[1]).rstrip("/")
prop = sys.argv[2]
checks = sys.argv[3:] or [prop]
name = os.path.basename(sd)
dst = os.path.join(ROOT, "seeded", "%s-%s" % (prop, name))
conf_p = os.path.join(sd, "confirm.json")
if not os.path.exists(conf_p):
    print("no confirm.json for", sd)
    sys.exit(2)
conf = json.load(open(conf_p))
if not conf.get("confirmed"):
    print("NOT CONFIRMED:", sd, {k: conf.get(k) for k in ("unit_pass_fail", "unit_failed", "demo_with_change_rc", "demo_without_change_rc")})
    sys.exit(1)
os.makedirs(dst, exist_ok=True)
shutil.copy(os.path.join(sd, "patch.diff"), os.path.join(dst, "patch.diff"))
if os.path.isdir(os.path.join(dst, "demo")):
    shutil.rmtree(os.path.join(dst, "demo"))
shutil.copytree(os.path.join(sd, "demo"), os.path.join(dst, "demo"))
meta = json.load(open(os.path.join(sd, "meta.json")))
r = subprocess.run([sys.executable, os.path.join(ROOT, "tools", "seedcheck.py"), os.path.join(sd, "patch.diff")] + checks, stdout=subprocess.PIPE, stderr=subprocess.STDOUT, text=True)
det = {}
for line in r.stdout.splitlines():
    for c in checks:
        if line.startswith(c + " "):
            try:
                det[c] = json.loads(line[len(c) + 1:])
            except Exception:
                det[c] = line[len(c) + 1:]
out = {
    "property": prop,
    "name": name,
    "summary": meta.get("summary"),
    "needs_to_manifest": meta.get("needs_to_manifest"),
    "files_changed": meta.get("files_changed"),
    "produced_by": "independent sub-agent given only the property text and a scratch worktree",
    "confirmed_by_me": {
        "how": "tools/seedconfirm.py in the scratch worktree: git apply patch.diff; cargo test --offline --no-fail-fast; install demo; run demo with and without the change",
        "unit_tests_with_change": conf.get("unit_pass_fail"),
        "unit_failed_with_change": conf.get("unit_failed"),
        "demo_cmd": conf.get("demo_cmd"),
        "demo_with_change": conf.get("demo_with_change_rc"),
        "demo_without_change": conf.get("demo_without_change_rc"),
        "at": conf.get("at"),
    },
    "checks_run": checks,
    "detected_by": {k: v for k, v in det.items() if isinstance(v, list) and v},
    "not_detected_by": [k for k, v in det.items() if isinstance(v, list) and not v],
}
json.dump(out, open(os.path.join(dst, "meta.json"), "w"), indent=1)
print(name, "->", dst, "detected_by:", sorted(out["detected_by"]))
