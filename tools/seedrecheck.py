#!/usr/bin/env python3
"""Re-run, for every kept seeded change, the checks recorded as detecting it (plus the property's own check) and
update meta.json; prints the seeds that are no longer detected by anything. usage: seedrecheck.py [prefix]"""
import json, os, subprocess, sys, glob
ROOT = os.path.dirname(os.path.dirname(os.path.abspath(__file__)))
pref = sys.argv[1] if len(sys.argv) > 1 else ""
lost = []
for mp in sorted(glob.glob(os.path.join(ROOT, "seeded", pref + "*", "meta.json"))):
    d = json.load(open(mp))
    sd = os.path.dirname(mp)
    checks = sorted(set([d["property"]] + list((d.get("detected_by") or {}).keys())))
    checks = [c for c in checks if os.path.exists(os.path.join(ROOT, "sa", "rules", c + ".py"))]
    r = subprocess.run([sys.executable, os.path.join(ROOT, "tools", "seedcheck.py"), os.path.join(sd, "patch.diff")] + checks, stdout=subprocess.PIPE, stderr=subprocess.STDOUT, text=True)
    det = {}
    for line in r.stdout.splitlines():
        for c in checks:
            if line.startswith(c + " "):
                try:
                    det[c] = json.loads(line[len(c) + 1:])
                except Exception:
                    det[c] = line[len(c) + 1:]
    d["checks_run"] = checks
    d["detected_by"] = {k: v for k, v in det.items() if isinstance(v, list) and v}
    d["not_detected_by"] = [k for k, v in det.items() if not (isinstance(v, list) and v)]
    json.dump(d, open(mp, "w"), indent=1)
    print(os.path.basename(sd), "->", sorted(d["detected_by"]), flush=True)
    if not d["detected_by"]:
        lost.append(os.path.basename(sd))
print("NOT DETECTED:", lost)
