#!/usr/bin/env python3
"""Confirm a seeded change produced by a sub-agent, in its scratch worktree:
 (1) patch applies, crate builds and the pinned unit tests pass with it,
 (2) the demonstration fails with the change and passes without it.
usage: seedconfirm.py <worktree> <seed-dir> ; writes <seed-dir>/confirm.json"""
import json, os, re, subprocess, sys, glob, shutil, time

wt, sd = sys.argv[1], sys.argv[2]
env = dict(os.environ, CARGO_TARGET_DIR=os.path.join(wt, "target"), CARGO_NET_OFFLINE="true")


def sh(cmd, timeout=3000):
    r = subprocess.run(cmd, shell=True, cwd=wt, env=env, stdout=subprocess.PIPE, stderr=subprocess.STDOUT, text=True, timeout=timeout)
    return r.returncode, r.stdout


def clean():
    sh("git checkout -- . && git clean -fdq -e _seed -e target")


res = {"seed": sd, "at": time.strftime("%Y-%m-%d %H:%M:%S")}
clean()
rc, out = sh("git apply --check %s/patch.diff && git apply %s/patch.diff" % (sd, sd))
res["patch_applies"] = rc == 0
if rc != 0:
    res["error"] = out[-500:]
else:
    rc, out = sh("cargo test --offline --no-fail-fast 2>&1 | grep -E '^test result|FAILED|^error' | head -20")
    res["unit_tests_with_change"] = out.strip().splitlines()
    m = re.search(r"test result: \w+\. (\d+) passed; (\d+) failed", out)
    res["unit_pass_fail"] = [int(m.group(1)), int(m.group(2))] if m else None
    failed = re.findall(r"^test (\S+) \.\.\. FAILED", sh("cargo test --offline --no-fail-fast 2>&1 | grep FAILED")[1], re.M)
    res["unit_failed"] = failed
    # install the demonstration
    demo = os.path.join(sd, "demo")
    for f in glob.glob(os.path.join(demo, "*.rs")):
        if os.path.basename(f).startswith("mock_test"):
            shutil.copy(f, os.path.join(wt, "src/vm/tests/mock_tests/"))
    for d in glob.glob(os.path.join(demo, "*.diff")) + glob.glob(os.path.join(demo, "*.patch")):
        rc, out = sh("git apply %s" % d)
        res.setdefault("demo_install", []).append([os.path.basename(d), rc])
    # register mock tests that no diff registered
    modrs = os.path.join(wt, "src/vm/tests/mock_tests/mod.rs")
    mtxt = open(modrs).read()
    runtxt = open(os.path.join(demo, "RUN.md")).read() if os.path.exists(os.path.join(demo, "RUN.md")) else ""
    # demo modules attached with #[path = "x.rs"] by one of the demo's registration patches live next to the patched file
    pathmods = {}
    for d in glob.glob(os.path.join(demo, "*.diff")) + glob.glob(os.path.join(demo, "*.patch")):
        tgt = None
        for line in open(d):
            if line.startswith("+++ b/"):
                tgt = line[6:].strip()
            m = re.match(r'^\+\s*#\[path\s*=\s*"([^"]+)"\]', line)
            if m and tgt:
                pathmods[m.group(1)] = os.path.dirname(tgt)
            # a plain `mod x;` added to some other mod.rs: the module file lives next to that file
            m = re.match(r'^\+\s*(?:#\[[^\]]*\]\s*)?(?:pub(?:\([a-z]+\))? )?mod (\w+);', line)
            if m and tgt and os.path.dirname(tgt) != "src/vm/tests/mock_tests" and (m.group(1) + ".rs") not in pathmods:
                pathmods[m.group(1) + ".rs"] = os.path.dirname(tgt)
                stray = os.path.join(wt, "src/vm/tests/mock_tests", m.group(1) + ".rs")
                if os.path.exists(stray):
                    os.remove(stray)
    for f in glob.glob(os.path.join(demo, "*.rs")):
        nm = os.path.basename(f)[:-3]
        if os.path.basename(f) in pathmods:
            shutil.copy(f, os.path.join(wt, pathmods[os.path.basename(f)]))
            res.setdefault("demo_install", []).append(["path module " + nm, 0])
            continue
        if not nm.startswith("mock_test") and (("tests/%s.rs" % nm) in runtxt or ("--test %s" % nm) in runtxt) and ("mock_tests/%s.rs" % nm) not in runtxt:
            # an integration test: goes into the crate's tests/ directory
            shutil.copy(f, os.path.join(wt, "tests/"))
            res.setdefault("demo_install", []).append(["integration test " + nm, 0])
            continue
        if nm.startswith("mock_test") and ("mod %s;" % nm) not in mtxt:
            mtxt += "\nmod %s;\n" % nm
            res.setdefault("demo_install", []).append(["auto-registered " + nm, 0])
        elif not nm.startswith("mock_test"):
            # helper modules (e.g. a harness): install next to the mock tests as well
            shutil.copy(f, os.path.join(wt, "src/vm/tests/mock_tests/"))
            if ("mod %s;" % nm) not in mtxt:
                mtxt += "\nmod %s;\n" % nm
    open(modrs, "w").write(mtxt)
    run = open(os.path.join(demo, "RUN.md")).read() if os.path.exists(os.path.join(demo, "RUN.md")) else ""
    cmds = []
    cur = None
    for line in run.splitlines():
        s = line.strip()
        if cur is not None:
            cur += " " + s.rstrip("\\").strip()
            if not s.endswith("\\"):
                cmds.append(cur)
                cur = None
        elif s.startswith("cargo test") or s.startswith("cargo +nightly test") or s.startswith("cargo run"):
            if s.endswith("\\"):
                cur = s.rstrip("\\").strip()
            else:
                cmds.append(s)
    cmd = os.environ.get("DEMO_CMD") or (cmds[0] if cmds else None)
    res["demo_cmd"] = cmd
    if cmd:
        if "--offline" not in cmd:
            cmd = cmd.replace("cargo test", "cargo test --offline", 1)
        rc1, out1 = sh(cmd + " 2>&1 | tail -30")
        rcx, outx = sh(cmd + " > /dev/null 2>&1; echo RC=$?")
        res["demo_with_change_rc"] = outx.strip()
        res["demo_with_change_tail"] = out1[-1200:]
        sh("git apply -R %s/patch.diff" % sd)
        rcy, outy = sh(cmd + " > /dev/null 2>&1; echo RC=$?")
        rc2, out2 = sh(cmd + " 2>&1 | tail -8")
        res["demo_without_change_rc"] = outy.strip()
        res["demo_without_change_tail"] = out2[-600:]
        res["confirmed"] = ("RC=0" not in res["demo_with_change_rc"]) and ("RC=0" in res["demo_without_change_rc"]) and res.get("unit_pass_fail", [0, 9])[0] >= 500 and set(failed) <= {"util::metadata::side_metadata::sanity::tests::test_side_metadata_sanity_verify_no_overlap_contiguous"}
clean()
json.dump(res, open(os.path.join(sd, "confirm.json"), "w"), indent=1)
print(json.dumps({k: res.get(k) for k in ("seed", "patch_applies", "unit_pass_fail", "unit_failed", "demo_cmd", "demo_with_change_rc", "demo_without_change_rc", "confirmed")}))
