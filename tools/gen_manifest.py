#!/usr/bin/env python3
"""Regenerate MANIFEST.json from the rule modules present under sa/rules and the N/A table."""
import json, os, sys, importlib, glob
ROOT = os.path.dirname(os.path.dirname(os.path.abspath(__file__)))
sys.path.insert(0, ROOT)

NA = {
    "C22": "equality of fast and naive bit scans is a value property of word/bit arithmetic over arbitrary bitmaps",
    "C26": "disjointness and complete coalescing of free-list runs is a shape invariant of a linked table under arbitrary alloc/free histories",
    "C32": "descriptor encode/decode round-trip is mantissa/exponent arithmetic over all inputs",
    "C33": "alignment and rounding results are arithmetic over all usize inputs",
    "C35": "size-class fitting is arithmetic; exhaustive enumeration would be execution, not static analysis",
    "C37": "forwarding addresses are prefix sums over mark bitmaps (runtime values)",
}
PENDING = "rule module not implemented yet in this revision (design in DESIGN.md chapter 4); not claimed until its check exists"

props = [json.loads(l) for l in open(os.path.join(ROOT, "properties.jsonl"))]
checks, na = [], []
served = []
for p in props:
    pid = p["id"]
    path = os.path.join(ROOT, "sa", "rules", pid + ".py")
    if os.path.exists(path):
        mod = importlib.import_module("sa.rules." + pid)
        served.append(pid)
        checks.append({
            "property_id": pid,
            "quick_cmd": "./check %s --tier quick" % pid,
            "thorough_cmd": "./check %s --tier thorough" % pid,
            "evidence_file": "/verif/evidence/%s.json" % pid,
            "replay_cmd_template": "./check %s --replay {path}" % pid,
            "engine": "mir-facts+rules",
            "level_claimed": {
                "category": mod.LEVEL,
                "text": getattr(mod, "LEVEL_TEXT", mod.EXPLANATION),
                "design_ref": "DESIGN.md chapter 4, section %s" % pid,
            },
            "level_note": getattr(mod, "LEVEL_NOTE", "structural necessary clauses only; trusted base: rustc MIR construction/callee resolution/const evaluation, abort-free CFG convention, frozen exception tables with reasons; behaviour over runtime values is not decided"),
            "technique": getattr(mod, "TECHNIQUE", "static analysis: custom rules (CFG dominance/post-dominance, control-dependence signatures, reaching-definition origin trees, call-graph census) over rustc MIR extracted by a rustc_private driver"),
        })
    elif pid in NA:
        na.append({"property_id": pid, "reason": NA[pid]})
    else:
        na.append({"property_id": pid, "reason": PENDING})

man = {
    "version": 1,
    "setup_cmd": "./setup.sh",
    "hooks": {
        "guard": "mmtk_verif",
        "enable": "none needed: facts are extracted from the unmodified crate by a rustc_private driver injected through RUSTC_WORKSPACE_WRAPPER (cargo +nightly check --offline --lib [--features ...]); no source hook exists",
        "baseline_off_cmd": "cd /repo && cargo test --workspace --no-fail-fast --offline",
        "source_commits": [],
        "add_only": True,
    },
    "engines": [
        {"name": "mir-facts-driver", "path": "driver/", "serves_properties": served,
         "kind_free_text": "rustc_private driver (nightly) dumping MIR bodies with resolved callees, ADT/impl/trait tables and compiler-evaluated constants per feature configuration"},
        {"name": "mir-facts+rules", "path": "sa/", "serves_properties": served,
         "kind_free_text": "Python static-analysis library (abort-free CFG, dominators, control dependence, reaching definitions/origin trees, call graph) and one repository-specific rule module per property"},
    ],
    "checks": checks,
    "not_applicable": na,
    "notes": "Technique family: static analysis only. Exit 0 = all rule instances hold; exit 1 + VIOLATION = unlisted violation; exit 2 + ANALYSIS-ERROR = analysis could not be performed (tree does not compile / anchor missing). Known findings: known_findings.json (2 unrepaired, both only with feature marksweep_as_nonmoving; 15 repaired with fix: commits in /repo). Seeded property-breaking changes: seeded/ (%d, all detected by the check of the property they break); behaviour-preserving refactorings: seeded-neutral/ (%d, all silent). Demonstrations of the defects found after the design: findings/." % (len(glob.glob(os.path.join(ROOT, "seeded", "*", "meta.json"))), len(glob.glob(os.path.join(ROOT, "seeded-neutral", "*", "meta.json")))),
}
json.dump(man, open(os.path.join(ROOT, "MANIFEST.json"), "w"), indent=1)
print("checks:", [c["property_id"] for c in checks])
print("n/a:", [n["property_id"] for n in na])
