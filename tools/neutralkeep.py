#!/usr/bin/env python3
"""Keep behaviour-preserving refactorings from sub-agents under /verif/seeded-neutral/<prop>-<name>/ and record what the checks
say about each (expected: nothing). usage: neutralkeep.py <neutral-dir> <prop> <checks...>"""
import json, os, shutil, subprocess, sys
ROOT = os.path.dirname(os.path.dirname(os.path.abspath(__file__)))
sd, prop, checks = os.path.abspath(sys.argv[1]).rstrip("/"), sys.argv[2], sys.argv[3:]
name = os.path.basename(sd)
dst = os.path.join(ROOT, "seeded-neutral", "%s-%s" % (prop, name))
os.makedirs(dst, exist_ok=True)
shutil.copy(os.path.join(sd, "patch.diff"), os.path.join(dst, "patch.diff"))
meta = json.load(open(os.path.join(sd, "meta.json")))
r = subprocess.run([sys.executable, os.path.join(ROOT, "tools", "seedcheck.py"), os.path.join(sd, "patch.diff")] + checks, stdout=subprocess.PIPE, stderr=subprocess.STDOUT, text=True)
res = {}
for line in r.stdout.splitlines():
    for c in checks:
        if line.startswith(c + " "):
            try:
                res[c] = json.loads(line[len(c) + 1:])
            except Exception:
                res[c] = line[len(c) + 1:]
out = {"property": prop, "name": name, "kind": "behaviour-preserving refactoring (must not be reported)", "summary": meta.get("summary"),
       "why_behaviour_unchanged": meta.get("why_behaviour_unchanged"), "files_changed": meta.get("files_changed"),
       "produced_by": "independent sub-agent given only the property text and a scratch worktree; it ran the pinned suite with the change",
       "checks_run": checks, "reports": {k: v for k, v in res.items() if v}, "silent": all(not v for v in res.values()) and len(res) == len(checks)}
json.dump(out, open(os.path.join(dst, "meta.json"), "w"), indent=1)
print(name, "silent" if out["silent"] else "REPORTED %s" % out["reports"])
if len(res) != len(checks):
    print("INCOMPLETE RUN (%d of %d checks reported); tail of output:\n%s" % (len(res), len(checks), r.stdout[-1500:]))
