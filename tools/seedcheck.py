#!/usr/bin/env python3
"""Run this repository's rule modules against a seeded change (patch.diff) on a scratch copy of /repo.
usage: seedcheck.py <patch.diff> [Cxx ...]   (default: all properties with a rule module)
Prints, per property, the violations raised with the change applied."""
import sys, os, json, glob
sys.path.insert(0, os.path.dirname(os.path.dirname(os.path.abspath(__file__))))
from sa import selftest, extract
import importlib

patch = os.path.abspath(sys.argv[1])
props = sys.argv[2:]
if not props:
    props = sorted(os.path.basename(p)[:-3] for p in glob.glob(os.path.join(extract.VERIF, "sa", "rules", "C[0-9][0-9].py")))
slot = "seed-%d" % os.getpid()
repo = selftest.make_scratch(slot)
out = {}
try:
    if not selftest.apply_patch(repo, patch):
        print(json.dumps({"error": "patch does not apply"}))
        sys.exit(2)
    for p in props:
        mod = importlib.import_module("sa.rules." + p)
        cfgs = mod.QUICK
        if os.environ.get("SEED_CONFIGS"):
            cfgs = os.environ["SEED_CONFIGS"].split(",")
        v, err = selftest.run_rules_on(repo, p, cfgs)
        if err:
            out[p] = {"error": err[:300]}
        else:
            out[p] = sorted(set("%s: %s" % (i.rule, i.subject) for i in v))
        print(p, json.dumps(out[p]))
    selftest.cleanup_scratch_facts(repo)
finally:
    selftest.drop_scratch(slot)
hit = [p for p, v in out.items() if isinstance(v, list) and v]
print("DETECTED-BY:", hit)
